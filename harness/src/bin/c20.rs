//! C20 — data interchange round-trips.
//!
//! (K1) value trees through the real `json/yaml/toml` `to_string`/`from_string` (called from a Koto
//!      script, modules in the prelude as the CLI registers them) compared with the Lean model's
//!      `de ∘ ser` (= `norm`), `tomlAccepts`, `jsonLayer`;
//! (K2) `SerializableKValue::serialize` into a recording `Serializer` vs `Model.ser`;
//!      `DeserializableKValue::deserialize` from a replaying `Deserializer` vs `Model.de`;
//! (K3) `to_koto_value` / `from_koto_value` for a family of Rust types vs `Model.toKoto/fromKoto`
//!      (round trips and mutated inputs);
//! (D)  round trip = harness-side normal form, second trip identity, Rust-side equality,
//!      out-of-range ⇒ error, malformed documents ⇒ error and never a panic (worker process).
use koto::prelude::*;
use koto_serde::{from_koto_value, to_koto_value, DeserializableKValue, SerializableKValue};
use kvh::{hex, Args, Driver, Report, Rng};
use serde::{Deserialize, Serialize};
use serde_json::json;
use std::collections::BTreeMap;
use std::time::Duration;

// ------------------------------------------------------------------------------------------------
// value trees (harness mirror of `Val`)
// ------------------------------------------------------------------------------------------------

#[derive(Clone, Debug, PartialEq)]
enum T {
    Null,
    Bool(bool),
    I(i64),
    F(u64),
    S(String),
    L(Vec<T>),
    Tu(Vec<T>),
    M(Vec<(T, T)>),
    R(Option<i64>, Option<(i64, bool)>),
}

fn canon_bits(b: u64) -> u64 {
    if f64::from_bits(b).is_nan() { 0x7ff8000000000000 } else { b }
}

impl T {
    fn text(&self) -> String {
        let mut s = String::new();
        self.write(&mut s);
        s
    }
    fn write(&self, o: &mut String) {
        match self {
            T::Null => o.push_str("null"),
            T::Bool(b) => o.push_str(if *b { "b1" } else { "b0" }),
            T::I(i) => o.push_str(&format!("i{}", i)),
            T::F(b) => o.push_str(&format!("f{:016x}", canon_bits(*b))),
            T::S(s) => {
                o.push('s');
                o.push_str(&hex(s.as_bytes()));
            }
            T::L(xs) | T::Tu(xs) => {
                o.push_str(if matches!(self, T::L(_)) { "(l" } else { "(t" });
                for x in xs {
                    o.push(' ');
                    x.write(o);
                }
                o.push(')');
            }
            T::M(es) => {
                o.push_str("(m");
                for (k, v) in es {
                    o.push_str(" (");
                    k.write(o);
                    o.push(' ');
                    v.write(o);
                    o.push(')');
                }
                o.push(')');
            }
            T::R(a, b) => {
                o.push_str("(r ");
                match a {
                    Some(a) => o.push_str(&a.to_string()),
                    None => o.push('_'),
                }
                match b {
                    Some((b, incl)) => o.push_str(&format!(" {} {})", b, if *incl { 1 } else { 0 })),
                    None => o.push_str(" _ 0)"),
                }
            }
        }
    }

    fn to_kvalue(&self) -> KValue {
        match self {
            T::Null => KValue::Null,
            T::Bool(b) => KValue::Bool(*b),
            T::I(i) => KValue::Number(KNumber::I64(*i)),
            T::F(b) => KValue::Number(KNumber::F64(f64::from_bits(*b))),
            T::S(s) => KValue::Str(s.as_str().into()),
            T::L(xs) => KValue::List(KList::with_data(xs.iter().map(|x| x.to_kvalue()).collect())),
            T::Tu(xs) => KValue::Tuple(xs.iter().map(|x| x.to_kvalue()).collect::<Vec<_>>().into()),
            T::M(es) => {
                let m = KMap::new();
                for (k, v) in es {
                    m.data_mut().insert(ValueKey::try_from(k.to_kvalue()).expect("hashable key"), v.to_kvalue());
                }
                KValue::Map(m)
            }
            T::R(a, b) => KValue::Range(KRange::new(*a, *b)),
        }
    }

    fn from_kvalue(v: &KValue) -> Option<T> {
        Some(match v {
            KValue::Null => T::Null,
            KValue::Bool(b) => T::Bool(*b),
            KValue::Number(KNumber::I64(i)) => T::I(*i),
            KValue::Number(KNumber::F64(f)) => T::F(f.to_bits()),
            KValue::Str(s) => T::S(s.as_str().to_string()),
            KValue::List(l) => T::L(l.data().iter().map(T::from_kvalue).collect::<Option<Vec<_>>>()?),
            KValue::Tuple(t) => T::Tu(t.iter().map(T::from_kvalue).collect::<Option<Vec<_>>>()?),
            KValue::Map(m) => T::M(
                m.data()
                    .iter()
                    .map(|(k, v)| Some((T::from_kvalue(k.value())?, T::from_kvalue(v)?)))
                    .collect::<Option<Vec<_>>>()?,
            ),
            KValue::Range(r) => T::R(r.start(), r.end()),
            _ => return None,
        })
    }

    /// entries of every map sorted by key text (TOML comparison: Koto's map equality ignores order)
    fn sorted(&self) -> T {
        match self {
            T::L(xs) => T::L(xs.iter().map(|x| x.sorted()).collect()),
            T::Tu(xs) => T::Tu(xs.iter().map(|x| x.sorted()).collect()),
            T::M(es) => {
                let mut es: Vec<(T, T)> = es.iter().map(|(k, v)| (k.clone(), v.sorted())).collect();
                es.sort_by_key(|(k, _)| k.text());
                T::M(es)
            }
            other => other.clone(),
        }
    }

    fn size(&self) -> usize {
        match self {
            T::L(xs) | T::Tu(xs) => 1 + xs.iter().map(|x| x.size()).sum::<usize>(),
            T::M(es) => 1 + es.iter().map(|(k, v)| k.size() + v.size()).sum::<usize>(),
            _ => 1,
        }
    }
    fn depth(&self) -> usize {
        match self {
            T::L(xs) | T::Tu(xs) => 1 + xs.iter().map(|x| x.depth()).max().unwrap_or(0),
            T::M(es) => 1 + es.iter().map(|(_, v)| v.depth()).max().unwrap_or(0),
            _ => 0,
        }
    }
    /// container levels, as `Model.depth` counts them
    fn depth_all(&self) -> usize {
        match self {
            T::L(xs) | T::Tu(xs) => 1 + xs.iter().map(|x| x.depth_all()).max().unwrap_or(0),
            T::M(es) => 1 + es.iter().map(|(_, v)| v.depth_all()).max().unwrap_or(0),
            _ => 0,
        }
    }
    fn walk(&self, f: &mut impl FnMut(&T)) {
        f(self);
        match self {
            T::L(xs) | T::Tu(xs) => xs.iter().for_each(|x| x.walk(f)),
            T::M(es) => es.iter().for_each(|(k, v)| {
                k.walk(f);
                v.walk(f)
            }),
            _ => {}
        }
    }
}

/// TOML's entry order on a normal form: per map first the entries written inline, then the entries
/// written as `[table]` (maps) or `[[array of tables]]` (non-empty sequences of maps only), each group
/// in its original order; inline values are left alone.
fn toml_order(t: &T) -> T {
    fn table_like(v: &T) -> bool {
        match v {
            T::M(_) => true,
            T::Tu(xs) | T::L(xs) => !xs.is_empty() && xs.iter().all(|x| matches!(x, T::M(_))),
            _ => false,
        }
    }
    match t {
        T::M(es) => {
            let mut out: Vec<(T, T)> = es.iter().filter(|(_, v)| !table_like(v)).cloned().collect();
            out.extend(es.iter().filter(|(_, v)| table_like(v)).map(|(k, v)| (k.clone(), toml_order(v))));
            T::M(out)
        }
        T::Tu(xs) if table_like(t) => T::Tu(xs.iter().map(toml_order).collect()),
        T::L(xs) if table_like(t) => T::L(xs.iter().map(toml_order).collect()),
        other => other.clone(),
    }
}

/// harness-side normal form (independent of the Lean model; uses the real `ValueKey: Display`)
fn hnorm(t: &T) -> T {
    match t {
        T::L(xs) | T::Tu(xs) => T::Tu(xs.iter().map(hnorm).collect()),
        T::M(es) => {
            let mut out: Vec<(T, T)> = vec![];
            for (k, v) in es {
                let ks = ValueKey::try_from(k.to_kvalue()).expect("hashable").to_string();
                let nv = hnorm(v);
                if let Some(e) = out.iter_mut().find(|(k2, _)| *k2 == T::S(ks.clone())) {
                    e.1 = nv;
                } else {
                    out.push((T::S(ks), nv));
                }
            }
            T::M(out)
        }
        other => other.clone(),
    }
}


// --- parser for the canonical value text (model responses) ---
fn parse_val(s: &str) -> Option<T> {
    let toks = tokenize(s);
    let mut pos = 0;
    let v = parse_val_at(&toks, &mut pos)?;
    if pos == toks.len() { Some(v) } else { None }
}
fn tokenize(s: &str) -> Vec<String> {
    let mut out = vec![];
    let mut cur = String::new();
    for c in s.chars() {
        if c == '(' || c == ')' || c == ' ' {
            if !cur.is_empty() {
                out.push(std::mem::take(&mut cur));
            }
            if c != ' ' {
                out.push(c.to_string());
            }
        } else {
            cur.push(c);
        }
    }
    if !cur.is_empty() {
        out.push(cur);
    }
    out
}
fn parse_val_at(t: &[String], p: &mut usize) -> Option<T> {
    let tok = t.get(*p)?.clone();
    *p += 1;
    if tok == "(" {
        let head = t.get(*p)?.clone();
        *p += 1;
        match head.as_str() {
            "l" | "t" => {
                let mut xs = vec![];
                while t.get(*p)? != ")" {
                    xs.push(parse_val_at(t, p)?);
                }
                *p += 1;
                Some(if head == "l" { T::L(xs) } else { T::Tu(xs) })
            }
            "m" => {
                let mut es = vec![];
                while t.get(*p)? != ")" {
                    if t.get(*p)? != "(" {
                        return None;
                    }
                    *p += 1;
                    let k = parse_val_at(t, p)?;
                    let v = parse_val_at(t, p)?;
                    if t.get(*p)? != ")" {
                        return None;
                    }
                    *p += 1;
                    es.push((k, v));
                }
                *p += 1;
                Some(T::M(es))
            }
            "r" => {
                let a = t.get(*p)?.clone();
                let b = t.get(*p + 1)?.clone();
                let i = t.get(*p + 2)?.clone();
                if t.get(*p + 3)? != ")" {
                    return None;
                }
                *p += 4;
                let a = if a == "_" { None } else { Some(a.parse().ok()?) };
                let b = if b == "_" { None } else { Some((b.parse().ok()?, i == "1")) };
                Some(T::R(a, b))
            }
            _ => None,
        }
    } else if tok == "null" {
        Some(T::Null)
    } else if tok == "b0" {
        Some(T::Bool(false))
    } else if tok == "b1" {
        Some(T::Bool(true))
    } else if let Some(r) = tok.strip_prefix('i') {
        Some(T::I(r.parse().ok()?))
    } else if let Some(r) = tok.strip_prefix('f') {
        Some(T::F(u64::from_str_radix(r, 16).ok()?))
    } else if let Some(r) = tok.strip_prefix('s') {
        Some(T::S(String::from_utf8(kvh::unhex(r)?).ok()?))
    } else {
        None
    }
}

// ------------------------------------------------------------------------------------------------
// generators
// ------------------------------------------------------------------------------------------------

const STR_POOL: &[&str] = &[
    "", "a", "key", "x y", "a.b", "true", "false", "null", "~", "1", "-1", "1.0", "1e3", ".inf", ".nan", "0x10",
    "0o7", "+1", "1_000", "yes", "No", "on", "- a", " lead", "trail ", "a: b", "#c", "a #c", "2020-01-01",
    "2020-01-01T00:00:00Z", "'", "\"", "''", "\"\"\"", "'''", "\\", "\\n", "a\\", "\n", "\r\n", "a\nb", "a\nb\n",
    "\n\n", " \n ", "\t", "a\tb", "\u{0}", "\u{1}", "\u{1b}", "\u{7f}", "\u{85}", "\u{a0}x", "\u{2028}", "\u{2029}",
    "\u{feff}", "\u{fffe}", "\u{ffff}", "\u{e000}", "\u{10ffff}", "é", "字", "😀", "e\u{301}", "👨\u{200d}👩", "|", ">",
    "|-", "?", "? a", "!!str x", "!t", "&a", "*a", "@a", "`a", "%a", "{a}", "[a]", "{", "}", "[", "]", ",", "a,b",
    ":", "a:", ":a", "=", "a = 1", "[t]", "[[t]]", "---", "...", "--- a", "$__toml_private_datetime", "<<", "=>",
    "inf", "nan", "-inf", "+inf", "0.1", "00", "1.", ".5", "1e", "0b1", "18446744073709551615", "9223372036854775808",
    "long long long long long long long long long long long long long long long long long long long long long long",
    "trailing space at eol \nnext", "  two\n  indented\n", "a\n\nb", "\u{b}", "\u{c}", "a\rb", "\r",
];
const CHAR_POOL: &[char] = &[
    'a', 'b', 'z', 'A', '0', '9', ' ', '_', '-', '.', ':', ',', '\'', '"', '\\', '/', '\n', '\r', '\t', '\u{0}',
    '\u{7}', '\u{1f}', '\u{7f}', '\u{80}', '\u{85}', '\u{a0}', 'é', 'ß', 'λ', '字', '한', '😀', '\u{301}', '\u{200d}',
    '\u{2028}', '\u{feff}', '\u{fffd}', '\u{ffff}', '\u{10000}', '\u{10ffff}', '#', '{', '}', '[', ']', '|', '>', '&',
    '*', '!', '%', '@', '`', '?', '=', '~', '$', '<', '+',
];
const INT_POOL: &[i64] = &[
    0, 1, -1, 2, 7, 10, 42, 99, 127, 128, 255, 256, -128, -129, 32767, 65535, 65536, 2147483647, 2147483648,
    -2147483648, 4294967295, 4294967296, 9007199254740992, 9007199254740993, -9007199254740993, i64::MAX, i64::MIN,
    i64::MAX - 1, i64::MIN + 1, 1000000000000000000,
];
const FLOAT_POOL: &[f64] = &[
    0.0, -0.0, 1.0, -1.0, 0.5, 0.1, 0.2, 0.30000000000000004, 1.5, 2.5, -1.2, 3.141592653589793, 1e15, 1e16, 1e17,
    1e21, 1e22, 1e23, 1e-5, 1e-7, 1e300, 1e-300, 1e308, 5e-324, 2.2250738585072014e-308, 2.225073858507201e-308,
    1.7976931348623157e308, 9007199254740992.0, 9007199254740994.0, 9223372036854775807.0, 18446744073709551616.0,
    -9223372036854775808.0, 123456789012345680000.0, 4.35, 0.000001, 1e-10, 100.0, 1e2, 4294967296.0, 33.333333333333336,
    f32::MAX as f64, f32::MIN_POSITIVE as f64, 0.1f32 as f64,
];

fn gen_string(r: &mut Rng) -> String {
    match r.weighted(&[5, 4, 1]) {
        0 => (*r.pick(STR_POOL)).to_string(),
        1 => {
            let n = r.below(8);
            (0..n).map(|_| *r.pick(CHAR_POOL)).collect()
        }
        _ => {
            // random scalar values + pool pieces
            let n = 1 + r.below(6);
            let mut s = String::new();
            for _ in 0..n {
                if r.chance(1, 3) {
                    s.push_str(*r.pick(STR_POOL));
                } else {
                    let cp = match r.below(4) {
                        0 => r.below(0x80) as u32,
                        1 => r.below(0x800) as u32,
                        2 => r.below(0x10000) as u32,
                        _ => r.below(0x110000) as u32,
                    };
                    if let Some(c) = char::from_u32(cp) {
                        s.push(c);
                    }
                }
            }
            s
        }
    }
}

fn gen_finite(r: &mut Rng) -> u64 {
    loop {
        let b = match r.weighted(&[4, 3, 1]) {
            0 => r.pick(FLOAT_POOL).to_bits(),
            1 => r.next_u64(),
            _ => {
                // small decimal-looking numbers
                let x = r.range(-100000, 100000) as f64 / [1.0, 10.0, 100.0, 1000.0, 3.0, 7.0][r.below(6)];
                x.to_bits()
            }
        };
        if f64::from_bits(b).is_finite() {
            return b;
        }
    }
}

fn gen_int(r: &mut Rng) -> i64 {
    match r.weighted(&[3, 2, 1]) {
        0 => *r.pick(INT_POOL),
        1 => r.range(-1000, 1000),
        _ => r.next_u64() as i64,
    }
}

#[derive(Clone, Copy)]
struct Profile {
    /// non-string keys (int/bool/null/float/tuple/range)
    odd_keys: bool,
    /// NaN / ±inf
    non_finite: bool,
    /// ranges in value positions (unserializable)
    ranges: bool,
    nulls: bool,
}

fn gen_key(r: &mut Rng, p: &Profile, d: u32) -> T {
    if !p.odd_keys || r.chance(3, 4) {
        return T::S(gen_string(r));
    }
    match r.weighted(&[6, 2, 2, 2, 2, 1]) {
        0 => T::I(gen_int(r)),
        1 => T::Bool(r.chance(1, 2)),
        2 => T::Null,
        3 => T::F(gen_finite(r)),
        4 => {
            let n = r.below(3);
            T::Tu((0..n).map(|_| if d > 1 { T::I(gen_int(r)) } else { gen_key(r, p, d + 1) }).collect())
        }
        _ => T::R(
            if r.chance(3, 4) { Some(r.range(-5, 5)) } else { None },
            if r.chance(3, 4) { Some((r.range(-5, 5), r.chance(1, 2))) } else { None },
        ),
    }
}

fn gen_tree(r: &mut Rng, p: &Profile, depth: u32, max_depth: u32) -> T {
    let leaf = depth >= max_depth || r.chance(1, 3 + depth);
    if leaf {
        return match r.weighted(&[if p.nulls { 2 } else { 0 }, 2, 5, 5, 6, if p.non_finite { 1 } else { 0 }, if p.ranges { 1 } else { 0 }]) {
            0 => T::Null,
            1 => T::Bool(r.chance(1, 2)),
            2 => T::I(gen_int(r)),
            3 => T::F(gen_finite(r)),
            4 => T::S(gen_string(r)),
            5 => T::F(*r.pick(&[f64::NAN.to_bits(), f64::INFINITY.to_bits(), f64::NEG_INFINITY.to_bits(), 0xfff8000000000001])),
            _ => T::R(Some(r.range(-3, 3)), Some((r.range(-3, 9), r.chance(1, 2)))),
        };
    }
    let n = if r.chance(1, 8) { 0 } else { 1 + r.below(4) };
    match r.weighted(&[2, 2, 4]) {
        0 => T::L((0..n).map(|_| gen_tree(r, p, depth + 1, max_depth)).collect()),
        1 => T::Tu((0..n).map(|_| gen_tree(r, p, depth + 1, max_depth)).collect()),
        _ => {
            let mut es: Vec<(T, T)> = vec![];
            for _ in 0..n {
                let k = gen_key(r, p, 0);
                // real Koto maps have distinct keys (ValueKey equality: numbers compare by value)
                let kk = ValueKey::try_from(k.to_kvalue()).unwrap();
                if es.iter().any(|(k2, _)| ValueKey::try_from(k2.to_kvalue()).unwrap() == kk) {
                    continue;
                }
                // 1 and 1.0 are equal keys with different hashes (F-C14-1): never both
                if let T::F(_) | T::I(_) = k {
                    if es.iter().any(|(k2, _)| matches!(k2, T::F(_) | T::I(_)) && std::mem::discriminant(k2) != std::mem::discriminant(&k)) {
                        continue;
                    }
                }
                es.push((k, gen_tree(r, p, depth + 1, max_depth)));
            }
            T::M(es)
        }
    }
}

// ------------------------------------------------------------------------------------------------
// the real libraries, called the way scripts call them
// ------------------------------------------------------------------------------------------------

const FORMATS: &[&str] = &["json", "yaml", "toml"];

const SCRIPT: &str = "
export to_json = |x| json.to_string x
export from_json = |s| json.from_string s
export to_yaml = |x| yaml.to_string x
export from_yaml = |s| yaml.from_string s
export to_toml = |x| toml.to_string x
export from_toml = |s| toml.from_string s
";

struct Libs {
    koto: Koto,
}

impl Libs {
    fn new() -> Libs {
        let mut koto = Koto::default();
        koto.prelude().insert("json", koto_json::make_module());
        koto.prelude().insert("yaml", koto_yaml::make_module());
        koto.prelude().insert("toml", koto_toml::make_module());
        koto.compile_and_run(SCRIPT).expect("helper script");
        Libs { koto }
    }
    /// Ok(Ok(text)) | Ok(Err(msg)) | Err(panic)
    fn to_string(&mut self, fmt: &str, v: &KValue) -> Result<Result<String, String>, String> {
        let name = format!("to_{}", fmt);
        let v = v.clone();
        let koto = &mut self.koto;
        kvh::catch(move || match koto.call_exported_function(&name, &[v][..]) {
            Ok(KValue::Str(s)) => Ok(s.as_str().to_string()),
            Ok(other) => Err(format!("to_string returned {}", other.type_as_string())),
            Err(e) => Err(e.to_string()),
        })
    }
    fn from_string(&mut self, fmt: &str, s: &str) -> Result<Result<KValue, String>, String> {
        let name = format!("from_{}", fmt);
        let arg = KValue::Str(s.into());
        let koto = &mut self.koto;
        kvh::catch(move || koto.call_exported_function(&name, &[arg][..]).map_err(|e| e.to_string()))
    }
}

fn field<'a>(resp: &'a str, name: &str) -> &'a str {
    let pat = format!("{}=", name);
    for part in split_fields(resp) {
        if let Some(r) = part.strip_prefix(&pat) {
            return r;
        }
    }
    ""
}
/// split a response at spaces that are outside parentheses
fn split_fields(s: &str) -> Vec<&str> {
    let mut out = vec![];
    let (mut depth, mut start) = (0i32, 0usize);
    for (i, c) in s.char_indices() {
        match c {
            '(' => depth += 1,
            ')' => depth -= 1,
            ' ' if depth == 0 => {
                out.push(&s[start..i]);
                start = i + 1;
            }
            _ => {}
        }
    }
    out.push(&s[start..]);
    out
}

/// float keys of a tree with Rust's rendering (an input to the model)
fn fk_table(t: &T) -> String {
    let mut es: Vec<String> = vec![];
    fn keys(t: &T, es: &mut Vec<String>, in_key: bool) {
        match t {
            T::F(b) if in_key => {
                let txt = KNumber::F64(f64::from_bits(*b)).to_string();
                let e = format!("(f{:016x} {})", b, hex(txt.as_bytes()));
                if !es.contains(&e) {
                    es.push(e);
                }
            }
            T::L(xs) | T::Tu(xs) => xs.iter().for_each(|x| keys(x, es, in_key)),
            T::M(m) => m.iter().for_each(|(k, v)| {
                keys(k, es, true);
                keys(v, es, in_key)
            }),
            _ => {}
        }
    }
    keys(t, &mut es, false);
    format!("(fk{})", es.iter().map(|e| format!(" {}", e)).collect::<String>())
}

fn tree_request(t: &T) -> String {
    format!("tree {} {}", t.text(), fk_table(t))
}

/// does any map of the tree get two equal keys once keys are strings?
fn has_key_collision(t: &T) -> bool {
    let mut hit = false;
    t.walk(&mut |x| {
        if let T::M(es) = x {
            let mut seen = std::collections::HashSet::new();
            for (k, _) in es {
                if !seen.insert(ValueKey::try_from(k.to_kvalue()).unwrap().to_string()) {
                    hit = true;
                }
            }
        }
    });
    hit
}

struct Ctx {
    rep: Report,
    drv: Driver,
    libs: Libs,
    open: Vec<String>,
    known_counts: BTreeMap<String, u64>,
    /// finite float leaves that came back bit-identical, per format (value positions)
    float_exact: [u64; 3],
    /// the readers' nesting limits as the model states them (json, yaml, toml)
    depth_limits: [usize; 3],
    /// the writer's nesting limit as the model states it
    writer_limit: usize,
    k_fail: u64,
    d_fail: u64,
}

impl Ctx {
    fn sample_room(&self, kind: &str, max: usize) -> bool {
        self.rep.samples.iter().filter(|s| s["kind"] == kind).count() < max
    }
    fn viol_d(&mut self, name: &str, detail: serde_json::Value) {
        self.d_fail += 1;
        if self.d_fail <= 8 {
            self.rep.violation("D", name, detail);
        }
    }
    fn viol_k(&mut self, entry: &str, detail: serde_json::Value) {
        self.k_fail += 1;
        if self.k_fail <= 8 {
            self.rep.violation("K", &format!("K:C20:{}", entry), detail);
        }
    }

    /// (K1)+(K2a)+(D) for one value tree
    fn check_tree(&mut self, t: &T, origin: &str) {
        let req = tree_request(t);
        let resp = self.drv.ask(&req);
        if resp == "bad-request" {
            self.viol_k("driver", json!({"input": req, "note": "driver rejected the request"}));
            return;
        }
        let nontrivial = t.size() >= 3;
        self.rep.case(&req, nontrivial);
        self.rep.bump(&format!("tree_depth={}", t.depth()));
        self.rep.bump(&format!("tree_size={}", match t.size() { 0..=1 => "1", 2..=4 => "2-4", 5..=15 => "5-15", 16..=50 => "16-50", _ => ">50" }));
        self.rep.bump(&format!("tree_origin={}", origin));
        t.walk(&mut |x| {
            let k = match x {
                T::Null => "null",
                T::Bool(_) => "bool",
                T::I(_) => "int",
                T::F(_) => "float",
                T::S(_) => "str",
                T::L(_) => "list",
                T::Tu(_) => "tuple",
                T::M(_) => "map",
                T::R(..) => "range",
            };
            self.rep.bump(&format!("node={}", k));
        });
        let m_ser = field(&resp, "ser").to_string();
        let m_rt = field(&resp, "rt").to_string();
        let m_norm = field(&resp, "norm").to_string();
        let m_sz = field(&resp, "sz") == "1";
        let m_toml = field(&resp, "toml") == "1";
        let m_fin = field(&resp, "fin") == "1";
        let m_sk = field(&resp, "sk") == "1";
        let m_json = field(&resp, "json").to_string();
        let m_depth: usize = field(&resp, "depth").parse().unwrap_or(0);
        if m_depth != t.depth_all() {
            self.viol_k("Model.depth", json!({"input": req, "model": m_depth, "harness": t.depth_all()}));
        }
        if field(&resp, "ndepth").parse::<usize>().unwrap_or(usize::MAX) > m_depth {
            self.viol_k("Model.depth (depth_norm_le evaluated)", json!({"input": req, "model": resp}));
        }
        if field(&resp, "idem") != "1" {
            self.viol_k("Model.norm (norm_idem evaluated)", json!({"input": req, "model": resp}));
        }
        let m_writes = m_ser != "err";
        if m_sz != m_writes && t.depth_all() <= self.writer_limit {
            self.viol_k("Model.serW vs serializable", json!({"input": req, "model": resp}));
        }
        if m_writes && m_rt != m_norm {
            self.viol_k("Model.de∘ser = norm (de_ser evaluated)", json!({"input": req, "model": resp}));
        }
        if !m_sk {
            self.rep.bump("tree_has_non_string_key");
        }
        if !m_sz {
            self.rep.bump("tree_unserializable");
        }
        if m_sz && !m_writes {
            self.rep.bump("tree_beyond_writer_nesting_limit");
        }
        let kv = t.to_kvalue();
        let hn = hnorm(t);

        // (K2a) serialize.rs vs Model.ser through a recording serializer
        let rec = kvh::catch(|| SerializableKValue(&kv).serialize(Recorder));
        let rec_txt = match rec {
            Ok(Ok(sv)) => sv.text(),
            Ok(Err(_)) => "err".to_string(),
            Err(p) => {
                self.viol_d("C20:no-panic:serialize", json!({"input": req, "panic": p}));
                return;
            }
        };
        if rec_txt != m_ser {
            self.viol_k("Model.ser", json!({"input": req, "impl_calls": rec_txt, "model_ser": m_ser,
                "note": "serialize.rs and Model.ser disagree on the serializer calls made for this value"}));
        }
        if self.rep.samples.len() < 3 && t.size() >= 6 && t.size() <= 14 {
            self.rep.sample(json!({"kind": "ser", "request": req, "impl": rec_txt, "model": m_ser}));
        }

        // (K1) text layers
        let collision = has_key_collision(t);
        for fmt in FORMATS {
            let expect_ok = m_writes && (*fmt != "toml" || m_toml);
            let s = match self.libs.to_string(fmt, &kv) {
                Err(p) => {
                    self.viol_d(&format!("C20:no-panic:{}.to_string", fmt), json!({"input": req, "panic": p}));
                    continue;
                }
                Ok(r) => r,
            };
            self.rep.bump(&format!("{}.to_string={}", fmt, if s.is_ok() { "ok" } else { "err" }));
            match (&s, expect_ok) {
                (Ok(_), true) | (Err(_), false) => {}
                (Ok(txt), false) => {
                    self.viol_k(
                        if *fmt == "toml" { "Model.tomlAccepts/serializable" } else { "Model.serializable" },
                        json!({"input": req, "format": fmt, "impl": txt, "model": "error expected", "model_resp": resp}),
                    );
                    continue;
                }
                (Err(e), true) if m_depth > self.depth_limits[FORMATS.iter().position(|f| f == fmt).unwrap()] && e.contains("nested") => {
                    // explicit refusal of a value the reader could not take back (the repaired form of F-C20-5)
                    self.rep.bump(&format!("{}_to_string_refuses_too_deep", fmt));
                    continue;
                }
                (Err(e), true) => {
                    // the property says this value converts: a failing input
                    self.viol_d(&format!("C20:{}.to_string fails on a serializable value", fmt),
                        json!({"input": req, "format": fmt, "error": e, "model_resp": resp}));
                    continue;
                }
            }
            let Ok(txt) = s else { continue };
            if *fmt == "toml" && collision {
                // duplicate keys after stringification: the document is rejected by the TOML parser
                self.rep.bump("toml_skipped_key_collision");
                continue;
            }
            let back = match self.libs.from_string(fmt, &txt) {
                Err(p) => {
                    self.viol_d(&format!("C20:no-panic:{}.from_string", fmt), json!({"input": req, "document": txt, "panic": p}));
                    continue;
                }
                Ok(Err(e)) => {
                    let limit = self.depth_limits[FORMATS.iter().position(|f| f == fmt).unwrap()];
                    // F-C20-5 as narrowed after d9992fd: only TOML's reader (81) is below the writer's limit
                    let too_deep = *fmt == "toml" && m_depth > limit;
                    if too_deep && self.open.iter().any(|o| o == "F-C20-5") {
                        // deeper than the reader's recursion limit: serializes, cannot be read back
                        *self.known_counts.entry("F-C20-5".into()).or_insert(0) += 1;
                        self.rep.bump(&format!("{}_too_deep_to_read_back", fmt));
                    } else if m_depth <= limit && e.contains("recursion limit") {
                        self.viol_k("Model.*DepthLimit", json!({"input_depth": m_depth, "format": fmt, "model_limit": limit, "error": e,
                            "note": "the reader refuses a nesting depth the model's limit constant allows"}));
                    } else {
                        self.viol_d(&format!("C20:{}: own output does not parse", fmt), json!({"input": if req.len() < 4000 { req.clone() } else { format!("(tree of depth {})", m_depth) }, "format": fmt, "document": if txt.len() < 4000 { txt.clone() } else { "(long)".into() }, "error": e}));
                    }
                    continue;
                }
                Ok(Ok(v)) => v,
            };
            {
                let limit = self.depth_limits[FORMATS.iter().position(|f| f == fmt).unwrap()];
                if m_depth > limit {
                    self.viol_k("Model.*DepthLimit", json!({"input_depth": m_depth, "format": fmt, "model_limit": limit,
                        "note": "the reader accepts a nesting depth beyond the model's limit constant"}));
                }
            }
            let Some(bt) = T::from_kvalue(&back) else {
                self.viol_d(&format!("C20:{}: result is not a plain value", fmt), json!({"input": req, "document": txt}));
                continue;
            };
            // expected value: model (K) and harness normal form (D)
            let lossy_json = *fmt == "json" && !m_fin;
            let model_expected = if lossy_json { m_json.clone() } else { m_rt.clone() };
            let (impl_txt, model_txt, d_txt) = if *fmt == "toml" {
                // exact, entry order included: TOML's order is "inline entries, then tables" per table
                // (Model.tomlOrd; harness-side `toml_order` written independently)
                let m_tomlrt = field(&resp, "tomlrt").to_string();
                let exact = (bt.text(), m_tomlrt, toml_order(&hn).text());
                if exact.0 != exact.2 && bt.sorted().text() == hn.sorted().text() {
                    // the value is right (Koto's == ignores order), only the order is not the stated one
                    self.viol_d("C20:toml: entry order after the round trip is not `inline entries, then tables`",
                        json!({"input": req, "format": fmt, "document": txt, "impl": exact.0, "expected_order": exact.2}));
                    continue;
                }
                exact
            } else {
                (bt.text(), model_expected.clone(), hn.text())
            };
            let d_ok = lossy_json || impl_txt == d_txt;
            if !d_ok {
                self.viol_d(&format!("C20:{}: round trip differs from the normal form", fmt),
                    json!({"input": req, "format": fmt, "document": txt, "impl": impl_txt, "expected_normal_form": d_txt}));
            } else if impl_txt != model_txt {
                self.viol_k("Model.de∘ser", json!({"input": req, "format": fmt, "document": txt, "impl": impl_txt, "model": model_txt}));
            }
            if lossy_json {
                self.rep.bump("json_non_finite_checked_against_jsonLayer");
            }
            if d_ok && impl_txt == model_txt && !lossy_json {
                let mut nf = 0u64;
                t.walk(&mut |x| {
                    if let T::F(b) = x {
                        if f64::from_bits(*b).is_finite() {
                            nf += 1;
                        }
                    }
                });
                self.float_exact[FORMATS.iter().position(|f| f == fmt).unwrap()] += nf;
            }
            // (D) second round trip is the identity (exactly, entry order included)
            match self.libs.to_string(fmt, &back) {
                Ok(Ok(txt2)) => match self.libs.from_string(fmt, &txt2) {
                    Ok(Ok(back2)) => {
                        let b2 = T::from_kvalue(&back2).map(|x| x.text()).unwrap_or_default();
                        if b2 != bt.text() {
                            self.viol_d(&format!("C20:{}: second round trip is not the identity", fmt),
                                json!({"input": req, "format": fmt, "first": bt.text(), "second": b2, "document": txt, "document2": txt2}));
                        }
                    }
                    other => self.viol_d(&format!("C20:{}: second from_string fails", fmt),
                        json!({"input": req, "format": fmt, "document2": txt2, "result": format!("{:?}", other.map(|r| r.map(|_| ())))})),
                },
                other => self.viol_d(&format!("C20:{}: second to_string fails", fmt), json!({"input": req, "format": fmt, "first": bt.text(), "result": format!("{:?}", other)})),
            }
            if self.rep.samples.len() < 6 && t.size() >= 5 && t.size() <= 12 && self.rep.evaluations % 37 == 5 {
                self.rep.sample(json!({"kind": "text", "format": fmt, "request": req, "document": txt, "impl": impl_txt, "model": model_txt}));
            }
        }
    }
}

// ------------------------------------------------------------------------------------------------
// serde data model: recording serializer and replaying deserializer
// ------------------------------------------------------------------------------------------------

#[derive(Clone, Debug, PartialEq)]
enum SV {
    Unit,
    None,
    Some(Box<SV>),
    Newtype(Box<SV>),
    Bool(bool),
    /// value, width in bits (8/16/32/64): which `visit_iN` is called
    I(i64, u8),
    U(u64, u8),
    I128(i128),
    U128(u128),
    F64(u64),
    F32(u32),
    Char(char),
    /// text, flavour 0 = visit_str, 1 = visit_string, 2 = visit_borrowed_str
    Str(String, u8),
    /// bytes, flavour 0 = visit_bytes, 1 = visit_byte_buf, 2 = visit_borrowed_bytes
    Bytes(Vec<u8>, u8),
    Seq(Vec<SV>),
    Map(Vec<(SV, SV)>),
    Enum(Box<SV>, Box<SV>),
    /// a serializer call the model has no constructor for (recorded verbatim)
    Other(String),
}

impl SV {
    fn text(&self) -> String {
        match self {
            SV::Unit => "unit".into(),
            SV::None => "none".into(),
            SV::Some(x) => format!("(some {})", x.text()),
            SV::Newtype(x) => format!("(nt {})", x.text()),
            SV::Bool(b) => if *b { "b1".into() } else { "b0".into() },
            SV::I(i, _) => format!("i{}", i),
            SV::U(u, _) => format!("u{}", u),
            SV::I128(i) => format!("I{}", i),
            SV::U128(u) => format!("U{}", u),
            SV::F64(b) => format!("f{:016x}", canon_bits(*b)),
            // serde's default `visit_f32` widens
            SV::F32(b) => format!("f{:016x}", canon_bits((f32::from_bits(*b) as f64).to_bits())),
            SV::Char(c) => format!("c{}", *c as u32),
            SV::Str(s, _) => format!("s{}", hex(s.as_bytes())),
            SV::Bytes(b, _) => format!("y{}", hex(b)),
            SV::Seq(xs) => format!("(seq{})", xs.iter().map(|x| format!(" {}", x.text())).collect::<String>()),
            SV::Map(es) => format!("(map{})", es.iter().map(|(k, v)| format!(" ({} {})", k.text(), v.text())).collect::<String>()),
            SV::Enum(a, b) => format!("(enum {} {})", a.text(), b.text()),
            SV::Other(s) => format!("<{}>", s),
        }
    }
    fn size(&self) -> usize {
        match self {
            SV::Some(x) | SV::Newtype(x) => 1 + x.size(),
            SV::Seq(xs) => 1 + xs.iter().map(|x| x.size()).sum::<usize>(),
            SV::Map(es) => 1 + es.iter().map(|(k, v)| k.size() + v.size()).sum::<usize>(),
            SV::Enum(a, b) => 1 + a.size() + b.size(),
            _ => 1,
        }
    }
    fn kind(&self) -> &'static str {
        match self {
            SV::Unit => "unit", SV::None => "none", SV::Some(_) => "some", SV::Newtype(_) => "newtype", SV::Bool(_) => "bool",
            SV::I(..) => "i", SV::U(..) => "u", SV::I128(_) => "i128", SV::U128(_) => "u128", SV::F64(_) => "f64", SV::F32(_) => "f32",
            SV::Char(_) => "char", SV::Str(..) => "str", SV::Bytes(..) => "bytes", SV::Seq(_) => "seq", SV::Map(_) => "map",
            SV::Enum(..) => "enum", SV::Other(_) => "other",
        }
    }
    fn walk(&self, f: &mut impl FnMut(&SV)) {
        f(self);
        match self {
            SV::Some(x) | SV::Newtype(x) => x.walk(f),
            SV::Seq(xs) => xs.iter().for_each(|x| x.walk(f)),
            SV::Map(es) => es.iter().for_each(|(k, v)| { k.walk(f); v.walk(f) }),
            SV::Enum(a, b) => { a.walk(f); b.walk(f) }
            _ => {}
        }
    }
}

#[derive(Debug)]
struct SErr(String);
impl std::fmt::Display for SErr {
    fn fmt(&self, f: &mut std::fmt::Formatter<'_>) -> std::fmt::Result {
        f.write_str(&self.0)
    }
}
impl std::error::Error for SErr {}
impl serde::ser::Error for SErr {
    fn custom<M: std::fmt::Display>(m: M) -> Self {
        SErr(m.to_string())
    }
}
impl serde::de::Error for SErr {
    fn custom<M: std::fmt::Display>(m: M) -> Self {
        SErr(m.to_string())
    }
}

/// records which `Serializer` methods are called
struct Recorder;
struct RecSeq(Vec<SV>, Option<(String, &'static str)>);
struct RecMap(Vec<(SV, SV)>, Option<SV>, Option<(String, &'static str)>);

impl serde::Serializer for Recorder {
    type Ok = SV;
    type Error = SErr;
    type SerializeSeq = RecSeq;
    type SerializeTuple = RecSeq;
    type SerializeTupleStruct = RecSeq;
    type SerializeTupleVariant = RecSeq;
    type SerializeMap = RecMap;
    type SerializeStruct = RecMap;
    type SerializeStructVariant = RecMap;
    fn serialize_bool(self, v: bool) -> Result<SV, SErr> { Ok(SV::Bool(v)) }
    fn serialize_i8(self, v: i8) -> Result<SV, SErr> { Ok(SV::Other(format!("i8:{}", v))) }
    fn serialize_i16(self, v: i16) -> Result<SV, SErr> { Ok(SV::Other(format!("i16:{}", v))) }
    fn serialize_i32(self, v: i32) -> Result<SV, SErr> { Ok(SV::Other(format!("i32:{}", v))) }
    fn serialize_i64(self, v: i64) -> Result<SV, SErr> { Ok(SV::I(v, 64)) }
    fn serialize_i128(self, v: i128) -> Result<SV, SErr> { Ok(SV::I128(v)) }
    fn serialize_u8(self, v: u8) -> Result<SV, SErr> { Ok(SV::Other(format!("u8:{}", v))) }
    fn serialize_u16(self, v: u16) -> Result<SV, SErr> { Ok(SV::Other(format!("u16:{}", v))) }
    fn serialize_u32(self, v: u32) -> Result<SV, SErr> { Ok(SV::Other(format!("u32:{}", v))) }
    fn serialize_u64(self, v: u64) -> Result<SV, SErr> { Ok(SV::U(v, 64)) }
    fn serialize_u128(self, v: u128) -> Result<SV, SErr> { Ok(SV::U128(v)) }
    fn serialize_f32(self, v: f32) -> Result<SV, SErr> { Ok(SV::Other(format!("f32:{:08x}", v.to_bits()))) }
    fn serialize_f64(self, v: f64) -> Result<SV, SErr> { Ok(SV::F64(v.to_bits())) }
    fn serialize_char(self, v: char) -> Result<SV, SErr> { Ok(SV::Char(v)) }
    fn serialize_str(self, v: &str) -> Result<SV, SErr> { Ok(SV::Str(v.to_string(), 0)) }
    fn serialize_bytes(self, v: &[u8]) -> Result<SV, SErr> { Ok(SV::Bytes(v.to_vec(), 0)) }
    fn serialize_none(self) -> Result<SV, SErr> { Ok(SV::None) }
    fn serialize_some<T: ?Sized + Serialize>(self, v: &T) -> Result<SV, SErr> { Ok(SV::Some(Box::new(v.serialize(Recorder)?))) }
    fn serialize_unit(self) -> Result<SV, SErr> { Ok(SV::Unit) }
    fn serialize_unit_struct(self, n: &'static str) -> Result<SV, SErr> { Ok(SV::Other(format!("unit_struct:{}", n))) }
    fn serialize_unit_variant(self, _n: &'static str, _i: u32, v: &'static str) -> Result<SV, SErr> { Ok(SV::Other(format!("unit_variant:{}", v))) }
    fn serialize_newtype_struct<T: ?Sized + Serialize>(self, _n: &'static str, v: &T) -> Result<SV, SErr> { Ok(SV::Newtype(Box::new(v.serialize(Recorder)?))) }
    fn serialize_newtype_variant<T: ?Sized + Serialize>(self, _n: &'static str, _i: u32, var: &'static str, v: &T) -> Result<SV, SErr> {
        Ok(SV::Enum(Box::new(SV::Str(var.to_string(), 0)), Box::new(v.serialize(Recorder)?)))
    }
    fn serialize_seq(self, _len: Option<usize>) -> Result<RecSeq, SErr> { Ok(RecSeq(vec![], None)) }
    fn serialize_tuple(self, _len: usize) -> Result<RecSeq, SErr> { Ok(RecSeq(vec![], Some(("tuple".into(), "")))) }
    fn serialize_tuple_struct(self, n: &'static str, _len: usize) -> Result<RecSeq, SErr> { Ok(RecSeq(vec![], Some(("tuple_struct".into(), n)))) }
    fn serialize_tuple_variant(self, _n: &'static str, _i: u32, v: &'static str, _len: usize) -> Result<RecSeq, SErr> { Ok(RecSeq(vec![], Some(("tuple_variant".into(), v)))) }
    fn serialize_map(self, _len: Option<usize>) -> Result<RecMap, SErr> { Ok(RecMap(vec![], None, None)) }
    fn serialize_struct(self, n: &'static str, _len: usize) -> Result<RecMap, SErr> { Ok(RecMap(vec![], None, Some(("struct".into(), n)))) }
    fn serialize_struct_variant(self, _n: &'static str, _i: u32, v: &'static str, _len: usize) -> Result<RecMap, SErr> { Ok(RecMap(vec![], None, Some(("struct_variant".into(), v)))) }
}
impl RecSeq {
    fn finish(self) -> Result<SV, SErr> {
        match self.1 {
            None => Ok(SV::Seq(self.0)),
            Some((k, n)) => Ok(SV::Other(format!("{}:{}:{}", k, n, SV::Seq(self.0).text()))),
        }
    }
}
impl serde::ser::SerializeSeq for RecSeq {
    type Ok = SV;
    type Error = SErr;
    fn serialize_element<T: ?Sized + Serialize>(&mut self, v: &T) -> Result<(), SErr> { self.0.push(v.serialize(Recorder)?); Ok(()) }
    fn end(self) -> Result<SV, SErr> { self.finish() }
}
impl serde::ser::SerializeTuple for RecSeq {
    type Ok = SV;
    type Error = SErr;
    fn serialize_element<T: ?Sized + Serialize>(&mut self, v: &T) -> Result<(), SErr> { self.0.push(v.serialize(Recorder)?); Ok(()) }
    fn end(self) -> Result<SV, SErr> { self.finish() }
}
impl serde::ser::SerializeTupleStruct for RecSeq {
    type Ok = SV;
    type Error = SErr;
    fn serialize_field<T: ?Sized + Serialize>(&mut self, v: &T) -> Result<(), SErr> { self.0.push(v.serialize(Recorder)?); Ok(()) }
    fn end(self) -> Result<SV, SErr> { self.finish() }
}
impl serde::ser::SerializeTupleVariant for RecSeq {
    type Ok = SV;
    type Error = SErr;
    fn serialize_field<T: ?Sized + Serialize>(&mut self, v: &T) -> Result<(), SErr> { self.0.push(v.serialize(Recorder)?); Ok(()) }
    fn end(self) -> Result<SV, SErr> { self.finish() }
}
impl RecMap {
    fn finish(self) -> Result<SV, SErr> {
        match self.2 {
            None => Ok(SV::Map(self.0)),
            Some((k, n)) => Ok(SV::Other(format!("{}:{}:{}", k, n, SV::Map(self.0).text()))),
        }
    }
}
impl serde::ser::SerializeMap for RecMap {
    type Ok = SV;
    type Error = SErr;
    fn serialize_key<T: ?Sized + Serialize>(&mut self, k: &T) -> Result<(), SErr> { self.1 = Some(k.serialize(Recorder)?); Ok(()) }
    fn serialize_value<T: ?Sized + Serialize>(&mut self, v: &T) -> Result<(), SErr> {
        let k = self.1.take().ok_or(SErr("value without key".into()))?;
        self.0.push((k, v.serialize(Recorder)?));
        Ok(())
    }
    fn end(self) -> Result<SV, SErr> { self.finish() }
}
impl serde::ser::SerializeStruct for RecMap {
    type Ok = SV;
    type Error = SErr;
    fn serialize_field<T: ?Sized + Serialize>(&mut self, k: &'static str, v: &T) -> Result<(), SErr> { self.0.push((SV::Str(k.into(), 0), v.serialize(Recorder)?)); Ok(()) }
    fn end(self) -> Result<SV, SErr> { self.finish() }
}
impl serde::ser::SerializeStructVariant for RecMap {
    type Ok = SV;
    type Error = SErr;
    fn serialize_field<T: ?Sized + Serialize>(&mut self, k: &'static str, v: &T) -> Result<(), SErr> { self.0.push((SV::Str(k.into(), 0), v.serialize(Recorder)?)); Ok(()) }
    fn end(self) -> Result<SV, SErr> { self.finish() }
}

/// replays an `SV` tree into a `Visitor`
struct Replayer<'a>(&'a SV);

impl<'de, 'a> serde::Deserializer<'de> for Replayer<'a> {
    type Error = SErr;
    fn deserialize_any<V: serde::de::Visitor<'de>>(self, v: V) -> Result<V::Value, SErr> {
        match self.0 {
            SV::Unit => v.visit_unit(),
            SV::None => v.visit_none(),
            SV::Some(x) => v.visit_some(Replayer(x)),
            SV::Newtype(x) => v.visit_newtype_struct(Replayer(x)),
            SV::Bool(b) => v.visit_bool(*b),
            SV::I(i, 8) => v.visit_i8(*i as i8),
            SV::I(i, 16) => v.visit_i16(*i as i16),
            SV::I(i, 32) => v.visit_i32(*i as i32),
            SV::I(i, _) => v.visit_i64(*i),
            SV::U(u, 8) => v.visit_u8(*u as u8),
            SV::U(u, 16) => v.visit_u16(*u as u16),
            SV::U(u, 32) => v.visit_u32(*u as u32),
            SV::U(u, _) => v.visit_u64(*u),
            SV::I128(i) => v.visit_i128(*i),
            SV::U128(u) => v.visit_u128(*u),
            SV::F64(b) => v.visit_f64(f64::from_bits(*b)),
            SV::F32(b) => v.visit_f32(f32::from_bits(*b)),
            SV::Char(c) => v.visit_char(*c),
            SV::Str(s, 0) => v.visit_str(s),
            SV::Str(s, _) => v.visit_string(s.clone()),
            SV::Bytes(b, 0) => v.visit_bytes(b),
            SV::Bytes(b, _) => v.visit_byte_buf(b.clone()),
            SV::Seq(xs) => v.visit_seq(ReplaySeq(xs.iter())),
            SV::Map(es) => v.visit_map(ReplayMap(es.iter(), None)),
            SV::Enum(var, payload) => v.visit_enum(ReplayEnum(var, payload)),
            SV::Other(s) => Err(SErr(format!("cannot replay {}", s))),
        }
    }
    serde::forward_to_deserialize_any! {
        bool i8 i16 i32 i64 i128 u8 u16 u32 u64 u128 f32 f64 char str string bytes byte_buf option unit
        unit_struct newtype_struct seq tuple tuple_struct map struct enum identifier ignored_any
    }
}
struct ReplaySeq<'a>(std::slice::Iter<'a, SV>);
impl<'de, 'a> serde::de::SeqAccess<'de> for ReplaySeq<'a> {
    type Error = SErr;
    fn next_element_seed<S: serde::de::DeserializeSeed<'de>>(&mut self, seed: S) -> Result<Option<S::Value>, SErr> {
        match self.0.next() {
            Some(x) => seed.deserialize(Replayer(x)).map(Some),
            None => Ok(None),
        }
    }
}
struct ReplayMap<'a>(std::slice::Iter<'a, (SV, SV)>, Option<&'a SV>);
impl<'de, 'a> serde::de::MapAccess<'de> for ReplayMap<'a> {
    type Error = SErr;
    fn next_key_seed<S: serde::de::DeserializeSeed<'de>>(&mut self, seed: S) -> Result<Option<S::Value>, SErr> {
        match self.0.next() {
            Some((k, v)) => {
                self.1 = Some(v);
                seed.deserialize(Replayer(k)).map(Some)
            }
            None => Ok(None),
        }
    }
    fn next_value_seed<S: serde::de::DeserializeSeed<'de>>(&mut self, seed: S) -> Result<S::Value, SErr> {
        seed.deserialize(Replayer(self.1.take().ok_or(SErr("no value".into()))?))
    }
}
struct ReplayEnum<'a>(&'a SV, &'a SV);
impl<'de, 'a> serde::de::EnumAccess<'de> for ReplayEnum<'a> {
    type Error = SErr;
    type Variant = ReplayVariant<'a>;
    fn variant_seed<S: serde::de::DeserializeSeed<'de>>(self, seed: S) -> Result<(S::Value, ReplayVariant<'a>), SErr> {
        Ok((seed.deserialize(Replayer(self.0))?, ReplayVariant(self.1)))
    }
}
struct ReplayVariant<'a>(&'a SV);
impl<'de, 'a> serde::de::VariantAccess<'de> for ReplayVariant<'a> {
    type Error = SErr;
    fn unit_variant(self) -> Result<(), SErr> { Ok(()) }
    fn newtype_variant_seed<S: serde::de::DeserializeSeed<'de>>(self, seed: S) -> Result<S::Value, SErr> { seed.deserialize(Replayer(self.0)) }
    fn tuple_variant<V: serde::de::Visitor<'de>>(self, _len: usize, v: V) -> Result<V::Value, SErr> { serde::Deserializer::deserialize_any(Replayer(self.0), v) }
    fn struct_variant<V: serde::de::Visitor<'de>>(self, _f: &'static [&'static str], v: V) -> Result<V::Value, SErr> { serde::Deserializer::deserialize_any(Replayer(self.0), v) }
}

fn gen_sv_key(r: &mut Rng, d: u32) -> SV {
    match r.weighted(&[10, 3, 2, 1, 1, 1, 1, 1, 1, 1]) {
        0 => SV::Str(if r.chance(2, 3) { (*r.pick(&["a", "b", "1", "5", "", "A", "null", "true", "é"])).to_string() } else { gen_string(r) }, r.below(2) as u8),
        1 => SV::I(*r.pick(&[1, 5, -1, 0, i64::MAX]), 64),
        2 => SV::U(*r.pick(&[1, 5, 0, u64::MAX, 9223372036854775807, 9223372036854775808]), 64),
        3 => SV::Bool(r.chance(1, 2)),
        4 => if r.chance(1, 2) { SV::Unit } else { SV::None },
        5 => SV::Char(*r.pick(CHAR_POOL)),
        6 => {
            let n = r.below(3);
            SV::Seq((0..n).map(|_| if d > 0 { SV::I(r.range(0, 3), 64) } else { gen_sv_key(r, d + 1) }).collect())
        }
        7 => SV::Bytes((0..r.below(3)).map(|_| r.below(256) as u8).collect(), r.below(2) as u8),
        8 => if r.chance(1, 2) { SV::Some(Box::new(gen_sv_key(r, d + 1))) } else { SV::Newtype(Box::new(gen_sv_key(r, d + 1))) },
        // unhashable keys: maps / enums
        _ => if r.chance(1, 2) { SV::Map(vec![]) } else { SV::Enum(Box::new(SV::Str("V".into(), 0)), Box::new(SV::Unit)) },
    }
}

fn gen_sv(r: &mut Rng, depth: u32, max_depth: u32) -> SV {
    let leaf = depth >= max_depth || r.chance(1, 3 + depth);
    if leaf {
        return match r.weighted(&[2, 2, 2, 5, 5, 2, 2, 3, 1, 2, 4, 2]) {
            0 => SV::Unit,
            1 => SV::None,
            2 => SV::Bool(r.chance(1, 2)),
            3 => {
                let w = *r.pick(&[8u8, 16, 32, 64]);
                let v = gen_int(r);
                SV::I(match w { 8 => v as i8 as i64, 16 => v as i16 as i64, 32 => v as i32 as i64, _ => v }, w)
            }
            4 => {
                let w = *r.pick(&[8u8, 16, 32, 64]);
                let v = match r.below(4) {
                    0 => *r.pick(&[0u64, 1, 255, 9223372036854775807, 9223372036854775808, u64::MAX, u64::MAX - 1, 1 << 63, (1 << 63) + 1]),
                    1 => r.next_u64(),
                    _ => gen_int(r) as u64,
                };
                SV::U(match w { 8 => v as u8 as u64, 16 => v as u16 as u64, 32 => v as u32 as u64, _ => v }, w)
            }
            5 => SV::I128(match r.below(5) {
                0 => i128::MAX,
                1 => i128::MIN,
                2 => i64::MAX as i128 + 1,
                3 => i64::MIN as i128 - 1,
                _ => gen_int(r) as i128,
            }),
            6 => SV::U128(match r.below(4) {
                0 => u128::MAX,
                1 => i64::MAX as u128 + 1,
                2 => i64::MAX as u128,
                _ => gen_int(r).unsigned_abs() as u128,
            }),
            7 => SV::F64(if r.chance(1, 8) { *r.pick(&[f64::NAN.to_bits(), f64::INFINITY.to_bits(), f64::NEG_INFINITY.to_bits()]) } else { gen_finite(r) }),
            8 => SV::F32(r.pick(&[0.1f32, 1.0, -0.0, f32::MAX, f32::MIN_POSITIVE, 1e-45, f32::INFINITY, 16777217.0]).to_bits()),
            9 => SV::Char(if r.chance(1, 2) { *r.pick(CHAR_POOL) } else { char::from_u32(r.below(0x110000) as u32).unwrap_or('x') }),
            10 => SV::Str(gen_string(r), r.below(2) as u8),
            _ => SV::Bytes((0..r.below(5)).map(|_| r.below(256) as u8).collect(), r.below(2) as u8),
        };
    }
    let n = if r.chance(1, 8) { 0 } else { 1 + r.below(4) };
    match r.weighted(&[3, 4, 1, 1, 2]) {
        0 => SV::Seq((0..n).map(|_| gen_sv(r, depth + 1, max_depth)).collect()),
        1 => SV::Map((0..n).map(|_| (gen_sv_key(r, 0), gen_sv(r, depth + 1, max_depth))).collect()),
        2 => SV::Some(Box::new(gen_sv(r, depth + 1, max_depth))),
        3 => SV::Newtype(Box::new(gen_sv(r, depth + 1, max_depth))),
        _ => SV::Enum(Box::new(gen_sv_key(r, 0)), Box::new(gen_sv(r, depth + 1, max_depth))),
    }
}

impl Ctx {
    /// (K2b) deserialize.rs (KValueVisitor) vs Model.de
    fn check_sv(&mut self, sv: &SV) {
        let req = format!("de {}", sv.text());
        let resp = self.drv.ask(&req);
        self.rep.case(&req, sv.size() >= 2);
        sv.walk(&mut |x| self.rep.bump(&format!("sv_node={}", x.kind())));
        let real = kvh::catch(|| DeserializableKValue::deserialize(Replayer(sv)));
        let impl_txt = match real {
            Err(p) => {
                self.viol_d("C20:no-panic:KValueVisitor", json!({"input": req, "panic": p}));
                return;
            }
            Ok(Ok(v)) => format!("ok {}", kvh::canon::value(&v.0)),
            Ok(Err(_)) => "err".to_string(),
        };
        self.rep.bump(&format!("de_result={}", if impl_txt == "err" { "err" } else { "ok" }));
        // (D) out-of-range integers must be errors
        let mut oor = false;
        sv.walk(&mut |x| match x {
            SV::U(u, _) if *u > i64::MAX as u64 => oor = true,
            SV::I128(i) if *i > i64::MAX as i128 || *i < i64::MIN as i128 => oor = true,
            SV::U128(u) if *u > i64::MAX as u128 => oor = true,
            _ => {}
        });
        if oor {
            self.rep.bump("sv_with_out_of_range_integer");
            if impl_txt != "err" {
                self.viol_d("C20:out-of-range integer accepted by KValueVisitor", json!({"input": req, "impl": impl_txt}));
                return;
            }
        }
        if impl_txt != resp {
            self.viol_k("Model.de", json!({"input": req, "impl": impl_txt, "model": resp,
                "note": "deserialize.rs (KValueVisitor) and Model.de disagree"}));
        }
        if sv.size() >= 5 && sv.size() <= 10 && self.rep.evaluations % 41 == 3 && self.sample_room("de", 3) {
            self.rep.sample(json!({"kind": "de", "request": req, "impl": impl_txt, "model": resp}));
        }
    }
}

// ------------------------------------------------------------------------------------------------
// Rust-type family for to_koto_value / from_koto_value
// ------------------------------------------------------------------------------------------------

trait Fam: Serialize + for<'de> Deserialize<'de> + Sized {
    fn ty() -> String;
    fn make(r: &mut Rng, d: u32) -> Self;
    fn rv(&self) -> String;
}

macro_rules! fam_int {
    ($($t:ty),+) => {$(
        impl Fam for $t {
            fn ty() -> String { stringify!($t).to_string() }
            fn make(r: &mut Rng, _d: u32) -> Self {
                match r.below(6) {
                    0 => <$t>::MAX,
                    1 => <$t>::MIN,
                    2 => 0,
                    3 => <$t>::MAX - (r.below(3) as $t),
                    4 => (r.below(200) as $t),
                    _ => r.next_u64() as $t,
                }
            }
            fn rv(&self) -> String { format!("n{}", self) }
        }
    )+};
}
fam_int!(i8, i16, i32, i64, u8, u16, u32, u64);

impl Fam for i128 {
    fn ty() -> String { "i128".into() }
    fn make(r: &mut Rng, _d: u32) -> Self {
        match r.below(6) {
            0 => i128::MAX,
            1 => i128::MIN,
            2 => i64::MAX as i128 + 1,
            3 => i64::MIN as i128 - 1,
            _ => gen_int(r) as i128,
        }
    }
    fn rv(&self) -> String { format!("n{}", self) }
}
impl Fam for u128 {
    fn ty() -> String { "u128".into() }
    fn make(r: &mut Rng, _d: u32) -> Self {
        match r.below(5) {
            0 => u128::MAX,
            1 => i64::MAX as u128 + 1,
            2 => i64::MAX as u128,
            _ => gen_int(r).unsigned_abs() as u128,
        }
    }
    fn rv(&self) -> String { format!("n{}", self) }
}
impl Fam for () {
    fn ty() -> String { "unit".into() }
    fn make(_r: &mut Rng, _d: u32) -> Self {}
    fn rv(&self) -> String { "unit".into() }
}
impl Fam for bool {
    fn ty() -> String { "bool".into() }
    fn make(r: &mut Rng, _d: u32) -> Self { r.chance(1, 2) }
    fn rv(&self) -> String { if *self { "b1".into() } else { "b0".into() } }
}
impl Fam for f64 {
    fn ty() -> String { "f64".into() }
    fn make(r: &mut Rng, _d: u32) -> Self {
        if r.chance(1, 12) { *r.pick(&[f64::NAN, f64::INFINITY, f64::NEG_INFINITY]) } else { f64::from_bits(gen_finite(r)) }
    }
    fn rv(&self) -> String { format!("f{:016x}", canon_bits(self.to_bits())) }
}
impl Fam for f32 {
    fn ty() -> String { "f32".into() }
    fn make(r: &mut Rng, _d: u32) -> Self {
        match r.below(4) {
            0 => *r.pick(&[0.0f32, -0.0, 1.0, 0.1, f32::MAX, f32::MIN, f32::MIN_POSITIVE, 1e-45, f32::INFINITY, f32::NEG_INFINITY, f32::NAN, 16777216.0, 0.333333343]),
            1 => r.range(-1000, 1000) as f32 / 8.0,
            _ => f32::from_bits(r.next_u64() as u32),
        }
    }
    fn rv(&self) -> String { format!("g{:08x}", if self.is_nan() { 0x7fc00000 } else { self.to_bits() }) }
}
impl Fam for char {
    fn ty() -> String { "char".into() }
    fn make(r: &mut Rng, _d: u32) -> Self {
        if r.chance(1, 2) { *r.pick(CHAR_POOL) } else { char::from_u32(r.below(0x110000) as u32).unwrap_or('\u{fffd}') }
    }
    fn rv(&self) -> String { format!("c{}", *self as u32) }
}
impl Fam for String {
    fn ty() -> String { "string".into() }
    fn make(r: &mut Rng, _d: u32) -> Self { gen_string(r) }
    fn rv(&self) -> String { format!("s{}", hex(self.as_bytes())) }
}
impl<A: Fam> Fam for Option<A> {
    fn ty() -> String { format!("(opt {})", A::ty()) }
    fn make(r: &mut Rng, d: u32) -> Self { if r.chance(1, 3) { None } else { Some(A::make(r, d + 1)) } }
    fn rv(&self) -> String {
        match self {
            None => "none".into(),
            Some(x) => format!("(some {})", x.rv()),
        }
    }
}
impl<A: Fam> Fam for Vec<A> {
    fn ty() -> String { format!("(seq {})", A::ty()) }
    fn make(r: &mut Rng, d: u32) -> Self {
        let n = if d > 3 { r.below(2) } else { r.below(4) };
        (0..n).map(|_| A::make(r, d + 1)).collect()
    }
    fn rv(&self) -> String { format!("(seq{})", self.iter().map(|x| format!(" {}", x.rv())).collect::<String>()) }
}
impl<A: Fam> Fam for Box<A> {
    fn ty() -> String { A::ty() }
    fn make(r: &mut Rng, d: u32) -> Self { Box::new(A::make(r, d)) }
    fn rv(&self) -> String { (**self).rv() }
}
impl<A: Fam> Fam for BTreeMap<String, A> {
    fn ty() -> String { format!("(map {})", A::ty()) }
    fn make(r: &mut Rng, d: u32) -> Self {
        let n = if d > 3 { r.below(2) } else { r.below(4) };
        (0..n).map(|_| (gen_string(r), A::make(r, d + 1))).collect()
    }
    fn rv(&self) -> String { format!("(map{})", self.iter().map(|(k, v)| format!(" ({} {})", hex(k.as_bytes()), v.rv())).collect::<String>()) }
}
impl<A: Fam, B: Fam> Fam for (A, B) {
    fn ty() -> String { format!("(tup {} {})", A::ty(), B::ty()) }
    fn make(r: &mut Rng, d: u32) -> Self { (A::make(r, d + 1), B::make(r, d + 1)) }
    fn rv(&self) -> String { format!("(tup {} {})", self.0.rv(), self.1.rv()) }
}
impl<A: Fam, B: Fam, C: Fam> Fam for (A, B, C) {
    fn ty() -> String { format!("(tup {} {} {})", A::ty(), B::ty(), C::ty()) }
    fn make(r: &mut Rng, d: u32) -> Self { (A::make(r, d + 1), B::make(r, d + 1), C::make(r, d + 1)) }
    fn rv(&self) -> String { format!("(tup {} {} {})", self.0.rv(), self.1.rv(), self.2.rv()) }
}
impl<A: Fam> Fam for (A,) {
    fn ty() -> String { format!("(tup {})", A::ty()) }
    fn make(r: &mut Rng, d: u32) -> Self { (A::make(r, d + 1),) }
    fn rv(&self) -> String { format!("(tup {})", self.0.rv()) }
}

fn hx(s: &str) -> String {
    hex(s.as_bytes())
}

macro_rules! fam_struct {
    ($name:ident { $($f:ident : $t:ty),+ $(,)? }) => {
        #[derive(Serialize, Deserialize, Debug)]
        struct $name { $($f: $t),+ }
        impl Fam for $name {
            fn ty() -> String { format!("(st{})", [$(format!(" ({} {})", hx(stringify!($f)), <$t>::ty())),+].concat()) }
            fn make(r: &mut Rng, d: u32) -> Self { $name { $($f: <$t>::make(r, d + 1)),+ } }
            fn rv(&self) -> String { format!("(st{})", [$(format!(" ({} {})", hx(stringify!($f)), self.$f.rv())),+].concat()) }
        }
    };
}

// newtype / tuple / unit structs are described structurally
#[derive(Serialize, Deserialize, Debug)]
struct Meters(i16);
impl Fam for Meters {
    fn ty() -> String { "i16".into() }
    fn make(r: &mut Rng, d: u32) -> Self { Meters(i16::make(r, d)) }
    fn rv(&self) -> String { self.0.rv() }
}
#[derive(Serialize, Deserialize, Debug)]
struct Pair(i32, String);
impl Fam for Pair {
    fn ty() -> String { "(tup i32 string)".into() }
    fn make(r: &mut Rng, d: u32) -> Self { Pair(i32::make(r, d), String::make(r, d)) }
    fn rv(&self) -> String { format!("(tup {} {})", self.0.rv(), self.1.rv()) }
}
#[derive(Serialize, Deserialize, Debug)]
struct Marker;
impl Fam for Marker {
    fn ty() -> String { "unit".into() }
    fn make(_r: &mut Rng, _d: u32) -> Self { Marker }
    fn rv(&self) -> String { "unit".into() }
}

#[derive(Serialize, Deserialize, Debug)]
enum Shape {
    Empty,
    Dot,
    Circle(f64),
    Label(Option<String>),
    Rect(u32, u32),
    Tagged(String, bool, i8),
    Poly { points: Vec<(i16, i16)>, closed: bool },
    Styled { fill: Option<Fill>, width: f32 },
    Nested(Box<Inner>),
    #[serde(rename = "名前 with space")]
    Renamed(u8),
}
#[derive(Serialize, Deserialize, Debug)]
enum Fill {
    None_,
    Gray(u8),
    Rgb(u8, u8, u8),
}
fam_struct!(Inner { id: u64, tags: Vec<String>, pos: (f64, f64), note: Option<String> });

impl Fam for Fill {
    fn ty() -> String {
        format!("(en ({} u unit) ({} n u8) ({} t (tup u8 u8 u8)))", hx("None_"), hx("Gray"), hx("Rgb"))
    }
    fn make(r: &mut Rng, d: u32) -> Self {
        match r.below(3) {
            0 => Fill::None_,
            1 => Fill::Gray(u8::make(r, d)),
            _ => Fill::Rgb(u8::make(r, d), u8::make(r, d), u8::make(r, d)),
        }
    }
    fn rv(&self) -> String {
        match self {
            Fill::None_ => format!("(var {} u unit)", hx("None_")),
            Fill::Gray(a) => format!("(var {} n {})", hx("Gray"), a.rv()),
            Fill::Rgb(a, b, c) => format!("(var {} t (tup {} {} {}))", hx("Rgb"), a.rv(), b.rv(), c.rv()),
        }
    }
}
impl Fam for Shape {
    fn ty() -> String {
        format!(
            "(en ({} u unit) ({} u unit) ({} n f64) ({} n (opt string)) ({} t (tup u32 u32)) ({} t (tup string bool i8)) ({} s (st ({} (seq (tup i16 i16))) ({} bool))) ({} s (st ({} (opt {})) ({} f32))) ({} n {}) ({} n u8))",
            hx("Empty"), hx("Dot"), hx("Circle"), hx("Label"), hx("Rect"), hx("Tagged"), hx("Poly"), hx("points"), hx("closed"),
            hx("Styled"), hx("fill"), Fill::ty(), hx("width"), hx("Nested"), Inner::ty(), hx("名前 with space")
        )
    }
    fn make(r: &mut Rng, d: u32) -> Self {
        match r.below(10) {
            0 => Shape::Empty,
            1 => Shape::Dot,
            2 => Shape::Circle(f64::make(r, d)),
            3 => Shape::Label(Option::<String>::make(r, d)),
            4 => Shape::Rect(u32::make(r, d), u32::make(r, d)),
            5 => Shape::Tagged(String::make(r, d), bool::make(r, d), i8::make(r, d)),
            6 => Shape::Poly { points: Vec::<(i16, i16)>::make(r, d + 1), closed: bool::make(r, d) },
            7 => Shape::Styled { fill: Option::<Fill>::make(r, d), width: f32::make(r, d) },
            8 => Shape::Nested(Box::new(Inner::make(r, d + 1))),
            _ => Shape::Renamed(u8::make(r, d)),
        }
    }
    fn rv(&self) -> String {
        match self {
            Shape::Empty => format!("(var {} u unit)", hx("Empty")),
            Shape::Dot => format!("(var {} u unit)", hx("Dot")),
            Shape::Circle(a) => format!("(var {} n {})", hx("Circle"), a.rv()),
            Shape::Label(a) => format!("(var {} n {})", hx("Label"), a.rv()),
            Shape::Rect(a, b) => format!("(var {} t (tup {} {}))", hx("Rect"), a.rv(), b.rv()),
            Shape::Tagged(a, b, c) => format!("(var {} t (tup {} {} {}))", hx("Tagged"), a.rv(), b.rv(), c.rv()),
            Shape::Poly { points, closed } => format!("(var {} s (st ({} {}) ({} {})))", hx("Poly"), hx("points"), points.rv(), hx("closed"), closed.rv()),
            Shape::Styled { fill, width } => format!("(var {} s (st ({} {}) ({} {})))", hx("Styled"), hx("fill"), fill.rv(), hx("width"), width.rv()),
            Shape::Nested(a) => format!("(var {} n {})", hx("Nested"), a.rv()),
            Shape::Renamed(a) => format!("(var {} n {})", hx("名前 with space"), a.rv()),
        }
    }
}

// Recursive types. A `Ty` is a finite tree, so a recursive Rust type is described by its unfolding
// to the depth the generator respects, with the empty enum `(en)` (no value, rejects every input)
// at the cut: every value of depth ≤ LVL has exactly this type.
#[derive(Serialize, Deserialize, Debug)]
enum Tree {
    Leaf(i32),
    Node(Vec<Tree>),
    Named { name: String, child: Option<Box<Tree>> },
}
impl Tree {
    const LVL: u32 = 3;
    fn ty_at(l: u32) -> String {
        let rec = if l == 0 { "(en)".to_string() } else { Tree::ty_at(l - 1) };
        format!("(en ({} n i32) ({} n (seq {})) ({} s (st ({} string) ({} (opt {})))))", hx("Leaf"), hx("Node"), rec, hx("Named"), hx("name"), hx("child"), rec)
    }
    fn make_at(r: &mut Rng, l: u32) -> Tree {
        match r.below(3) {
            0 => Tree::Leaf(i32::make(r, 0)),
            1 => Tree::Node(if l == 0 { vec![] } else { (0..r.below(3)).map(|_| Tree::make_at(r, l - 1)).collect() }),
            _ => Tree::Named { name: gen_string(r), child: if l == 0 || r.chance(1, 3) { None } else { Some(Box::new(Tree::make_at(r, l - 1))) } },
        }
    }
}
impl Fam for Tree {
    fn ty() -> String { Tree::ty_at(Tree::LVL) }
    fn make(r: &mut Rng, _d: u32) -> Self { Tree::make_at(r, Tree::LVL) }
    fn rv(&self) -> String {
        match self {
            Tree::Leaf(a) => format!("(var {} n {})", hx("Leaf"), a.rv()),
            Tree::Node(xs) => format!("(var {} n (seq{}))", hx("Node"), xs.iter().map(|x| format!(" {}", x.rv())).collect::<String>()),
            Tree::Named { name, child } => format!(
                "(var {} s (st ({} {}) ({} {})))",
                hx("Named"), hx("name"), name.rv(), hx("child"),
                match child { None => "none".to_string(), Some(c) => format!("(some {})", c.rv()) }
            ),
        }
    }
}
#[derive(Serialize, Deserialize, Debug)]
struct Chain {
    head: u8,
    tail: Option<Box<Chain>>,
}
impl Chain {
    const LVL: u32 = 5;
    fn ty_at(l: u32) -> String {
        let rec = if l == 0 { "(en)".to_string() } else { Chain::ty_at(l - 1) };
        format!("(st ({} u8) ({} (opt {})))", hx("head"), hx("tail"), rec)
    }
    fn make_at(r: &mut Rng, l: u32) -> Chain {
        Chain { head: u8::make(r, 0), tail: if l == 0 || r.chance(1, 4) { None } else { Some(Box::new(Chain::make_at(r, l - 1))) } }
    }
}
impl Fam for Chain {
    fn ty() -> String { Chain::ty_at(Chain::LVL) }
    fn make(r: &mut Rng, _d: u32) -> Self { Chain::make_at(r, Chain::LVL) }
    fn rv(&self) -> String {
        format!("(st ({} {}) ({} {}))", hx("head"), self.head.rv(), hx("tail"), match &self.tail { None => "none".to_string(), Some(c) => format!("(some {})", c.rv()) })
    }
}
#[derive(Serialize, Deserialize, Debug)]
enum Expr {
    Lit(i64),
    Var(String),
    Neg(Box<Expr>),
    Add(Box<Expr>, Box<Expr>),
    Call { name: String, args: Vec<Expr> },
}
impl Expr {
    const LVL: u32 = 3;
    fn ty_at(l: u32) -> String {
        let rec = if l == 0 { "(en)".to_string() } else { Expr::ty_at(l - 1) };
        format!("(en ({} n i64) ({} n string) ({} n {}) ({} t (tup {} {})) ({} s (st ({} string) ({} (seq {})))))",
            hx("Lit"), hx("Var"), hx("Neg"), rec, hx("Add"), rec, rec, hx("Call"), hx("name"), hx("args"), rec)
    }
    fn make_at(r: &mut Rng, l: u32) -> Expr {
        match if l == 0 { r.below(3) } else { r.below(5) } {
            0 => Expr::Lit(i64::make(r, 0)),
            1 => Expr::Var(gen_string(r)),
            2 if l == 0 => Expr::Call { name: gen_string(r), args: vec![] },
            2 => Expr::Neg(Box::new(Expr::make_at(r, l - 1))),
            3 => Expr::Add(Box::new(Expr::make_at(r, l - 1)), Box::new(Expr::make_at(r, l - 1))),
            _ => Expr::Call { name: gen_string(r), args: (0..r.below(3)).map(|_| Expr::make_at(r, l - 1)).collect() },
        }
    }
}
impl Fam for Expr {
    fn ty() -> String { Expr::ty_at(Expr::LVL) }
    fn make(r: &mut Rng, _d: u32) -> Self { Expr::make_at(r, Expr::LVL) }
    fn rv(&self) -> String {
        match self {
            Expr::Lit(a) => format!("(var {} n {})", hx("Lit"), a.rv()),
            Expr::Var(a) => format!("(var {} n {})", hx("Var"), a.rv()),
            Expr::Neg(a) => format!("(var {} n {})", hx("Neg"), a.rv()),
            Expr::Add(a, b) => format!("(var {} t (tup {} {}))", hx("Add"), a.rv(), b.rv()),
            Expr::Call { name, args } => format!("(var {} s (st ({} {}) ({} (seq{}))))", hx("Call"), hx("name"), name.rv(), hx("args"), args.iter().map(|x| format!(" {}", x.rv())).collect::<String>()),
        }
    }
}

fam_struct!(Prims { a: i8, b: i16, c: i32, d: i64, e: u8, f: u16, g: u32, h: u64, x: f32, y: f64, t: bool, ch: char, s: String, u: () });
fam_struct!(Doc { title: String, shapes: Vec<Shape>, index: BTreeMap<String, Vec<u16>>, first: Option<Shape>, meters: Meters, pair: Pair, marker: Marker, inner: Inner });
fam_struct!(Deep { level: Option<Box<Vec<BTreeMap<String, Option<(Shape, Vec<Option<i64>>)>>>>>, opts: Vec<Option<Vec<Option<bool>>>>, wide: (i128, u128) });
fam_struct!(OptFields { a: Option<u8>, b: Option<String>, c: Option<Vec<u8>>, d: bool });

/// witnesses of F-C20-2 (an `Option` around a type that can itself serialize to null)
type NestedOpt = Option<Option<i64>>;
type OptUnit = Option<()>;

struct RustCase {
    ty: String,
    rv: String,
    /// Ok(canon) / Err
    to_koto: Result<String, String>,
    /// from_koto_value(to_koto_value(x)): Ok(rv) / Err; None if to_koto failed
    back: Option<Result<String, String>>,
    #[allow(dead_code)]
    tree: Option<T>,
}

fn rust_case<A: Fam>(x: &A) -> Result<RustCase, String> {
    kvh::catch(|| {
        let k = to_koto_value(x);
        let (to_koto, back, tree) = match k {
            Ok(v) => {
                let tree = T::from_kvalue(&v);
                let back = from_koto_value::<A>(v.clone()).map(|y| y.rv()).map_err(|e| e.to_string());
                (Ok(kvh::canon::value(&v)), Some(back), tree)
            }
            Err(e) => (Err(e.to_string()), None, None),
        };
        RustCase { ty: A::ty(), rv: x.rv(), to_koto, back, tree }
    })
}

fn from_case<A: Fam>(v: &T) -> Result<Result<String, String>, String> {
    let kv = v.to_kvalue();
    kvh::catch(move || from_koto_value::<A>(kv).map(|y| y.rv()).map_err(|e| e.to_string()))
}

/// random edit of a value tree (for from_koto_value on inputs that are not images of to_koto_value)
fn mutate(r: &mut Rng, t: &T, names: &[String]) -> T {
    let n = t.size();
    let target = r.below(n);
    let mut idx = 0usize;
    mutate_at(r, t, target, &mut idx, names)
}
fn random_scalar(r: &mut Rng) -> T {
    match r.below(9) {
        0 => T::Null,
        1 => T::Bool(r.chance(1, 2)),
        2 => T::I(*r.pick(&[-1, 0, 1, 127, 128, 255, 256, 300, -129, 65536, 4294967296, i64::MAX, i64::MIN, -1000])),
        3 => T::F(r.pick(&[1.5f64, -0.5, 1e300, -1e300, f64::NAN, f64::INFINITY, 255.9, 256.0, -0.0, 3.0, 1e10, 9.3e18]).to_bits()),
        4 => T::S((*r.pick(&["", "a", "ab", "é", "Circle", "Empty", "Rect", "x"])).to_string()),
        5 => T::Tu(vec![]),
        6 => T::M(vec![]),
        7 => T::L(vec![T::I(1), T::I(2)]),
        _ => T::R(Some(0), Some((3, false))),
    }
}
fn mutate_at(r: &mut Rng, t: &T, target: usize, idx: &mut usize, names: &[String]) -> T {
    let here = *idx == target;
    *idx += 1;
    if here {
        return match (t, r.below(7)) {
            (T::Tu(xs), 0) => T::L(xs.clone()),
            (T::Tu(xs), 1) if !xs.is_empty() => T::Tu(xs[..xs.len() - 1].to_vec()),
            (T::Tu(xs), 2) => {
                let mut ys = xs.clone();
                ys.push(random_scalar(r));
                T::Tu(ys)
            }
            (T::M(es), 0) if !es.is_empty() => {
                let mut ys = es.clone();
                ys.remove(r.below(es.len()));
                T::M(ys)
            }
            (T::M(es), 1) => {
                let mut ys = es.clone();
                let k = if !names.is_empty() && r.chance(1, 2) { T::S(r.pick(names).clone()) } else if r.chance(1, 4) { T::I(1) } else { T::S("extra".into()) };
                if !ys.iter().any(|(k2, _)| *k2 == k) {
                    ys.push((k, random_scalar(r)));
                }
                T::M(ys)
            }
            (T::M(es), 2) if es.len() >= 2 => {
                let mut ys = es.clone();
                ys.reverse();
                T::M(ys)
            }
            (T::M(es), 3) => T::Tu(es.iter().map(|(_, v)| v.clone()).collect()),
            (T::M(es), 5) => T::L(es.iter().map(|(_, v)| v.clone()).collect()),
            // a one-entry map is how an enum variant travels: give it another variant's name
            (T::M(es), 4) if es.len() == 1 && !names.is_empty() => T::M(vec![(T::S(r.pick(names).clone()), es[0].1.clone())]),
            // a string is how a unit variant travels: give it a payload
            (T::S(s), 1) => T::M(vec![(T::S(s.clone()), random_scalar(r))]),
            (T::S(s), 2) => T::M(vec![(T::S(s.clone()), T::Null)]),
            (T::S(s), 0) if !names.is_empty() => {
                let _ = s;
                T::S(r.pick(names).clone())
            }
            (T::I(i), 0) => T::F((*i as f64 + 0.5).to_bits()),
            (T::I(i), 1) => T::I(i.wrapping_mul(257).wrapping_add(1000)),
            (T::F(b), 0) => T::I(f64::from_bits(*b) as i64),
            _ => random_scalar(r),
        };
    }
    match t {
        T::L(xs) => T::L(xs.iter().map(|x| mutate_at(r, x, target, idx, names)).collect()),
        T::Tu(xs) => T::Tu(xs.iter().map(|x| mutate_at(r, x, target, idx, names)).collect()),
        T::M(es) => T::M(
            es.iter()
                .map(|(k, v)| {
                    *idx += k.size(); // keys are not edited in place
                    (k.clone(), mutate_at(r, v, target, idx, names))
                })
                .collect(),
        ),
        other => other.clone(),
    }
}

const VARIANT_NAMES: &[&str] = &["Leaf", "Node", "Named", "name", "child", "head", "tail", "Lit", "Var", "Neg", "Add", "Call", "args", "Empty", "Dot", "Circle", "Label", "Rect", "Tagged", "Poly", "Styled", "Nested", "名前 with space", "None_", "Gray", "Rgb", "points", "closed", "fill", "width", "id", "tags", "pos", "note", "a", "b", "c", "d"];

impl Ctx {
    /// (K3) one Rust type: round trips of generated values, then mutated inputs
    fn check_rust<A: Fam>(&mut self, r: &mut Rng, n: usize, n_mut: usize, label: &str) {
        let names: Vec<String> = VARIANT_NAMES.iter().map(|s| s.to_string()).collect();
        let mut pool: Vec<T> = vec![];
        for _ in 0..n {
            let x = A::make(r, 0);
            self.rust_roundtrip_case(&x, label, true);
            if let Ok(Ok(v)) = kvh::catch(|| to_koto_value(&x)) {
                if let Some(t) = T::from_kvalue(&v) {
                    if pool.len() < 64 {
                        pool.push(t);
                    }
                }
            }
        }
        if pool.is_empty() {
            return;
        }
        for _ in 0..n_mut {
            let base = r.pick(&pool).clone();
            let mut m = mutate(r, &base, &names);
            if r.chance(1, 4) {
                m = mutate(r, &m, &names);
            }
            let req = format!("from {} {}", A::ty(), m.text());
            let resp = self.drv.ask(&req);
            self.rep.case(&req, true);
            self.rep.bump(&format!("rust_mutated_type={}", label));
            let real = match from_case::<A>(&m) {
                Err(p) => {
                    self.viol_d("C20:no-panic:from_koto_value", json!({"input": req, "panic": p}));
                    continue;
                }
                Ok(Ok(rv)) => format!("ok {}", rv),
                Ok(Err(_)) => "err".to_string(),
            };
            self.rep.bump(&format!("from_koto_mutated={}", if real == "err" { "err" } else { "ok" }));
            if real != resp {
                self.viol_k("Model.fromKoto", json!({"input": req, "impl": real, "model": resp, "type": label,
                    "note": "deserializer.rs and Model.fromKoto disagree on an input that is not an image of to_koto_value"}));
            }
        }
    }

    fn rust_roundtrip_case<A: Fam>(&mut self, x: &A, label: &str, count: bool) -> Option<RustCase> {
        let c = match rust_case(x) {
            Err(p) => {
                self.viol_d("C20:no-panic:to/from_koto_value", json!({"type": label, "value": x.rv(), "panic": p}));
                return None;
            }
            Ok(c) => c,
        };
        let req = format!("rust {} {}", c.ty, c.rv);
        let resp = self.drv.ask(&req);
        if count {
            self.rep.case(&req, c.rv.len() > 6);
            self.rep.bump(&format!("rust_type={}", label));
        }
        if field(&resp, "ty") != "1" {
            self.viol_k("harness type description (hasTy)", json!({"input": req, "model": resp, "note": "the harness's description of a Rust value does not type-check in the model"}));
            return None;
        }
        let m_k = field(&resp, "k");
        let m_back = field(&resp, "back");
        let i_k = match &c.to_koto {
            Ok(s) => s.clone(),
            Err(_) => "err".into(),
        };
        let i_back = match &c.back {
            None => "-".to_string(),
            Some(Ok(s)) => s.clone(),
            Some(Err(_)) => "err".into(),
        };
        self.rep.bump(&format!("to_koto={}", if i_k == "err" { "err" } else { "ok" }));
        // (D) out of range ⇒ error; otherwise unchanged after the round trip
        let fits = field(&resp, "fit") == "1";
        if !fits && i_k != "err" {
            self.viol_d("C20:out-of-range integer accepted by to_koto_value", json!({"input": req, "impl": i_k}));
            return Some(c);
        }
        if fits && i_k == "err" {
            self.viol_d("C20:to_koto_value fails on in-range data", json!({"input": req, "error": c.to_koto}));
            return Some(c);
        }
        let wf = field(&resp, "wf") == "1";
        if fits && i_back != c.rv {
            if !wf && self.open.iter().any(|o| o == "F-C20-2") {
                // the type has an Option around a nullable type: the documented excluded shape
                *self.known_counts.entry("F-C20-2".into()).or_insert(0) += 1;
            } else {
                self.viol_d("C20:Rust value changed by to_koto_value/from_koto_value", json!({"input": req, "koto_value": i_k, "back": i_back, "expected": c.rv}));
                return Some(c);
            }
        }
        if i_k != m_k {
            self.viol_k("Model.toKoto", json!({"input": req, "impl": i_k, "model": m_k}));
        } else if i_back != m_back {
            self.viol_k("Model.fromKoto∘toKoto", json!({"input": req, "impl": i_back, "model": m_back}));
        }
        if count && c.rv.len() > 40 && c.rv.len() < 220 && self.rep.evaluations % 53 == 7 && self.sample_room("rust", 3) {
            self.rep.sample(json!({"kind": "rust", "type": label, "request": req, "impl_koto": i_k, "impl_back": i_back, "model": resp}));
        }
        Some(c)
    }
}

// ------------------------------------------------------------------------------------------------
// out-of-range numbers into integer types (directed grid)
// ------------------------------------------------------------------------------------------------

fn oor_one<A: Fam>(v: &T) -> Result<Result<String, String>, String> {
    from_case::<A>(v)
}

impl Ctx {
    /// (D) a finite number beyond the `f32` range must not silently become an infinity (F-C20-8);
    /// (K) `Model.fromKoto .f32`. Precision loss inside the range (rounding, underflow to 0) is not a
    /// range error and is only compared with the model.
    fn f32_grid(&mut self) {
        let half_ulp_above_max = 3.4028235677973366e38f64; // the smallest f64 that `as f32` rounds to +inf
        let inputs: Vec<T> = [
            0.0f64, 1.5, 0.1, f32::MAX as f64, 3.4028235677973362e38, half_ulp_above_max, 3.5e38, 1e39, 1e300, f64::MAX,
            -(f32::MAX as f64), -half_ulp_above_max, -1e39, -1e300, 1e-46, 1e-300, f64::INFINITY, f64::NEG_INFINITY, f64::NAN,
        ]
        .iter()
        .map(|f| T::F(f.to_bits()))
        .chain([T::I(i64::MAX), T::I(i64::MIN), T::I(16777217), T::I(0)])
        .collect();
        for v in inputs {
            let req = format!("from f32 {}", v.text());
            let resp = self.drv.ask(&req);
            self.rep.case(&req, true);
            let real = match from_case::<f32>(&v) {
                Err(p) => {
                    self.viol_d("C20:no-panic:from_koto_value", json!({"input": req, "panic": p}));
                    continue;
                }
                Ok(Ok(rv)) => format!("ok {}", rv),
                Ok(Err(_)) => "err".to_string(),
            };
            if real != resp {
                self.viol_k("Model.fromKoto (f32)", json!({"input": req, "impl": real, "model": resp}));
                continue;
            }
            let overflow = match &v {
                T::F(b) => {
                    let f = f64::from_bits(*b);
                    f.is_finite() && (f as f32).is_infinite()
                }
                _ => false,
            };
            self.rep.bump(&format!("f32_grid={}", if overflow { "beyond-f32-range" } else { "representable-or-non-finite" }));
            if overflow && real != "err" {
                let inf = if matches!(&v, T::F(b) if f64::from_bits(*b) > 0.0) { "ok g7f800000" } else { "ok gff800000" };
                if real == inf && self.open.iter().any(|o| o == "F-C20-8") {
                    *self.known_counts.entry("F-C20-8".into()).or_insert(0) += 1;
                } else {
                    self.viol_d("C20:finite number beyond the f32 range accepted by from_koto_value", json!({"input": req, "impl": real, "expected": "error"}));
                }
            }
        }
    }

    /// (D) "out-of-range input yields an error": every integer type × numbers around its bounds.
    fn oor_grid(&mut self) {
        type F = fn(&T) -> Result<Result<String, String>, String>;
        let types: Vec<(&str, i128, i128, F)> = vec![
            ("i8", i8::MIN as i128, i8::MAX as i128, oor_one::<i8> as F),
            ("i16", i16::MIN as i128, i16::MAX as i128, oor_one::<i16> as F),
            ("i32", i32::MIN as i128, i32::MAX as i128, oor_one::<i32> as F),
            ("i64", i64::MIN as i128, i64::MAX as i128, oor_one::<i64> as F),
            ("u8", 0, u8::MAX as i128, oor_one::<u8> as F),
            ("u16", 0, u16::MAX as i128, oor_one::<u16> as F),
            ("u32", 0, u32::MAX as i128, oor_one::<u32> as F),
            ("u64", 0, u64::MAX as i128, oor_one::<u64> as F),
            ("i128", i128::MIN, i128::MAX, oor_one::<i128> as F),
            ("u128", 0, i128::MAX, oor_one::<u128> as F),
        ];
        for (name, lo, hi, f) in types {
            let mut inputs: Vec<(T, Option<i128>)> = vec![];
            for c in [lo, hi] {
                for d in [-1i128, 0, 1] {
                    if let Some(x) = c.checked_add(d) {
                        if let Ok(i) = i64::try_from(x) {
                            inputs.push((T::I(i), Some(i as i128)));
                        }
                    }
                }
            }
            for fl in [1e300f64, -1e300, 1e19, -1e19, 3e9, -3e9, 70000.0, -70000.0, 300.0, -300.0, 0.0, 100.0, f64::INFINITY, f64::NEG_INFINITY] {
                inputs.push((T::F(fl.to_bits()), if fl.is_finite() && fl.abs() < 1e30 { Some(fl as i128) } else if fl > 0.0 { Some(i128::MAX) } else { Some(i128::MIN) }));
            }
            inputs.push((T::F(f64::NAN.to_bits()), None));
            for (v, math) in inputs {
                let req = format!("from {} {}", name, v.text());
                let resp = self.drv.ask(&req);
                self.rep.case(&req, true);
                let real = match f(&v) {
                    Err(p) => {
                        self.viol_d("C20:no-panic:from_koto_value", json!({"input": req, "panic": p}));
                        continue;
                    }
                    Ok(Ok(rv)) => format!("ok {}", rv),
                    Ok(Err(_)) => "err".to_string(),
                };
                if real != resp {
                    self.viol_k("Model.fromKoto (integers)", json!({"input": req, "impl": real, "model": resp}));
                    continue;
                }
                let in_range = match math {
                    Some(m) => lo <= m && m <= hi,
                    None => false, // NaN is not a number of any integer type
                };
                self.rep.bump(&format!("oor_grid={}", if in_range { "in-range" } else { "out-of-range" }));
                if !in_range && real != "err" {
                    self.viol_d("C20:out-of-range number accepted by from_koto_value", json!({"input": req, "impl": real, "expected": "error"}));
                }
            }
        }
    }
}

// ------------------------------------------------------------------------------------------------
// malformed / corrupted documents (worker process)
// ------------------------------------------------------------------------------------------------

fn worker_main() {
    kvh::quiet_panics();
    let mut libs = Libs::new();
    kvh::worker::serve(|line| {
        if let Some(spec) = line.strip_prefix("graph ") {
            return graph_reply(&mut libs, spec);
        }
        if let Some(kind) = line.strip_prefix("fromcyc ") {
            return fromcyc_reply(kind);
        }
        let Some((fmt, h)) = line.split_once(' ') else { return "bad".into() };
        let Some(bytes) = kvh::unhex(h) else { return "bad".into() };
        let Ok(doc) = String::from_utf8(bytes) else { return "bad".into() };
        match libs.from_string(fmt, &doc) {
            Err(p) => {
                libs = Libs::new();
                format!("panic {}", p.replace('\n', " "))
            }
            Ok(Err(_)) => "err".into(),
            Ok(Ok(v)) => {
                // the value must be usable: print it, and convert it back to text without a panic
                let c = kvh::canon::value(&v);
                match libs.to_string(fmt, &v) {
                    Err(p) => format!("panic to_string after from_string: {}", p.replace('\n', " ")),
                    Ok(_) => format!("ok {}", c),
                }
            }
        }
    });
}

/// `graph` request of the worker: build real (possibly cyclic) containers and serialize node 0.
/// spec: nodes separated by `;`, each `l` or `m` followed by elements `n<int>` / `r<idx>`.
fn graph_reply(libs: &mut Libs, spec: &str) -> String {
    enum Node {
        L(KList),
        M(KMap),
    }
    let specs: Vec<Vec<&str>> = spec.split(';').map(|n| n.split(' ').filter(|x| !x.is_empty()).collect()).collect();
    let nodes: Vec<Node> = specs.iter().map(|n| if n.first() == Some(&"m") { Node::M(KMap::new()) } else { Node::L(KList::default()) }).collect();
    let val = |n: &Node| match n {
        Node::L(l) => KValue::List(l.clone()),
        Node::M(m) => KValue::Map(m.clone()),
    };
    for (i, n) in specs.iter().enumerate() {
        for (j, e) in n.iter().skip(1).enumerate() {
            let v = if let Some(k) = e.strip_prefix('n') {
                KValue::Number(KNumber::I64(k.parse().unwrap_or(0)))
            } else if let Some(k) = e.strip_prefix('r') {
                match nodes.get(k.parse::<usize>().unwrap_or(usize::MAX)) {
                    Some(t) => val(t),
                    None => return "bad".into(),
                }
            } else {
                return "bad".into();
            };
            match &nodes[i] {
                Node::L(l) => l.data_mut().push(v),
                Node::M(m) => m.insert(format!("k{}", j).as_str(), v),
            }
        }
    }
    let root = val(&nodes[0]);
    let rec = match kvh::catch(|| SerializableKValue(&root).serialize(Recorder)) {
        Ok(Ok(sv)) => sv.text(),
        Ok(Err(_)) => "err".to_string(),
        Err(p) => format!("panic:{}", p.replace([' ', '\n'], "_")),
    };
    let mut out = format!("rec={}", rec);
    for fmt in ["json", "yaml"] {
        let r = match libs.to_string(fmt, &root) {
            Ok(Ok(_)) => "ok",
            Ok(Err(_)) => "err",
            Err(_) => "panic",
        };
        out.push_str(&format!(" {}={}", fmt, r));
    }
    // cyclic Rc graphs are leaked on purpose (dropping them is not what is under test)
    std::mem::forget(nodes);
    out
}

/// a recursive Rust type whose Koto image is nothing but nested sequences
#[derive(Serialize, Deserialize, Debug)]
struct Nest(Vec<Nest>);

/// `fromcyc` request of the worker: `from_koto_value` of a container that contains itself (or a very
/// deep finite one) into a recursive Rust type / into `DeserializableKValue`. Must be `err`.
fn fromcyc_reply(kind: &str) -> String {
    fn report<A>(r: Result<Result<A, koto_serde::Error>, String>) -> String {
        match r {
            Ok(Ok(_)) => "ok".into(),
            Ok(Err(_)) => "err".into(),
            Err(p) => format!("panic {}", p.replace('\n', " ")),
        }
    }
    let cyclic_list = || {
        let l = KList::default();
        l.data_mut().push(KValue::Number(1.into()));
        l.data_mut().clear();
        l.data_mut().push(KValue::List(l.clone()));
        let v = KValue::List(l.clone());
        std::mem::forget(l);
        v
    };
    match kind {
        "nest-cyclic-list" => report(kvh::catch(|| from_koto_value::<Nest>(cyclic_list()))),
        "nest-cyclic-list-in-tuple" => {
            // t = (l,) with l = [t]
            let l = KList::default();
            let t = KValue::Tuple(vec![KValue::List(l.clone())].into());
            l.data_mut().push(t.clone());
            std::mem::forget(l);
            report(kvh::catch(|| from_koto_value::<Nest>(t)))
        }
        "tree-cyclic-map" => {
            // m = {Node: (m,)}
            let m = KMap::new();
            m.insert("Node", KValue::Tuple(vec![KValue::Map(m.clone())].into()));
            let v = KValue::Map(m.clone());
            std::mem::forget(m);
            report(kvh::catch(|| from_koto_value::<Tree>(v)))
        }
        "chain-cyclic-map" => {
            // m = {head: 1, tail: m}
            let m = KMap::new();
            m.insert("head", 1);
            m.insert("tail", KValue::Map(m.clone()));
            let v = KValue::Map(m.clone());
            std::mem::forget(m);
            report(kvh::catch(|| from_koto_value::<Chain>(v)))
        }
        "dkv-cyclic-list" => report(kvh::catch(|| from_koto_value::<DeserializableKValue>(cyclic_list()))),
        // finite counterparts: must keep working
        "nest-finite" => {
            let mut v = KValue::Tuple(vec![].into());
            for _ in 0..40 {
                v = KValue::List(KList::from_slice(&[v, KValue::Tuple(vec![].into())]));
            }
            report(kvh::catch(|| from_koto_value::<Nest>(v)))
        }
        "nest-shared" => {
            // the same list three times, no cycle
            let x = KValue::List(KList::from_slice(&[KValue::Tuple(vec![].into())]));
            let v = KValue::Tuple(vec![x.clone(), KValue::List(KList::from_slice(&[x.clone()])), x].into());
            report(kvh::catch(|| from_koto_value::<Nest>(v)))
        }
        _ => "bad".into(),
    }
}

fn corrupt(r: &mut Rng, doc: &str) -> String {
    let chars: Vec<char> = doc.chars().collect();
    if chars.is_empty() {
        return (*r.pick(&["{", "[", "\"", "'", ":", "- ", "= 1", "\u{0}"])).to_string();
    }
    const INS: &[&str] = &[
        "{", "}", "[", "]", "\"", "'", ":", ",", "=", "\n", "\\", "-", "#", "&a ", "*a", "!x ", "? ", "|", ">", "\t", "\u{0}", ".", "e999", "1e999", "18446744073709551615", "-9223372036854775809",
        "99999999999999999999999999", "0x", "nan", "inf", "\"\"\"", "'''", "[[", "]]", "\\u", "\\ud800", "\\x", "---\n", "...\n", "%YAML 9.9\n", "<<: ", "\r", "\u{feff}", "\u{2028}", "2020-13-45", "1979-05-27T07:32:00Z", "é", "😀",
    ];
    let mut out: Vec<char> = chars.clone();
    let edits = 1 + r.below(3);
    for _ in 0..edits {
        if out.is_empty() {
            break;
        }
        let i = r.below(out.len());
        match r.below(7) {
            0 => out.truncate(i),
            1 => {
                out.remove(i);
            }
            2 => {
                let s: Vec<char> = r.pick(INS).chars().collect();
                for (j, c) in s.into_iter().enumerate() {
                    out.insert(i + j, c);
                }
            }
            3 => out[i] = *r.pick(CHAR_POOL),
            4 => {
                // duplicate a slice
                let j = (i + 1 + r.below(8)).min(out.len());
                let slice: Vec<char> = out[i..j].to_vec();
                for (n, c) in slice.into_iter().enumerate() {
                    out.insert(j + n, c);
                }
            }
            5 => {
                // delete a slice
                let j = (i + 1 + r.below(8)).min(out.len());
                out.drain(i..j);
            }
            _ => {
                // flip a bit of an ASCII character
                let c = out[i] as u32;
                if c < 0x80 {
                    out[i] = char::from_u32(c ^ (1 << r.below(7))).unwrap_or('?');
                }
            }
        }
    }
    out.into_iter().collect()
}

/// hand-written documents: (format, document, expectation) with expectation "err" | "ok" | "any"
fn fixed_docs() -> Vec<(String, String, String)> {
    let mut d: Vec<(String, String, String)> = vec![];
    let mut add = |f: &str, doc: &str, e: &str| d.push((f.to_string(), doc.to_string(), e.to_string()));
    // integers outside i64 must be errors wherever the parser hands them over as integers
    add("json", "18446744073709551615", "err");
    add("json", "9223372036854775808", "err");
    add("json", "[1, {\"a\": 9223372036854775808}]", "err");
    add("json", "9223372036854775807", "ok");
    add("json", "-9223372036854775808", "ok");
    add("json", "1e999", "err");
    add("json", "-1e999", "err");
    add("json", "{\"a\": 1e999}", "err");
    add("json", "1e308", "ok");
    add("yaml", "18446744073709551615", "err");
    add("yaml", "9223372036854775808", "err");
    add("yaml", "-9223372036854775809", "err");
    add("yaml", "x: 18446744073709551615", "err");
    add("yaml", "- 123456789012345678901234567890", "err");
    add("yaml", "9223372036854775807", "ok");
    add("yaml", "1e999", "any");
    add("toml", "x = 18446744073709551615", "err");
    add("toml", "x = 9223372036854775808", "err");
    add("toml", "x = -9223372036854775809", "err");
    add("toml", "x = 1e999", "err");
    add("toml", "x = 9223372036854775807", "ok");
    add("toml", "x = [1, 2", "err");
    add("toml", "a = 1\na = 2", "err");
    add("toml", "[a]\n[a]", "err");
    add("toml", "x = 2020-01-01", "any");
    add("toml", "null", "err");
    add("json", "", "err");
    add("json", "{", "err");
    add("json", "[1,]", "err");
    add("json", "{\"a\":1,}", "err");
    add("json", "\"\\ud800\"", "err");
    add("json", "\"\\u0000\"", "ok");
    add("json", "nul", "err");
    add("json", "01", "err");
    add("json", "{\"a\":1}{", "err");
    add("json", "{1: 2}", "err");
    add("yaml", "a: [1, 2", "err");
    add("yaml", "a: b: c", "err");
    add("yaml", "\t- a", "any");
    add("yaml", "a: &x [*x]", "any");
    add("yaml", "*unknown", "err");
    add("yaml", "a: 1\n b: 2", "err");
    add("yaml", "{[1, 2]: 3, {a: 1}: 4}", "err");
    add("yaml", "? {a: 1}\n: 2", "err");
    add("yaml", "!!binary aGVsbG8=", "any");
    add("yaml", "!Variant {a: 1}", "ok");
    add("yaml", "--- 1\n--- 2\n", "err");
    // billion laughs
    add("yaml", "a: &a [x,x,x,x,x,x,x,x,x]\nb: &b [*a,*a,*a,*a,*a,*a,*a,*a,*a]\nc: &c [*b,*b,*b,*b,*b,*b,*b,*b,*b]\nd: &d [*c,*c,*c,*c,*c,*c,*c,*c,*c]\ne: &e [*d,*d,*d,*d,*d,*d,*d,*d,*d]\nf: &f [*e,*e,*e,*e,*e,*e,*e,*e,*e]\ng: &g [*f,*f,*f,*f,*f,*f,*f,*f,*f]\nh: [*g,*g,*g,*g,*g,*g,*g,*g,*g]\n", "err");
    // nesting within reason
    for depth in [40usize, 120, 200] {
        add("json", &format!("{}1{}", "[".repeat(depth), "]".repeat(depth)), "any");
        add("json", &format!("{}1{}", "{\"a\":".repeat(depth), "}".repeat(depth)), "any");
        add("yaml", &format!("{}1{}", "[".repeat(depth), "]".repeat(depth)), "any");
        add("yaml", &(0..depth).map(|i| format!("{}a:\n", " ".repeat(i))).collect::<String>(), "any");
        add("toml", &format!("x = {}1{}", "[".repeat(depth), "]".repeat(depth)), "any");
        add("toml", &format!("x = {}1{}", "{a = ".repeat(depth), "}".repeat(depth)), "any");
        add("toml", &format!("[{}]\nx = 1", vec!["a"; depth].join(".")), "any");
    }
    d
}

// ------------------------------------------------------------------------------------------------
// main
// ------------------------------------------------------------------------------------------------

impl Ctx {
    fn check_doc(&mut self, w: &mut kvh::worker::Worker, fmt: &str, doc: &str, expect: &str, origin: &str) {
        let line = format!("{} {}", fmt, hex(doc.as_bytes()));
        self.rep.case(&line, doc.len() >= 2);
        self.rep.bump(&format!("doc_origin={}", origin));
        let reply = w.request(&line, Duration::from_secs(20));
        let detail = |what: &str| json!({"format": fmt, "doc": doc, "doc_hex": hex(doc.as_bytes()), "outcome": what, "origin": origin});
        match reply {
            kvh::worker::Reply::Timeout => self.viol_d(&format!("C20:{}.from_string does not return", fmt), detail("timeout (20 s)")),
            kvh::worker::Reply::Died(st) => self.viol_d(&format!("C20:{}.from_string aborts the process", fmt), detail(&format!("worker died: {}", st))),
            kvh::worker::Reply::Ok(s) => {
                let kind = s.split(' ').next().unwrap_or("").to_string();
                self.rep.bump(&format!("doc_result[{}]={}", fmt, kind));
                if kind == "panic" && fmt == "toml" && s.contains("assertion `left == right` failed") && s.contains("right: \"_\"") && self.open.iter().any(|o| o == "F-C20-4") {
                    // toml_parser's debug assertion on `0x _` (external crate)
                    *self.known_counts.entry("F-C20-4".into()).or_insert(0) += 1;
                } else if kind == "panic" {
                    self.viol_d(&format!("C20:no-panic:{}.from_string", fmt), detail(&s));
                } else if expect == "err" && kind != "err" {
                    self.viol_d(&format!("C20:{}: malformed or out-of-range document accepted", fmt), detail(&s));
                } else if let Some(want) = expect.strip_prefix("val:") {
                    if s != format!("ok {}", want) {
                        self.viol_d(&format!("C20:{}: document read as a different value", fmt), json!({"format": fmt, "doc": doc, "doc_hex": hex(doc.as_bytes()), "impl": s, "expected": want}));
                    }
                } else if expect == "ok" && kind != "ok" {
                    self.viol_d(&format!("C20:{}: valid document rejected", fmt), detail(&s));
                } else if kind == "bad" {
                    self.viol_k("harness worker protocol", detail(&s));
                }
            }
        }
    }
}

impl Ctx {
    fn check_fromcyc(&mut self, w: &mut kvh::worker::Worker, kind: &str, want: &str) {
        let line = format!("fromcyc {}", kind);
        self.rep.case(&line, true);
        let detail = |o: &str| json!({"input": line, "outcome": o, "expected": want,
            "note": "from_koto_value of a self-containing container into a recursive Rust type must be an error, not a native stack overflow"});
        match w.request(&line, Duration::from_secs(30)) {
            kvh::worker::Reply::Ok(s) if s == want => self.rep.bump(&format!("fromcyc[{}]={}", kind, s)),
            kvh::worker::Reply::Ok(s) => self.viol_d("C20:from_koto_value on an aliased value", detail(&s)),
            kvh::worker::Reply::Timeout => self.viol_d("C20:from_koto_value on a cyclic value does not return", detail("timeout")),
            kvh::worker::Reply::Died(st) => {
                if want == "err" && self.open.iter().any(|o| o == "F-C20-7") {
                    *self.known_counts.entry("F-C20-7".into()).or_insert(0) += 1;
                    self.rep.bump(&format!("fromcyc[{}]=abort", kind));
                } else {
                    self.viol_d("C20:from_koto_value on a cyclic value aborts the process", detail(&format!("worker died: {}", st)));
                }
            }
        }
    }

    fn check_graph(&mut self, w: &mut kvh::worker::Worker, nodes: &[String]) {
        let model_req = format!("graph 0{}", nodes.iter().map(|n| format!(" ({})", n)).collect::<String>());
        let model = self.drv.ask(&model_req);
        self.rep.case(&model_req, nodes.len() >= 2);
        self.rep.bump(&format!("graph_model={}", if model == "err" { "cyclic(err)" } else { "acyclic(ok)" }));
        let line = format!("graph {}", nodes.join(";"));
        match w.request(&line, Duration::from_secs(20)) {
            kvh::worker::Reply::Ok(s) => {
                let rec = field(&s, "rec");
                let expect_text = if model == "err" { "err" } else { "ok" };
                if rec.starts_with("panic") || field(&s, "json") == "panic" || field(&s, "yaml") == "panic" {
                    self.viol_d("C20:no-panic:serialize (aliased containers)", json!({"input": model_req, "impl": s}));
                } else if rec != model {
                    self.viol_k("Model.serG", json!({"input": model_req, "impl": rec, "model": model,
                        "note": "serialize.rs on a container graph (sharing / cycles) vs Model.serG"}));
                } else if field(&s, "json") != expect_text || field(&s, "yaml") != expect_text {
                    self.viol_k("Model.serG (text layers)", json!({"input": model_req, "impl": s, "model": model}));
                }
            }
            kvh::worker::Reply::Timeout => self.viol_d("C20:serializing an aliased value does not return", json!({"input": model_req})),
            kvh::worker::Reply::Died(st) => self.viol_d("C20:serializing an aliased value aborts the process", json!({"input": model_req, "worker": st,
                "note": "a container that contains itself must be a serializer error (31a9fd6), not a native stack overflow"})),
        }
    }

    /// (D) integers outside i64 must be errors in every syntax; (K) JSON's number contract `jsonInt`
    fn int_literals(&mut self) {
        const LITS: &[&str] = &[
            "0", "9223372036854775807", "9223372036854775808", "18446744073709551615", "18446744073709551616", "18446744073709551617",
            "170141183460469231731687303715884105727", "170141183460469231731687303715884105728", "340282366920938463463374607431768211455",
            "340282366920938463463374607431768211456", "10000000000000000000000000000000000000000", "-9223372036854775808", "-9223372036854775809",
            "-18446744073709551616", "-170141183460469231731687303715884105728", "-170141183460469231731687303715884105729",
            "-10000000000000000000000000000000000000000", "99999999999999999999", "-99999999999999999999", "12345678901234567890123",
        ];
        for lit in LITS {
            let exact: Option<i64> = lit.parse().ok();
            let nearest = lit.parse::<f64>().unwrap();
            let model = self.drv.ask(&format!("jint {} f{:016x}", lit, nearest.to_bits()));
            let forms: Vec<(&str, String, Box<dyn Fn(&T) -> Option<T>>)> = vec![
                ("json", lit.to_string(), Box::new(|t: &T| Some(t.clone()))),
                ("json", format!("[{}]", lit), Box::new(|t: &T| match t { T::Tu(x) if x.len() == 1 => Some(x[0].clone()), _ => None })),
                ("json", format!("{{\"a\": {}}}", lit), Box::new(|t: &T| match t { T::M(x) if x.len() == 1 => Some(x[0].1.clone()), _ => None })),
                ("yaml", lit.to_string(), Box::new(|t: &T| Some(t.clone()))),
                ("yaml", format!("a: {}", lit), Box::new(|t: &T| match t { T::M(x) if x.len() == 1 => Some(x[0].1.clone()), _ => None })),
                ("yaml", format!("- {}", lit), Box::new(|t: &T| match t { T::Tu(x) if x.len() == 1 => Some(x[0].clone()), _ => None })),
                ("toml", format!("a = {}", lit), Box::new(|t: &T| match t { T::M(x) if x.len() == 1 => Some(x[0].1.clone()), _ => None })),
                ("toml", format!("a = [{}]", lit), Box::new(|t: &T| match t { T::M(x) if x.len() == 1 => match &x[0].1 { T::Tu(y) if y.len() == 1 => Some(y[0].clone()), _ => None }, _ => None })),
            ];
            for (fmt, doc, pick) in forms {
                let key = format!("intlit {} {}", fmt, hex(doc.as_bytes()));
                self.rep.case(&key, true);
                let got = match self.libs.from_string(fmt, &doc) {
                    Err(p) => {
                        self.viol_d(&format!("C20:no-panic:{}.from_string", fmt), json!({"format": fmt, "doc": doc, "panic": p}));
                        continue;
                    }
                    Ok(Err(_)) => None,
                    Ok(Ok(v)) => match T::from_kvalue(&v).and_then(|t| pick(&t)) {
                        Some(t) => Some(t),
                        None => {
                            self.viol_d(&format!("C20:{}: integer literal read as an unexpected shape", fmt), json!({"format": fmt, "doc": doc, "impl": kvh::canon::value(&v)}));
                            continue;
                        }
                    },
                };
                let got_txt = match &got { Some(t) => format!("ok {}", t.text()), None => "err".to_string() };
                self.rep.bump(&format!("intlit[{}]={}", fmt, match &got { None => "err", Some(T::I(_)) => "int", Some(T::F(_)) => "float", Some(_) => "other" }));
                if fmt == "json" && got_txt != model {
                    self.viol_k("Model.jsonInt", json!({"format": fmt, "doc": doc, "impl": got_txt, "model": model}));
                    continue;
                }
                match (exact, &got) {
                    (Some(i), Some(T::I(j))) if i == *j => {}
                    (Some(_), _) => self.viol_d(&format!("C20:{}: in-range integer literal not read exactly", fmt), json!({"format": fmt, "doc": doc, "impl": got_txt})),
                    (None, None) => {}
                    (None, Some(T::F(b)))
                        if (fmt == "json" || (fmt == "yaml" && lit.parse::<i128>().is_err() && lit.parse::<u128>().is_err()))
                            && *b == nearest.to_bits()
                            && self.open.iter().any(|o| o == "F-C20-6") =>
                    {
                        // beyond u64 / below i64: serde_json hands over the nearest float
                        *self.known_counts.entry("F-C20-6".into()).or_insert(0) += 1;
                    }
                    (None, Some(_)) => self.viol_d(&format!("C20:{}: out-of-range integer literal accepted", fmt), json!({"format": fmt, "doc": doc, "impl": got_txt, "expected": "error"})),
                }
            }
        }
    }
}

fn corpus_trees(dir: &std::path::Path) -> Vec<T> {
    let mut out = vec![];
    if let Ok(txt) = std::fs::read_to_string(dir.join("trees.txt")) {
        for l in txt.lines() {
            let l = l.trim();
            if l.is_empty() || l.starts_with('#') {
                continue;
            }
            match parse_val(l) {
                Some(t) => out.push(t),
                None => eprintln!("corpus: cannot parse {}", l),
            }
        }
    }
    out
}

fn corpus_docs(dir: &std::path::Path) -> Vec<(String, String, String)> {
    let mut out = vec![];
    if let Ok(txt) = std::fs::read_to_string(dir.join("docs.json")) {
        if let Ok(serde_json::Value::Array(a)) = serde_json::from_str::<serde_json::Value>(&txt) {
            for e in a {
                if let (Some(f), Some(d)) = (e["format"].as_str(), e["doc"].as_str()) {
                    out.push((f.to_string(), d.to_string(), e["expect"].as_str().unwrap_or("any").to_string()));
                }
            }
        }
    }
    out
}

fn main() {
    if std::env::args().any(|a| a == "--worker") {
        worker_main();
        return;
    }
    kvh::quiet_panics();
    let args = Args::parse();
    let mut rep = Report::new("C20", &args);
    rep.max_samples = 12;
    rep.rule = "cases: (1) value trees (seeded generator, nesting ≤ 5, string/int/float pools + random bit patterns; corpus; finding witnesses) through serialize.rs→recorder, and through json/yaml/toml to_string∘from_string twice; (2) serde-data-model trees replayed into KValueVisitor; (3) values of a family of Rust types through to_koto_value/from_koto_value, plus edited Koto values into from_koto_value, plus an integer-bounds grid; (4) hand-written and corrupted documents into the three parsers (worker process). distinct = distinct canonical request lines; non-trivial = tree with ≥ 3 nodes / data-model tree with ≥ 2 nodes / Rust value other than a bare scalar / document of ≥ 2 bytes".into();
    let open: Vec<String> = rep.known_open().iter().filter_map(|e| e.get("id").and_then(|x| x.as_str()).map(|s| s.to_string())).collect();
    let drv = Driver::spawn(&args.driver);
    let mut cx = Ctx { rep, drv, libs: Libs::new(), open, known_counts: Default::default(), float_exact: [0; 3], depth_limits: [127, 128, 81], writer_limit: 128, k_fail: 0, d_fail: 0 };
    {
        let lim = cx.drv.ask("limits");
        for (i, f) in FORMATS.iter().enumerate() {
            match field(&lim, f).parse::<usize>() {
                Ok(n) => cx.depth_limits[i] = n,
                Err(_) => cx.viol_k("driver limits", json!({"response": lim})),
            }
        }
        match field(&lim, "writer").parse::<usize>() {
            Ok(n) => cx.writer_limit = n,
            Err(_) => cx.viol_k("driver limits", json!({"response": lim})),
        }
    }
    let mut worker = kvh::worker::Worker::spawn(&["--worker".to_string()]);
    let thorough = args.thorough();

    // ---- replay of one recorded case ----
    if let Some(p) = &args.replay {
        let v: serde_json::Value = serde_json::from_str(&std::fs::read_to_string(p).expect("replay file")).expect("replay json");
        let d = &v["detail"];
        if let (Some(f), Some(doc)) = (d["format"].as_str(), d["doc"].as_str()) {
            println!("replaying document into {}.from_string", f);
            cx.check_doc(&mut worker, f, doc, "any", "replay");
        } else if let Some(inp) = d["input"].as_str() {
            if let Some(rest) = inp.strip_prefix("tree ") {
                let val_txt = split_fields(rest)[0];
                match parse_val(val_txt) {
                    Some(t) => {
                        println!("model: {}", cx.drv.ask(&tree_request(&t)));
                        cx.check_tree(&t, "replay");
                    }
                    None => println!("cannot parse the recorded tree"),
                }
            } else {
                println!("model: {}", cx.drv.ask(inp));
                println!("(typed cases are regenerated from the seed: re-run with --seed {} --tier {})", v["seed"], v["tier"]);
            }
        }
        std::process::exit(cx.rep.finish());
    }

    let mut rng = Rng::new(args.seed);
    let strict = Profile { odd_keys: false, non_finite: false, ranges: false, nulls: true };
    let strict_toml = Profile { odd_keys: false, non_finite: false, ranges: false, nulls: false };
    let wide = Profile { odd_keys: true, non_finite: true, ranges: true, nulls: true };
    let keys_only = Profile { odd_keys: true, non_finite: false, ranges: false, nulls: true };

    // ---- 0. corpus and witnesses ----
    if let Some(dir) = &args.corpus {
        for t in corpus_trees(dir) {
            cx.check_tree(&t, "corpus");
        }
    }
    // every pool string / int / float once, as value and as key, in a TOML-compatible document
    for chunk in STR_POOL.chunks(8) {
        let t = T::M(chunk.iter().enumerate().map(|(i, s)| (T::S(s.to_string()), if i % 2 == 0 { T::S(s.to_string()) } else { T::Tu(vec![T::S(s.to_string())]) })).collect());
        cx.check_tree(&t, "pool");
    }
    cx.check_tree(&T::M(INT_POOL.iter().map(|i| (T::S(format!("k{}", i)), T::I(*i))).collect()), "pool");
    cx.check_tree(&T::M(FLOAT_POOL.iter().enumerate().map(|(i, f)| (T::S(format!("k{}", i)), T::F(f.to_bits()))).collect()), "pool");
    cx.check_tree(&T::M(INT_POOL.iter().map(|i| (T::I(*i), T::I(*i))).collect()), "pool");
    for s in STR_POOL {
        cx.check_tree(&T::S(s.to_string()), "pool");
    }

    // ---- 1. generated value trees ----
    let n_trees = if thorough { 30000 } else { 1500 };
    for i in 0..n_trees {
        let (p, top_map) = match i % 10 {
            0..=3 => (&strict, false),
            4..=6 => (&strict_toml, true),
            7 | 8 => (&keys_only, i % 2 == 0),
            _ => (&wide, false),
        };
        let max_depth = 1 + (i % 5) as u32;
        let mut t = gen_tree(&mut rng, p, 0, max_depth);
        if top_map && !matches!(t, T::M(_)) {
            t = T::M(vec![(T::S(gen_string(&mut rng)), t)]);
        }
        cx.check_tree(&t, match i % 10 { 0..=3 => "strict", 4..=6 => "strict-toml", 7 | 8 => "odd-keys", _ => "wide" });
    }

    // ---- 1b. float exactness: random finite bit patterns and decimal-looking values, 40 per document ----
    let n_float_docs = if thorough { 2500 } else { 100 };
    for i in 0..n_float_docs {
        let es: Vec<(T, T)> = (0..40)
            .map(|j| {
                let b = if i % 2 == 0 { loop { let b = rng.next_u64(); if f64::from_bits(b).is_finite() { break b; } } } else { gen_finite(&mut rng) };
                (T::S(format!("f{}", j)), if j % 5 == 4 { T::Tu(vec![T::F(b)]) } else { T::F(b) })
            })
            .collect();
        cx.check_tree(&T::M(es), "floats");
    }

    // ---- 2. serde data model → KValueVisitor ----
    let n_sv = if thorough { 60000 } else { 4000 };
    for i in 0..n_sv {
        let sv = gen_sv(&mut rng, 0, 1 + (i % 5) as u32);
        cx.check_sv(&sv);
    }
    for sv in [
        SV::U(u64::MAX, 64), SV::U(i64::MAX as u64, 64), SV::U(i64::MAX as u64 + 1, 64), SV::I128(i64::MAX as i128 + 1), SV::I128(i64::MIN as i128),
        SV::I128(i64::MIN as i128 - 1), SV::U128(u128::MAX), SV::U128(i64::MAX as u128), SV::Seq(vec![SV::U(1, 8), SV::U(u64::MAX, 64)]),
        SV::Map(vec![(SV::Str("a".into(), 0), SV::U(u64::MAX, 64))]), SV::Map(vec![(SV::U(u64::MAX, 64), SV::Unit)]),
        SV::Enum(Box::new(SV::Str("V".into(), 0)), Box::new(SV::Seq(vec![SV::None, SV::Bytes(vec![0, 255], 0)]))),
        SV::Map(vec![(SV::Str("k".into(), 0), SV::I(1, 64)), (SV::Str("k".into(), 1), SV::I(2, 64)), (SV::Char('k'), SV::I(3, 64))]),
    ] {
        cx.check_sv(&sv);
    }

    // ---- 3. Rust types ----
    let (n, m) = if thorough { (1500, 3000) } else { (60, 150) };
    macro_rules! rust { ($t:ty, $label:expr) => { cx.check_rust::<$t>(&mut rng, n, m, $label); }; }
    rust!(i8, "i8"); rust!(i16, "i16"); rust!(i32, "i32"); rust!(i64, "i64");
    rust!(u8, "u8"); rust!(u16, "u16"); rust!(u32, "u32"); rust!(u64, "u64");
    rust!(i128, "i128"); rust!(u128, "u128");
    rust!(f32, "f32"); rust!(f64, "f64"); rust!(bool, "bool"); rust!(char, "char"); rust!(String, "String"); rust!((), "()");
    rust!(Option<i64>, "Option<i64>"); rust!(Option<String>, "Option<String>");
    rust!(Vec<u8>, "Vec<u8>"); rust!(Vec<Option<String>>, "Vec<Option<String>>");
    rust!((i8, String), "(i8,String)"); rust!((bool, char, Option<String>), "(bool,char,Option<String>)"); rust!((u64,), "(u64,)");
    rust!(BTreeMap<String, i32>, "BTreeMap<String,i32>"); rust!(BTreeMap<String, Vec<(f64, Option<bool>)>>, "BTreeMap<String,Vec<(f64,Option<bool>)>>");
    rust!(Meters, "Meters(i16)"); rust!(Pair, "Pair(i32,String)"); rust!(Marker, "Marker");
    rust!(Fill, "enum Fill"); rust!(Shape, "enum Shape"); rust!(Inner, "struct Inner"); rust!(Prims, "struct Prims");
    rust!(OptFields, "struct OptFields"); rust!(Doc, "struct Doc"); rust!(Deep, "struct Deep");
    rust!(Tree, "recursive enum Tree"); rust!(Chain, "recursive struct Chain"); rust!(Expr, "recursive enum Expr"); rust!(Vec<Tree>, "Vec<Tree>");
    rust!(Vec<Shape>, "Vec<Shape>"); rust!(Option<Vec<BTreeMap<String, Fill>>>, "Option<Vec<BTreeMap<String,Fill>>>");
    cx.oor_grid();
    cx.f32_grid();

    // ---- 3b. nesting depth around the readers' limits (F-C20-5) ----
    {
        let mut depths: Vec<usize> = vec![];
        for l in cx.depth_limits {
            depths.extend([l - 1, l, l + 1, l + 2]);
        }
        depths.extend([100, 200, cx.writer_limit - 1, cx.writer_limit, cx.writer_limit + 1]);
        if thorough {
            depths.extend([300, 400]);
        }
        depths.sort();
        depths.dedup();
        for d in depths {
            for shape in 0..3 {
                // a chain of d containers ending in a scalar; the top is a map (TOML needs one)
                let mut t = T::I(1);
                for lvl in 0..d {
                    let top = lvl == d - 1;
                    t = match (shape, top) {
                        (_, true) | (1, _) => T::M(vec![(T::S("a".into()), t)]),
                        (0, _) => T::Tu(vec![t]),
                        _ => if lvl % 2 == 0 { T::L(vec![t, T::I(2)]) } else { T::M(vec![(T::S("k".into()), t), (T::S("z".into()), T::Null)]) },
                    };
                }
                cx.check_tree(&t, "deep");
            }
        }
    }

    // ---- 3c. integer literals around the 64- and 128-bit bounds, in all three syntaxes (F-C20-6) ----
    cx.int_literals();

    // ---- 3d. aliasing: random container graphs (shared and cyclic) serialized in the worker ----
    let n_graphs = if thorough { 4000 } else { 300 };
    for _ in 0..n_graphs {
        let n = 1 + rng.below(5);
        let nodes: Vec<String> = (0..n)
            .map(|_| {
                let mut s = String::from(if rng.chance(1, 3) { "m" } else { "l" });
                for _ in 0..rng.below(4) {
                    if rng.chance(1, 2) { s.push_str(&format!(" n{}", rng.range(-3, 9))); } else { s.push_str(&format!(" r{}", rng.below(n))); }
                }
                s
            })
            .collect();
        cx.check_graph(&mut worker, &nodes);
    }
    for n in [cx.writer_limit - 1, cx.writer_limit, cx.writer_limit + 1, cx.writer_limit + 2] {
        // a chain of n distinct lists / maps: the writer's nesting limit on the graph
        let nodes: Vec<String> = (0..n).map(|i| if i + 1 < n { format!("{} r{}", if i % 3 == 2 { "m" } else { "l" }, i + 1) } else { "l n1".to_string() }).collect();
        cx.check_graph(&mut worker, &nodes);
    }
    // from_koto_value of a container that contains itself into a recursive Rust type (F-C20-7)
    for (kind, want) in [("nest-finite", "ok"), ("nest-shared", "ok"), ("nest-cyclic-list", "err"), ("nest-cyclic-list-in-tuple", "err"),
        ("tree-cyclic-map", "err"), ("chain-cyclic-map", "err"), ("dkv-cyclic-list", "err")] {
        cx.check_fromcyc(&mut worker, kind, want);
    }
    for g in [vec!["l n1 r0"], vec!["m r0"], vec!["l r1", "m n2 r0"], vec!["l r1 r2 r1", "l n1", "m r1"], vec!["l r1 r1", "l r2 r2", "l r3 r3", "l n7"]] {
        cx.check_graph(&mut worker, &g.iter().map(|x| x.to_string()).collect::<Vec<_>>());
    }

    // ---- 4. documents ----
    let mut docs = fixed_docs();
    if let Some(dir) = &args.corpus {
        docs.extend(corpus_docs(dir));
    }
    for (f, d, e) in &docs {
        cx.check_doc(&mut worker, f, d, e, "fixed");
    }
    // TOML date/time literals: the reader hands over a one-entry map with the crate's private key
    // (Model.tomlDatetime); the value loses its type but is stable from then on
    for lit in ["1979-05-27", "07:32:00", "1979-05-27T07:32:00Z", "1979-05-27T00:32:00.999999-07:00", "1979-05-27T07:32:00", "0001-01-01", "23:59:59.5"] {
        let model = cx.drv.ask(&format!("de (map (s{} s{}))", hex(b"$__toml_private_datetime"), hex(lit.as_bytes())));
        let Some(val) = model.strip_prefix("ok ") else {
            cx.viol_k("Model.tomlDatetime", json!({"literal": lit, "model": model}));
            continue;
        };
        cx.check_doc(&mut worker, "toml", &format!("a = {}", lit), &format!("val:(m (sx61 {}))", val), "datetime");
        cx.check_doc(&mut worker, "toml", &format!("a = [{}]", lit), &format!("val:(m (sx61 (t {})))", val), "datetime");
        // value → text → value for the value just read: stable (the key is written quoted)
        if let Some(t) = parse_val(&format!("(m (sx61 {}))", val)) {
            cx.check_tree(&t, "datetime");
        }
    }
    let n_docs = if thorough { 20000 } else { 1200 };
    let mut produced = 0;
    while produced < n_docs {
        let p = if rng.chance(1, 2) { &strict_toml } else { &keys_only };
        let md = 1 + rng.below(4) as u32;
        let mut t = gen_tree(&mut rng, p, 0, md);
        let fmt = *rng.pick(FORMATS);
        if fmt == "toml" && !matches!(t, T::M(_)) {
            t = T::M(vec![(T::S("k".into()), t)]);
        }
        let kv = t.to_kvalue();
        let Ok(Ok(doc)) = cx.libs.to_string(fmt, &kv) else { continue };
        for _ in 0..4 {
            let bad = corrupt(&mut rng, &doc);
            cx.check_doc(&mut worker, fmt, &bad, "any", "corrupted");
            produced += 1;
        }
    }

    // ---- listed findings: replay the witnesses ----
    for e in cx.rep.known_entries() {
        let id = e["id"].as_str().unwrap_or("").to_string();
        let status_known = e["status"].as_str() == Some("known");
        let failing = match id.as_str() {
            "F-C20-1" => {
                // from_koto_value::<u8>(300) must be an error
                let a = matches!(from_case::<u8>(&T::I(300)), Ok(Ok(_)));
                let b = matches!(from_case::<Vec<u8>>(&T::Tu(vec![T::I(1), T::I(300)])), Ok(Ok(_)));
                let c = matches!(from_case::<i64>(&T::F(1e300f64.to_bits())), Ok(Ok(_)));
                a || b || c
            }
            "F-C20-3" => {
                // json.from_string(json.to_string(x)) for the recorded float
                let bits = e["witness_bits"].as_str().and_then(|h| u64::from_str_radix(h, 16).ok()).unwrap_or(0x99788eef73cf5206);
                let kv = T::F(bits).to_kvalue();
                match cx.libs.to_string("json", &kv) {
                    Ok(Ok(txt)) => match cx.libs.from_string("json", &txt) {
                        Ok(Ok(v)) => T::from_kvalue(&v) != Some(T::F(bits)),
                        _ => true,
                    },
                    _ => true,
                }
            }
            "F-C20-4" => {
                let doc = e["witness"].as_str().unwrap_or("a = 0x _").to_string();
                let line = format!("toml {}", hex(doc.as_bytes()));
                !matches!(worker.request(&line, Duration::from_secs(20)), kvh::worker::Reply::Ok(s) if s == "err")
            }
            "F-C20-5" => {
                // depth 82 and 127 through TOML: written, then not read back
                let chain = |n: usize| {
                    let mut t = T::I(1);
                    for _ in 0..n - 1 {
                        t = T::Tu(vec![t]);
                    }
                    T::M(vec![(T::S("a".into()), t)])
                };
                let mut fails = false;
                for (fmt, n) in [("toml", 82usize), ("toml", 127)] {
                    if let Ok(Ok(txt)) = cx.libs.to_string(fmt, &chain(n).to_kvalue()) {
                        fails |= !matches!(cx.libs.from_string(fmt, &txt), Ok(Ok(_)));
                    } // a refusal by to_string is explicit: not a failure of the round trip
                }
                fails
            }
            "F-C20-6" => matches!(cx.libs.from_string("json", "-9223372036854775809"), Ok(Ok(_))) || matches!(cx.libs.from_string("json", "18446744073709551616"), Ok(Ok(_))),
            "F-C20-8" => matches!(from_case::<f32>(&T::F(1e300f64.to_bits())), Ok(Ok(_))),
            "F-C20-7" => !matches!(worker.request("fromcyc nest-cyclic-list", Duration::from_secs(30)), kvh::worker::Reply::Ok(s) if s == "err"),
            "F-C20-2" => {
                let x: NestedOpt = Some(None);
                let y: OptUnit = Some(());
                let a = cx.rust_roundtrip_case(&x, "Option<Option<i64>>", false).map(|c| c.back != Some(Ok(c.rv.clone()))).unwrap_or(true);
                let b = cx.rust_roundtrip_case(&y, "Option<()>", false).map(|c| c.back != Some(Ok(c.rv.clone()))).unwrap_or(true);
                a || b
            }
            _ => {
                cx.rep.note(format!("known_findings entry {} has no replay rule in c20.rs", id));
                false
            }
        };
        if status_known && failing {
            let n = cx.known_counts.get(&id).copied().unwrap_or(0);
            cx.rep.known(&id, &format!("{} — witness still fails ({} cases of this run attributed to it)", e["what"].as_str().unwrap_or(""), n));
        } else if status_known && !failing {
            cx.rep.note(format!("{}: witness no longer fails (entry can become status=fixed)", id));
        } else if !status_known && failing {
            cx.viol_d(&format!("C20:regression:{}", id), json!({"input": e["witness"], "note": "a finding recorded as fixed fails again"}));
        }
    }
    let kc = cx.known_counts.clone();
    for (id, n) in kc {
        cx.rep.bump_by(&format!("attributed_to_{}", id), n);
    }
    let (k, d) = (cx.k_fail, cx.d_fail);
    cx.rep.extra.insert("k_disagreements".into(), json!(k));
    cx.rep.extra.insert("d_failures".into(), json!(d));
    cx.rep.extra.insert("driver_requests".into(), json!(cx.drv.requests));
    cx.rep.extra.insert("finite_floats_bit_exact_after_round_trip".into(), json!({"json": cx.float_exact[0], "yaml": cx.float_exact[1], "toml": cx.float_exact[2],
        "note": "finite float leaves (value positions) of all trees of this run whose first and second round trip were bit-identical; a single differing bit is a VIOLATION, so these are all float leaves checked"}));
    cx.rep.extra.insert("rust_type_family".into(), json!(["i8..u64", "i128", "u128", "f32", "f64", "bool", "char", "String", "()", "Option", "Vec", "tuples (1,2,3)", "BTreeMap<String,_>", "newtype/tuple/unit structs", "structs", "enums with unit/newtype/tuple/struct variants (incl. renamed, boxed, nested)", "recursive types Tree / Chain / Expr (described by their finite unfolding with the empty enum at the cut)"]));
    std::process::exit(cx.rep.finish());
}
