//! C14 — value model: sharing, copying, equality, ordering and map keys.
//!
//! (K) operation histories rendered as Koto scripts, run on the real runtime; after every step the
//!     whole reachable heap is dumped canonically (objects numbered by first visit, so sharing is
//!     visible) and compared with the Lean heap model (`Model/Heap*.lean`) fed the same history;
//!     value pools: `== != < > <= >=`, `compare_values`, ValueKey equality/hash/ordering, map lookup;
//!     sorting of random lists / (key, tag) pairs / maps.
//! (D) the property's laws evaluated directly on the implementation's outputs: aliasing, copy and
//!     deep_copy independence, frozen immutables, map insertion order and key identity by an
//!     independent oracle, reflexive/symmetric `==`, `!=` negation, trichotomy, sorted stable
//!     permutation.
use koto_runtime::prelude::*;
use kvh::{Args, Driver, Report, Rng};
use serde_json::{json, Value as J};
use std::cell::RefCell;
use std::collections::{BTreeMap, BTreeSet};
use std::rc::Rc;

include!("c14_parts/values.rs");
include!("c14_parts/script.rs");
include!("c14_parts/gen.rs");
include!("c14_parts/oracle.rs");
include!("c14_parts/pools.rs");
include!("c14_parts/trees.rs");
include!("c14_parts/run.rs");
