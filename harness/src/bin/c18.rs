//! C18 — modules: exports, imports and caching behave as documented.
//!
//! A *scenario* = runtime settings + a finite file system of module files + a history of host
//! scripts that ONE `Koto` instance runs with `compile_and_run`.  Module files and host scripts are
//! straight-line action lists (the `Act`/`TAct` types of `Model/Modules.lean`), rendered to Koto source
//! and written to a fresh scratch directory.
//!
//! (K) per operation: Ok/Err class, the event trace (stdout markers of top levels / `@test` / `@main`,
//!     displayed values, caught-error classes, `module_imported_callback` paths) and the canonical
//!     `Koto::exports()` — equal to what the Lean model (`runOps`) computes for the same scenario;
//! (D) laws evaluated on the implementation's trace alone (run-once, phase order, no recursive-import
//!     error in an acyclic graph, no export leak from imported modules into the importer).
use koto::prelude::*;
use koto_bytecode::CompilerSettings;
use kvh::{Args, Driver, Report, Rng};
use serde::{Deserialize, Serialize};
use serde_json::json;
use std::cell::RefCell;
use std::collections::{BTreeMap, BTreeSet};
use std::path::{Path, PathBuf};
use std::rc::Rc;

// ------------------------------------------------------------------------------------------------
// scenario data (mirrors Model/Modules.lean)

type Name = u32;

#[derive(Clone, Debug, Serialize, Deserialize, PartialEq, Eq, PartialOrd, Ord, Hash)]
struct MPath {
    dir: Vec<Name>,
    name: Name,
    is_dir: bool,
}

impl MPath {
    fn folder(&self) -> Vec<Name> {
        let mut d = self.dir.clone();
        if self.is_dir {
            d.push(self.name);
        }
        d
    }
    fn rel(&self) -> String {
        let mut s = String::new();
        for d in &self.dir {
            s.push_str(&name_str(*d));
            s.push('/');
        }
        s.push_str(&name_str(self.name));
        s.push_str(if self.is_dir { "/main.koto" } else { ".koto" });
        s
    }
}

/// what an import names: an id, or a string (`str_`) that may carry leading path segments
/// (`'../m5/m1'` → segs [None, Some(5)]); `dot` only selects the spelling `./…` (same path)
#[derive(Clone, Debug, Default, Serialize, PartialEq)]
struct Ref {
    name: Name,
    #[serde(default, rename = "str")]
    str_: bool,
    #[serde(default)]
    segs: Vec<Option<Name>>,
    #[serde(default)]
    dot: bool,
    /// nested part of a from-path: `from a.b.c import …` → root a, sub [b, c]
    #[serde(default)]
    sub: Vec<Name>,
}

impl From<Name> for Ref {
    fn from(n: Name) -> Ref {
        Ref { name: n, ..Default::default() }
    }
}

impl From<&Name> for Ref {
    fn from(n: &Name) -> Ref {
        Ref { name: *n, ..Default::default() }
    }
}

impl<'de> Deserialize<'de> for Ref {
    fn deserialize<D: serde::Deserializer<'de>>(d: D) -> Result<Ref, D::Error> {
        #[derive(Deserialize)]
        #[serde(untagged)]
        enum Repr {
            N(Name),
            Full {
                name: Name,
                #[serde(default, rename = "str")]
                str_: bool,
                #[serde(default)]
                segs: Vec<Option<Name>>,
                #[serde(default)]
                dot: bool,
                #[serde(default)]
                sub: Vec<Name>,
            },
        }
        Ok(match Repr::deserialize(d)? {
            Repr::N(n) => n.into(),
            Repr::Full { name, str_, segs, dot, sub } => Ref { name, str_, segs, dot, sub },
        })
    }
}

impl Ref {
    fn sexp(&self) -> String {
        if !self.str_ && self.segs.is_empty() && self.sub.is_empty() {
            self.name.to_string()
        } else {
            let mut s = format!("(r {} {}", self.name, self.str_ as u8);
            for g in &self.segs {
                match g {
                    Some(n) => s.push_str(&format!(" {}", n)),
                    None => s.push_str(" .."),
                }
            }
            if !self.sub.is_empty() {
                s.push_str(" (sub");
                for k in &self.sub {
                    s.push_str(&format!(" {}", k));
                }
                s.push(')');
            }
            s.push(')');
            s
        }
    }
    /// the text between the quotes of a string import
    fn path_text(&self) -> String {
        let mut s = String::new();
        if self.dot {
            s.push_str("./");
        }
        for g in &self.segs {
            match g {
                Some(n) => s.push_str(&name_str(*n)),
                None => s.push_str(".."),
            }
            s.push('/');
        }
        s.push_str(&name_str(self.name));
        s
    }
    fn src(&self) -> String {
        let mut s = if self.str_ { format!("'{}'", self.path_text()) } else { name_str(self.name) };
        for k in &self.sub {
            s.push('.');
            s.push_str(&name_str(*k));
        }
        s
    }
}

#[derive(Clone, Debug, Default, Serialize, Deserialize)]
struct Item {
    name: Name,
    #[serde(rename = "as")]
    as_: Option<Name>,
    #[serde(default, rename = "str")]
    str_: bool,
    #[serde(default)]
    segs: Vec<Option<Name>>,
}

impl Item {
    fn rf(&self) -> Ref {
        Ref { name: self.name, str_: self.str_, segs: self.segs.clone(), dot: false, sub: vec![] }
    }
    /// the local the item binds, if any
    fn target(&self) -> Option<Name> {
        if self.str_ { self.as_ } else { Some(self.as_.unwrap_or(self.name)) }
    }
}

/// entry of a map pattern: `key`, `key as target`, `key as _` (target None); `str_key` only selects
/// the spelling `'key' as target` (same semantics)
#[derive(Clone, Debug, Serialize, Deserialize)]
struct PEntry {
    key: Name,
    target: Option<Name>,
    #[serde(default)]
    str_key: bool,
}

#[derive(Clone, Debug, Serialize, Deserialize)]
enum Target {
    Id(Name),
    Ignored,
    Map(Vec<PEntry>),
}

#[derive(Clone, Debug, Serialize, Deserialize)]
enum Rhs {
    Lit(i64),
    Ref(Name),
}

fn target_bound(t: &Target) -> Vec<Name> {
    match t {
        Target::Id(k) => vec![*k],
        Target::Ignored => vec![],
        Target::Map(es) => es.iter().filter_map(|e| e.target).collect(),
    }
}

#[derive(Clone, Debug, Serialize, Deserialize)]
enum Act {
    Print(u32),
    Export(Name, i64),
    Assign(Name, i64),
    ExportId(Name, Name),
    Show(u32, Name),
    Import(Vec<Item>),
    From(Ref, Vec<Item>),
    FromAll(Ref),
    Try(Ref, u32),
    /// guarded read: `try` / `print "S<mk>={k}"` / `catch` / `print 'C<mk>:<class>'`
    TShow(u32, Name),
    Fail(u32),
    /// `[export] t1, t2, … = r1, r2, …`
    Pat(bool, Vec<Target>, Vec<Rhs>),
    /// `k op= r`
    Cmp(Name, COp, Rhs),
    /// `for zi in 0..n` / `  k op= r`
    Loop(u32, Name, COp, Rhs),
    /// `k = v` nested in `if true` (0), `if false` (1), `match 1` / `1 then` (2)
    Cond(u32, Name, i64),
    /// `export k = element` inside a callback of a core function / a generator body, over the elements
    /// 1..=n; the template (see CB_TEMPLATES) decides how many elements the callback sees
    Cb(u32, u32, Name),
}

/// (source with `N` = element count and `K` = exported id, does the callback see all elements?)
/// adaptors (each, keep, take) run the callback in a spawned VM, consumers (fold, all, find, any,
/// position, max) on the calling one, generators in their own
const CB_TEMPLATES: &[(&str, bool)] = &[
    ("(1..=N).each(|zn| export K = zn).consume()", true),
    ("(1..=N).keep(|zn| (export K = zn) > 0).consume()", true),
    ("(1..=N).take(|zn| (export K = zn) > 0).consume()", true),
    ("(1..=N).take(|zn| (export K = zn) < 0).consume()", false),
    ("(1..=N).fold 0, |za, zn| export K = zn", true),
    ("(1..=N).all |zn| (export K = zn) > 0", true),
    ("(1..=N).all |zn| (export K = zn) < 0", false),
    ("(1..=N).find |zn| (export K = zn) < 0", true),
    ("(1..=N).find |zn| (export K = zn) > 0", false),
    ("(1..=N).any |zn| (export K = zn) < 0", true),
    ("(1..=N).any |zn| (export K = zn) > 0", false),
    ("(1..=N).position |zn| (export K = zn) < 0", true),
    ("(1..=N).position |zn| (export K = zn) > 0", false),
    ("(1..=N).each(|zn| export K = zn).to_list()", true),
    ("(1..=N).each(|zn| export K = zn).count()", true),
    ("(1..=N).each(|zn| export K = zn).last()", true),
    ("(1..=N).to_list().retain |zn| (export K = zn) > 0", true),
    ("(1..=N).to_list().transform |zn| export K = zn", true),
    ("(1..=N).max |zn| export K = zn", true),
    ("(1..=N).min |zn| export K = zn", true),
    ("(1..=N).chain(1..1).each(|zn| export K = zn).consume()", true),
    ("(1..=N).zip(1..=N).each(|zn| export K = zn.first()).consume()", true),
];

/// the last element whose callback ran (0 = none)
fn cb_last(tmpl: u32, n: u32) -> u32 {
    let t = tmpl as usize;
    if t == CB_TEMPLATES.len() {
        n // generator consumed completely
    } else if t == CB_TEMPLATES.len() + 1 {
        n.min(1) // generator advanced once
    } else if CB_TEMPLATES[t].1 {
        n
    } else {
        n.min(1)
    }
}

const CB_COUNT: u32 = CB_TEMPLATES.len() as u32 + 2;

#[derive(Clone, Copy, Debug, Serialize, Deserialize, PartialEq)]
enum COp {
    Add,
    Sub,
    Mul,
    Rem,
    Pow,
}

impl COp {
    fn atom(&self) -> &'static str {
        match self {
            COp::Add => "add",
            COp::Sub => "sub",
            COp::Mul => "mul",
            COp::Rem => "rem",
            COp::Pow => "pow",
        }
    }
    fn src(&self) -> &'static str {
        match self {
            COp::Add => "+=",
            COp::Sub => "-=",
            COp::Mul => "*=",
            COp::Rem => "%=",
            COp::Pow => "^=",
        }
    }
    /// i64 semantics (wrapping; `%` truncates)
    fn apply(&self, a: i64, b: i64) -> i64 {
        match self {
            COp::Add => a.wrapping_add(b),
            COp::Sub => a.wrapping_sub(b),
            COp::Mul => a.wrapping_mul(b),
            COp::Rem => if b == 0 { a } else { a.wrapping_rem(b) },
            COp::Pow => if b < 0 { a } else { a.wrapping_pow(b as u32) },
        }
    }
}

fn rhs_sexp(r: &Rhs) -> String {
    match r {
        Rhs::Lit(n) => format!("(lit {})", n),
        Rhs::Ref(k) => format!("(ref {})", k),
    }
}

fn rhs_src(r: &Rhs) -> String {
    match r {
        Rhs::Lit(n) => n.to_string(),
        Rhs::Ref(k) => name_str(*k),
    }
}

#[derive(Clone, Debug, Serialize, Deserialize)]
enum TAct {
    A(Act),
    Main(u32, Vec<Act>),
    Test(Name, u32, Vec<Act>),
    /// `export key = ||` + body (prints its marker first)
    Fn(Name, u32, Vec<Act>),
    /// `m.key()`
    CallM(Name, Name),
    /// `key()`
    Call(Name),
}

#[derive(Clone, Debug, Serialize, Deserialize)]
struct FileDef {
    path: MPath,
    /// None = a file that does not compile
    body: Option<Vec<TAct>>,
    /// see Op::fn_defaults
    #[serde(default)]
    fn_defaults: u8,
}

#[derive(Clone, Debug, Serialize, Deserialize)]
struct Op {
    dir: Vec<Name>,
    export_top: bool,
    body: Vec<TAct>,
    /// the script path given to the compiler is `<dir>/<script>.koto` (an existing module file whose
    /// content is this very script) instead of the neutral `_host.koto`; resolution only uses the folder
    #[serde(default)]
    script: Option<Name>,
    /// how many default-valued arguments the functions defined by this script get (rendering only:
    /// they are never passed, the model does not know about them)
    #[serde(default)]
    fn_defaults: u8,
}

#[derive(Clone, Debug, Serialize, Deserialize)]
struct Scenario {
    run_import_tests: bool,
    host_tests: bool,
    prelude: Vec<Name>,
    files: Vec<FileDef>,
    ops: Vec<Op>,
    #[serde(default)]
    family: String,
    /// directories to create besides the module files (relative paths), e.g. a DIRECTORY named
    /// `m1.koto` next to `m1/main.koto` (F-C18-11): they are not files, so the model ignores them
    #[serde(default)]
    extra_dirs: Vec<String>,
    /// model parameters that select "the code as recorded in an open finding" or "the repaired code";
    /// set from the findings' status, never from the scenario file
    #[serde(default, skip_serializing)]
    flags: Flags,
}

/// alias: Cfg.exportAlias (F-C18-1), canon: Cfg.canonFile (F-C18-3), dotted: Cfg.stem = id (F-C18-4),
/// str_alias: Cfg.exportStrAlias (F-C18-5); true = the finding is recorded as fixed
#[derive(Clone, Copy, Debug, Default, Deserialize)]
struct Flags {
    alias: bool,
    canon: bool,
    dotted: bool,
    str_alias: bool,
    /// Cfg.exportsFirst (F-C18-7)
    exports_first: bool,
    /// Cfg.wildRefresh (F-C18-10)
    wild_refresh: bool,
    /// Cfg.importCaptures (F-C18-9)
    import_captures: bool,
}

/// names 200 + 10·a + b are the dotted module names `m<a>.v<b>`
fn name_str(n: Name) -> String {
    if n == 99 {
        "string".into()
    } else if n == 89 {
        // the loop variable of Act::Loop
        "zi".into()
    } else if n == 90 {
        // 90..92: names of prelude functions (always in the model's prelude)
        "size".into()
    } else if n == 91 {
        "type".into()
    } else if n == 92 {
        "copy".into()
    } else if n >= 200 {
        format!("m{}.v{}", (n - 200) / 10, (n - 200) % 10)
    } else if n < 50 {
        format!("m{}", n)
    } else {
        format!("k{}", n)
    }
}

// ------------------------------------------------------------------------------------------------
// request text for the model

fn names_sexp(ns: &[Name]) -> String {
    format!("({})", ns.iter().map(|n| n.to_string()).collect::<Vec<_>>().join(" "))
}

fn item_sexp(i: &Item) -> String {
    match i.as_ {
        None => format!("(i {})", i.rf().sexp()),
        Some(a) => format!("(i {} {})", i.rf().sexp(), a),
    }
}

fn act_sexp(a: &Act) -> String {
    match a {
        Act::Print(m) => format!("(print {})", m),
        Act::Export(k, v) => format!("(export {} {})", k, v),
        Act::Assign(k, v) => format!("(assign {} {})", k, v),
        Act::ExportId(k, s) => format!("(exportid {} {})", k, s),
        Act::Show(m, k) => format!("(show {} {})", m, k),
        Act::Import(items) => format!("(import {})", items.iter().map(item_sexp).collect::<Vec<_>>().join(" ")),
        Act::From(m, items) => format!("(from {} {})", m.sexp(), items.iter().map(item_sexp).collect::<Vec<_>>().join(" ")),
        Act::FromAll(m) => format!("(fromall {})", m.sexp()),
        Act::Try(m, mk) => format!("(try {} {})", Ref { str_: true, ..m.clone() }.sexp(), mk),
        Act::Fail(mk) => format!("(fail {})", mk),
        Act::TShow(mk, k) => format!("(tshow {} {})", mk, k),
        Act::Cmp(k, op, r) => format!("(cmp {} {} {})", k, op.atom(), rhs_sexp(r)),
        Act::Loop(n, k, op, r) => format!("(loop {} {} {} {})", n, k, op.atom(), rhs_sexp(r)),
        Act::Cond(f, k, v) => format!("(cond {} {} {})", f, k, v),
        Act::Cb(t, n, k) => format!("(cb {} {})", cb_last(*t, *n), k),
        Act::Pat(e, ts, rs) => format!(
            "(pat {} ({}) ({}))",
            *e as u8,
            ts.iter()
                .map(|t| match t {
                    Target::Id(k) => format!("(id {})", k),
                    Target::Ignored => "(ign)".to_string(),
                    Target::Map(es) => format!(
                        "(map{})",
                        es.iter()
                            .map(|e| match e.target {
                                Some(t) => format!(" (e {} {})", e.key, t),
                                None => format!(" (e {} _)", e.key),
                            })
                            .collect::<String>()
                    ),
                })
                .collect::<Vec<_>>()
                .join(" "),
            rs.iter()
                .map(|r| match r {
                    Rhs::Lit(n) => format!("(lit {})", n),
                    Rhs::Ref(k) => format!("(ref {})", k),
                })
                .collect::<Vec<_>>()
                .join(" ")
        ),
    }
}

fn tact_sexp(t: &TAct) -> String {
    match t {
        TAct::A(a) => format!("(a {})", act_sexp(a)),
        TAct::Main(mk, b) => format!("(main {} {})", mk, b.iter().map(act_sexp).collect::<Vec<_>>().join(" ")),
        TAct::Test(n, mk, b) => format!("(test {} {} {})", n, mk, b.iter().map(act_sexp).collect::<Vec<_>>().join(" ")),
        TAct::Fn(k, mk, b) => format!("(fn {} {} {})", k, mk, b.iter().map(act_sexp).collect::<Vec<_>>().join(" ")),
        TAct::CallM(m, k) => format!("(callm {} {})", m, k),
        TAct::Call(k) => format!("(call {})", k),
    }
}

fn path_sexp(p: &MPath) -> String {
    format!("(p {} {} {})", names_sexp(&p.dir), p.name, p.is_dir as u8)
}

fn request(sc: &Scenario) -> String {
    let mut s = format!(
        "run (cfg {} {} {} {} {} {} {} {} (stems",
        sc.run_import_tests as u8,
        sc.host_tests as u8,
        sc.flags.alias as u8,
        sc.flags.canon as u8,
        sc.flags.str_alias as u8,
        sc.flags.exports_first as u8,
        sc.flags.wild_refresh as u8,
        sc.flags.import_captures as u8
    );
    if !sc.flags.dotted {
        // what Path::with_extension keeps of a dotted module name
        for n in 200..300u32 {
            s.push_str(&format!(" ({} {})", n, (n - 200) / 10));
        }
    }
    s.push(')');
    for p in sc.prelude.iter().chain([90u32, 91, 92].iter()) {
        s.push_str(&format!(" {}", p));
    }
    s.push_str(") (fs");
    for f in &sc.files {
        match &f.body {
            None => s.push_str(&format!(" (f {} bad)", path_sexp(&f.path))),
            Some(b) => s.push_str(&format!(" (f {} {})", path_sexp(&f.path), b.iter().map(tact_sexp).collect::<Vec<_>>().join(" "))),
        }
    }
    s.push_str(") (ops");
    for o in &sc.ops {
        s.push_str(&format!(
            " (op {} {} {})",
            names_sexp(&o.dir),
            o.export_top as u8,
            o.body.iter().map(tact_sexp).collect::<Vec<_>>().join(" ")
        ));
    }
    s.push(')');
    s
}

// ------------------------------------------------------------------------------------------------
// Koto source

fn item_src(i: &Item) -> String {
    match i.as_ {
        None => i.rf().src(),
        Some(a) => format!("{} as {}", i.rf().src(), name_str(a)),
    }
}

fn act_src(a: &Act, ind: &str, out: &mut Vec<String>) {
    match a {
        Act::Print(m) => out.push(format!("{ind}print 'P{m}'")),
        Act::Export(k, v) => out.push(format!("{ind}export {} = {}", name_str(*k), v)),
        Act::Assign(k, v) => out.push(format!("{ind}{} = {}", name_str(*k), v)),
        Act::ExportId(k, s) => out.push(format!("{ind}export {} = {}", name_str(*k), name_str(*s))),
        Act::Show(m, k) => out.push(format!("{ind}print \"S{m}={{{}}}\"", name_str(*k))),
        Act::Import(items) => out.push(format!("{ind}import {}", items.iter().map(item_src).collect::<Vec<_>>().join(", "))),
        Act::From(m, items) => out.push(format!(
            "{ind}from {} import {}",
            m.src(),
            items.iter().map(item_src).collect::<Vec<_>>().join(", ")
        )),
        Act::FromAll(m) => out.push(format!("{ind}from {} import *", m.src())),
        Act::TShow(mk, k) => {
            out.push(format!("{ind}try"));
            out.push(format!("{ind}  print \"S{mk}={{{}}}\"", name_str(*k)));
            catch_src(*mk, ind, out);
        }
        Act::Try(m, mk) => {
            out.push(format!("{ind}try"));
            out.push(format!("{ind}  import '{}'", m.path_text()));
            catch_src(*mk, ind, out);
        }
        Act::Fail(mk) => out.push(format!("{ind}throw 'boom{mk}'")),
        _ => act_src_rest(a, ind, out),
    }
}

/// `catch zerr` + a handler that prints `C<mk>:<class>` (no assignment in the handler: with
/// export_top_level_ids it would be exported)
fn catch_src(mk: u32, ind: &str, out: &mut Vec<String>) {
    out.push(format!("{ind}catch zerr"));
    {
        {
            // no assignment in the handler: with export_top_level_ids it would be exported
            let mut first = true;
            for (pat, cls) in [
                ("'recursive import of module'", "rec"),
                ("'unable to find module'", "nf"),
                ("'boom'", "thrown"),
                ("'not found in'", "access"),
                ("\"supports '.' access\"", "access"),
                ("\"' not found\"", "idnf"),
                ("'import id or string'", "type"),
                ("'callable function'", "call"),
                ("'unable to perform operation'", "arith"),
                ("'Key/Value pair to export'", "exportentry"),
                ("'xpected'", "compile"),
            ] {
                out.push(format!("{ind}  {} \"{{zerr}}\".contains({pat})", if first { "if" } else { "else if" }));
                out.push(format!("{ind}    print 'C{mk}:{cls}'"));
                first = false;
            }
            out.push(format!("{ind}  else"));
            out.push(format!("{ind}    print 'C{mk}:other'"));
        }
    }
}

fn act_src_rest(a: &Act, ind: &str, out: &mut Vec<String>) {
    match a {
        Act::Cmp(k, op, r) => out.push(format!("{ind}{} {} {}", name_str(*k), op.src(), rhs_src(r))),
        Act::Loop(n, k, op, r) => {
            out.push(format!("{ind}for zi in 0..{}", n));
            out.push(format!("{ind}  {} {} {}", name_str(*k), op.src(), rhs_src(r)));
        }
        Act::Cb(t, n, k) => {
            let ti = *t as usize;
            if ti < CB_TEMPLATES.len() {
                out.push(format!("{ind}{}", CB_TEMPLATES[ti].0.replace('N', &n.to_string()).replace('K', &name_str(*k))));
            } else {
                // a generator whose body exports before every yield
                out.push(format!("{ind}zgen = ||"));
                out.push(format!("{ind}  for zn in 1..={}", n));
                out.push(format!("{ind}    export {} = zn", name_str(*k)));
                out.push(format!("{ind}    yield zn"));
                if ti == CB_TEMPLATES.len() {
                    out.push(format!("{ind}zgen().consume()"));
                } else {
                    out.push(format!("{ind}zgen().next()"));
                }
            }
        }
        Act::Cond(f, k, v) => match f {
            0 => {
                out.push(format!("{ind}if true"));
                out.push(format!("{ind}  {} = {}", name_str(*k), v));
            }
            1 => {
                out.push(format!("{ind}if false"));
                out.push(format!("{ind}  {} = {}", name_str(*k), v));
            }
            _ => {
                out.push(format!("{ind}match 1"));
                out.push(format!("{ind}  1 then"));
                out.push(format!("{ind}    {} = {}", name_str(*k), v));
            }
        },
        Act::Pat(e, ts, rs) => {
            let tsrc: Vec<String> = ts
                .iter()
                .map(|t| match t {
                    Target::Id(k) => name_str(*k),
                    Target::Ignored => "_".to_string(),
                    Target::Map(es) => format!(
                        "{{{}}}",
                        es.iter()
                            .map(|e| {
                                let key = if e.str_key { format!("'{}'", name_str(e.key)) } else { name_str(e.key) };
                                match e.target {
                                    Some(t) if t == e.key && !e.str_key => key,
                                    Some(t) => format!("{} as {}", key, name_str(t)),
                                    None => format!("{} as _", key),
                                }
                            })
                            .collect::<Vec<_>>()
                            .join(", ")
                    ),
                })
                .collect();
            let rsrc: Vec<String> = rs
                .iter()
                .map(|r| match r {
                    Rhs::Lit(n) => n.to_string(),
                    Rhs::Ref(k) => name_str(*k),
                })
                .collect();
            out.push(format!("{ind}{}{} = {}", if *e { "export " } else { "" }, tsrc.join(", "), rsrc.join(", ")));
        }
        _ => {}
    }
}

fn fn_src(header: String, mk: u32, body: &[Act], defaults: u8, ind: &str, out: &mut Vec<String>) {
    let args: Vec<String> = (0..defaults).map(|i| format!("zd{} = {}", i, i)).collect();
    out.push(format!("{ind}{header} = |{}|", args.join(", ")));
    let inner = format!("{ind}  ");
    // marker 0 = a silent function: no print, its only non-local needs are its import roots
    if mk != 0 {
        out.push(format!("{inner}print 'P{mk}'"));
    }
    for a in body {
        act_src(a, &inner, out);
    }
    if mk == 0 && body.is_empty() {
        out.push(format!("{inner}null"));
    }
}

#[allow(dead_code)]
fn body_src(body: &[TAct]) -> String {
    body_src_d(body, 0)
}

/// `defaults`: number of default-valued arguments every function of the body is rendered with
fn body_src_d(body: &[TAct], defaults: u8) -> String {
    let mut out = vec![];
    for t in body {
        match t {
            TAct::A(a) => act_src(a, "", &mut out),
            TAct::Main(mk, b) => fn_src("@main".into(), *mk, b, defaults, "", &mut out),
            TAct::Test(n, mk, b) => fn_src(format!("@test {}", name_str(*n)), *mk, b, defaults, "", &mut out),
            TAct::Fn(k, mk, b) => fn_src(format!("export {}", name_str(*k)), *mk, b, defaults, "", &mut out),
            TAct::CallM(m, k) => out.push(format!("{}.{}()", name_str(*m), name_str(*k))),
            TAct::Call(k) => out.push(format!("{}()", name_str(*k))),
        }
    }
    let mut s = out.join("\n");
    s.push('\n');
    s
}

const BAD_SOURCE: &str = "export = = 1\n";

// ------------------------------------------------------------------------------------------------
// running the implementation

#[derive(Clone)]
struct Capture {
    buf: Rc<RefCell<String>>,
}

impl KotoFile for Capture {
    fn id(&self) -> KString {
        "_c18_capture_".into()
    }
}
impl KotoRead for Capture {}
impl KotoWrite for Capture {
    fn write(&self, bytes: &[u8]) -> koto::runtime::Result<()> {
        self.buf.borrow_mut().push_str(&String::from_utf8_lossy(bytes));
        Ok(())
    }
    fn write_line(&self, text: &str) -> koto::runtime::Result<()> {
        let mut b = self.buf.borrow_mut();
        b.push_str(text);
        b.push('\n');
        Ok(())
    }
    fn flush(&self) -> koto::runtime::Result<()> {
        Ok(())
    }
}

fn classify(full: &str) -> String {
    // the message proper: everything before the first source excerpt
    let msg: String = full.lines().take_while(|l| !l.starts_with("---")).collect::<Vec<_>>().join("\n");
    let msg = msg.as_str();
    if msg.contains("recursive import of module") {
        "rec".into()
    } else if msg.contains("unable to find module") {
        "nf".into()
    } else if msg.contains("boom") {
        "thrown".into()
    } else if msg.contains("not found in") || msg.contains("supports '.' access") {
        "access".into()
    } else if msg.contains("' not found") {
        "idnf".into()
    } else if msg.contains("import id or string") {
        "type".into()
    } else if msg.contains("unable to perform operation") {
        "arith".into()
    } else if msg.contains("callable function") {
        "call".into()
    } else if msg.contains("Key/Value pair to export") {
        "exportentry".into()
    } else if msg.contains("xpected") {
        // compiler / parser diagnostics ("expected …", "unexpected …") and the ImportAll type error
        "compile".into()
    } else {
        format!("other:{}", msg.lines().next().unwrap_or("").chars().take(60).collect::<String>().replace(' ', "_"))
    }
}

#[derive(Clone, Debug)]
struct OpOut {
    result: String,
    events: Vec<String>,
    exports: String,
}

impl OpOut {
    fn text(&self) -> String {
        format!("{} [{}] {}", self.result, self.events.join(" "), self.exports)
    }
}

fn line_event(l: &str) -> String {
    if let Some(rest) = l.strip_prefix('S') {
        if let Some((mk, val)) = rest.split_once('=') {
            return format!("S{}={}", mk, kvh::hex(val.as_bytes()));
        }
    }
    if l.starts_with("D:") || l.starts_with('P') || l.starts_with('C') {
        if !l.contains(' ') {
            return l.to_string();
        }
    }
    format!("?{}", kvh::hex(l.as_bytes()))
}

struct Scratch {
    root: PathBuf,
    counter: u64,
}

impl Scratch {
    fn new(seed: u64) -> Scratch {
        let base = std::env::var("VERIF_SCRATCH").map(PathBuf::from).unwrap_or_else(|_| std::env::temp_dir());
        let root = base.join(format!("c18-{}-{}", std::process::id(), seed));
        let _ = std::fs::remove_dir_all(&root);
        std::fs::create_dir_all(&root).expect("create scratch dir");
        let root = std::fs::canonicalize(&root).expect("canonicalize scratch dir");
        assert!(!root.starts_with("/repo"), "scratch directory must be outside /repo");
        Scratch { root, counter: 0 }
    }
    fn next_dir(&mut self) -> PathBuf {
        self.counter += 1;
        self.root.join(format!("s{}", self.counter))
    }
}

impl Drop for Scratch {
    fn drop(&mut self) {
        let _ = std::fs::remove_dir_all(&self.root);
    }
}

fn dir_path(root: &Path, dir: &[Name]) -> PathBuf {
    let mut p = root.to_path_buf();
    for d in dir {
        p.push(name_str(*d));
    }
    p
}

fn write_scenario(root: &Path, sc: &Scenario) {
    std::fs::create_dir_all(root).unwrap();
    for d in &sc.extra_dirs {
        let p = root.join(d);
        std::fs::create_dir_all(&p).unwrap();
        std::fs::write(p.join("note.txt"), "not a module\n").unwrap();
    }
    for f in &sc.files {
        let p = root.join(f.path.rel());
        std::fs::create_dir_all(p.parent().unwrap()).unwrap();
        let src = match &f.body {
            None => BAD_SOURCE.to_string(),
            Some(b) => body_src_d(b, f.fn_defaults),
        };
        std::fs::write(&p, src).unwrap();
    }
    for o in &sc.ops {
        let d = dir_path(root, &o.dir);
        std::fs::create_dir_all(&d).unwrap();
        let h = d.join("_host.koto");
        if !h.exists() {
            std::fs::write(&h, "# host script location\n").unwrap();
        }
    }
}

/// Runs the history on one fresh runtime. Err = a panic message.
/// One of the ways the koto crate's host API lets a host express the SAME configuration
/// (configuration-spelling invariance): how CompileArgs are built (struct literal, field mutation, the
/// builder methods script_path / export_top_level_ids / enable_type_checks in every order), whether the
/// script is run by compile_and_run or by compile + run, and how KotoSettings are built (struct literal
/// or field mutation of the default, then the builder methods with_stdout / with_stderr /
/// with_module_imported_callback / with_args / with_execution_limit in any order).
#[derive(Clone, Copy, Debug, PartialEq)]
struct Spelling {
    /// 0 struct literal, 1..=6 the permutations of the three builder methods, 7 field mutation
    args: u8,
    two_step: bool,
    /// permutation index (0..120) of the five KotoSettings builder methods, + 120 = field mutation
    settings: u8,
}

impl Spelling {
    const DEFAULT: Spelling = Spelling { args: 0, two_step: false, settings: 0 };
    fn from_hash(h: u64) -> Spelling {
        Spelling { args: (h % 8) as u8, two_step: (h >> 8) & 1 == 1, settings: ((h >> 16) % 240) as u8 }
    }
}

/// the k-th permutation of 0..n
fn permutation(n: usize, mut k: usize) -> Vec<usize> {
    let mut items: Vec<usize> = (0..n).collect();
    let mut out = vec![];
    for i in (1..=n).rev() {
        let f: usize = (1..i).product();
        let idx = (k / f) % i;
        k %= f;
        out.push(items.remove(idx));
    }
    out
}

fn run_impl(scratch: &mut Scratch, sc: &Scenario) -> Result<Vec<OpOut>, String> {
    run_impl_sp(scratch, sc, Spelling::DEFAULT)
}

fn run_impl_sp(scratch: &mut Scratch, sc: &Scenario, sp: Spelling) -> Result<Vec<OpOut>, String> {
    let root = scratch.next_dir();
    write_scenario(&root, sc);
    let buf = Rc::new(RefCell::new(String::new()));
    let cb_buf = buf.clone();
    let cb_root = root.clone();
    let mut settings = if sp.settings >= 120 {
        let mut s = KotoSettings::default();
        s.run_tests = sc.host_tests;
        s.vm_settings.run_import_tests = sc.run_import_tests;
        s
    } else {
        KotoSettings {
            run_tests: sc.host_tests,
            vm_settings: KotoVmSettings { run_import_tests: sc.run_import_tests, ..Default::default() },
        }
    };
    let mut callback = Some(move |p: &Path| {
        let rel = p.strip_prefix(&cb_root).map(|r| r.to_string_lossy().to_string()).unwrap_or_else(|_| format!("ABS{}", p.display()));
        // `.` components are kept by PathBuf's display but ignored by its equality (the cache key)
        let rel = rel.split('/').filter(|c| *c != ".").collect::<Vec<_>>().join("/");
        let mut b = cb_buf.borrow_mut();
        b.push_str("D:");
        b.push_str(&rel);
        b.push('\n');
    });
    for step in permutation(5, (sp.settings % 120) as usize) {
        settings = match step {
            0 => settings.with_stdout(Capture { buf: buf.clone() }),
            1 => settings.with_stderr(Capture { buf: Rc::new(RefCell::new(String::new())) }),
            2 => settings.with_module_imported_callback(callback.take().unwrap()),
            3 => settings.with_args(vec!["arg".to_string()]),
            _ => settings.with_execution_limit(std::time::Duration::from_secs(600)),
        };
    }
    let res = kvh::catch(|| {
        let mut koto = Koto::with_settings(settings);
        let mut outs = vec![];
        for op in &sc.ops {
            let script = body_src_d(&op.body, op.fn_defaults);
            let script_path = match op.script {
                Some(n) => dir_path(&root, &op.dir).join(format!("{}.koto", name_str(n))),
                None => dir_path(&root, &op.dir).join("_host.koto"),
            };
            let path_text = script_path.to_string_lossy().to_string();
            let args = match sp.args {
                0 => CompileArgs {
                    script: &script,
                    script_path: Some(path_text.clone().into()),
                    compiler_settings: CompilerSettings { export_top_level_ids: op.export_top, ..Default::default() },
                },
                7 => {
                    let mut a: CompileArgs = script.as_str().into();
                    a.script_path = Some(path_text.clone().into());
                    a.compiler_settings.export_top_level_ids = op.export_top;
                    a
                }
                k => {
                    let mut a = CompileArgs::new(&script);
                    for step in permutation(3, (k - 1) as usize) {
                        a = match step {
                            0 => a.script_path(path_text.clone()),
                            1 => a.export_top_level_ids(op.export_top),
                            _ => a.enable_type_checks(true),
                        };
                    }
                    a
                }
            };
            let r = if sp.two_step {
                match koto.compile(args) {
                    Ok(chunk) => koto.run(chunk),
                    Err(e) => Err(e),
                }
            } else {
                koto.compile_and_run(args)
            };
            let result = match r {
                Ok(_) => "ok".to_string(),
                Err(e) => {
                    if std::env::var("C18_DEBUG").is_ok() {
                        eprintln!("[debug] error: {}", e);
                    }
                    format!("E:{}", classify(&e.to_string()))
                }
            };
            let text = std::mem::take(&mut *buf.borrow_mut());
            let events = text.lines().map(line_event).collect();
            let exports = kvh::canon::value(&KValue::Map(koto.exports().clone()));
            outs.push(OpOut { result, events, exports });
        }
        outs
    });
    let _ = std::fs::remove_dir_all(&root);
    res
}

// ------------------------------------------------------------------------------------------------
// (D) laws on the implementation's trace alone

fn acts_of<'a>(body: &'a [TAct]) -> Vec<&'a Act> {
    let mut v = vec![];
    for t in body {
        match t {
            TAct::A(a) => v.push(a),
            TAct::Main(_, b) | TAct::Test(_, _, b) | TAct::Fn(_, _, b) => v.extend(b.iter()),
            TAct::CallM(..) | TAct::Call(_) => {}
        }
    }
    v
}

fn imported_names(a: &Act) -> Vec<Name> {
    match a {
        Act::Import(items) => items.iter().map(|i| i.name).collect(),
        Act::From(m, _) | Act::FromAll(m) | Act::Try(m, _) => vec![m.name],
        _ => vec![],
    }
}

/// true when the import graph over module *names* (an over-approximation of the graph over files)
/// has a cycle
fn name_graph_cyclic(sc: &Scenario) -> bool {
    let mut edges: BTreeMap<Name, BTreeSet<Name>> = BTreeMap::new();
    for f in &sc.files {
        if let Some(b) = &f.body {
            for a in acts_of(b) {
                for n in imported_names(a) {
                    edges.entry(f.path.name).or_default().insert(n);
                }
            }
        }
    }
    // DFS
    fn visit(n: Name, edges: &BTreeMap<Name, BTreeSet<Name>>, state: &mut BTreeMap<Name, u8>) -> bool {
        match state.get(&n) {
            Some(1) => return true,
            Some(2) => return false,
            _ => {}
        }
        state.insert(n, 1);
        if let Some(es) = edges.get(&n) {
            for m in es {
                if visit(*m, edges, state) {
                    return true;
                }
            }
        }
        state.insert(n, 2);
        false
    }
    let mut state = BTreeMap::new();
    let keys: Vec<Name> = edges.keys().copied().collect();
    keys.into_iter().any(|k| visit(k, &edges, &mut state))
}

struct ModInfo {
    rel: String,
    top: Option<u32>,
    tests: Vec<u32>,
    main: Option<u32>,
    simple: bool,
}

/// Markers are unique per scenario (generator invariant, checked); a module is `simple` for the
/// phase-order law when it starts with a `print`, defines `@main` at most once and each test name once.
fn mod_infos(sc: &Scenario) -> Option<Vec<ModInfo>> {
    let mut seen = BTreeSet::new();
    let mut uniq = true;
    let mut note = |m: u32| {
        if m != 0 && !seen.insert(m) {
            uniq = false;
        }
    };
    let mut infos = vec![];
    for f in &sc.files {
        let Some(b) = &f.body else { continue };
        let top = match b.first() {
            Some(TAct::A(Act::Print(m))) => Some(*m),
            _ => None,
        };
        let mut tests = vec![];
        let mut test_names = BTreeSet::new();
        let mut mains = vec![];
        let mut simple = top.is_some();
        for t in b {
            match t {
                TAct::A(Act::Print(m)) | TAct::A(Act::Show(m, _)) | TAct::A(Act::Try(_, m)) | TAct::A(Act::TShow(m, _)) => note(*m),
                TAct::A(_) => {}
                TAct::Main(mk, body) => {
                    note(*mk);
                    if *mk == 0 {
                        simple = false;
                    }
                    mains.push(*mk);
                    for a in body {
                        if let Act::Print(m) | Act::Show(m, _) | Act::Try(_, m) | Act::TShow(m, _) = a {
                            note(*m)
                        }
                    }
                }
                TAct::Test(n, mk, body) => {
                    note(*mk);
                    if !test_names.insert(*n) || *mk == 0 {
                        simple = false;
                    }
                    tests.push(*mk);
                    for a in body {
                        if let Act::Print(m) | Act::Show(m, _) | Act::Try(_, m) | Act::TShow(m, _) = a {
                            note(*m)
                        }
                    }
                }
                TAct::Fn(_, mk, body) => {
                    note(*mk);
                    for a in body {
                        if let Act::Print(m) | Act::Show(m, _) | Act::Try(_, m) | Act::TShow(m, _) = a {
                            note(*m)
                        }
                    }
                }
                TAct::CallM(..) | TAct::Call(_) => {}
            }
        }
        if mains.len() > 1 {
            simple = false;
        }
        infos.push(ModInfo { rel: f.path.rel(), top, tests, main: mains.first().copied(), simple });
    }
    for o in &sc.ops {
        if o.script.is_some() {
            continue; // the script IS one of the module files: same markers
        }
        for t in &o.body {
            match t {
                TAct::A(Act::Print(m)) | TAct::A(Act::Show(m, _)) | TAct::A(Act::Try(_, m)) | TAct::A(Act::TShow(m, _)) => note(*m),
                TAct::A(_) => {}
                TAct::Main(mk, body) | TAct::Test(_, mk, body) | TAct::Fn(_, mk, body) => {
                    note(*mk);
                    for a in body {
                        if let Act::Print(m) | Act::Show(m, _) | Act::Try(_, m) | Act::TShow(m, _) = a {
                            note(*m)
                        }
                    }
                }
                TAct::CallM(..) | TAct::Call(_) => {}
            }
        }
    }
    if uniq { Some(infos) } else { None }
}

/// Returns (law, detail) for the first law that fails on the implementation's outputs.
/// `x/..` collapsed in a relative path text
fn norm_rel(rel: &str) -> String {
    let mut parts: Vec<&str> = vec![];
    for c in rel.split('/') {
        if c == ".." {
            parts.pop();
        } else if c != "." && !c.is_empty() {
            parts.push(c);
        }
    }
    parts.join("/")
}

/// `open`: ids of open known findings; failures that match the precise cause rule of an open finding
/// are pushed to `attributed` (and the laws go on), everything else is returned as a failure.
fn direct_laws(sc: &Scenario, outs: &[OpOut], open: &[String], attributed: &mut Vec<&'static str>) -> Option<(String, String)> {
    let is_open = |id: &str| open.iter().any(|x| x == id);
    let all_raw: Vec<&String> = outs.iter().flat_map(|o| o.events.iter()).collect();
    // module_imported_callback paths are compared as files: `D:<normalised path>`
    let normed: Vec<String> = all_raw
        .iter()
        .map(|e| if let Some(p) = e.strip_prefix("D:") { format!("D:{}", norm_rel(p)) } else { (*e).clone() })
        .collect();
    let all: Vec<&String> = normed.iter().collect();
    // unknown output lines
    if let Some(e) = all.iter().find(|e| e.starts_with('?')) {
        return Some(("wellformed-output".into(), format!("unexpected output line {}", e)));
    }
    let infos = mod_infos(sc)?;
    for mi in &infos {
        let d_ev = format!("D:{}", mi.rel);
        // run-once: a module is reported as imported at most once per runtime …
        let d_positions: Vec<usize> = all.iter().enumerate().filter(|(_, e)| ***e == d_ev).map(|(i, _)| i).collect();
        if d_positions.len() > 1 {
            // cause rule of F-C18-3: the same file was imported under different path spellings
            let spellings: BTreeSet<&String> = d_positions.iter().map(|i| all_raw[*i]).collect();
            if spellings.len() == d_positions.len() && is_open("F-C18-3") {
                attributed.push("F-C18-3");
                continue;
            }
            return Some(("run-once".into(), format!("{} imported successfully {} times", mi.rel, d_positions.len())));
        }
        if let Some(top) = mi.top {
            let top_ev = format!("P{}", top);
            let tops: Vec<usize> = all.iter().enumerate().filter(|(_, e)| ***e == top_ev).map(|(i, _)| i).collect();
            if let Some(dpos) = d_positions.first() {
                // … its top level never runs again after that …
                if tops.iter().any(|t| t > dpos) {
                    return Some(("run-once".into(), format!("top level of {} ran again after its successful import", mi.rel)));
                }
                // … and ran for that import
                let Some(start) = tops.iter().rev().find(|t| *t < dpos).copied() else {
                    return Some(("run-once".into(), format!("{} reported imported but its top level never ran", mi.rel)));
                };
                if mi.simple {
                    // phase order inside the successful load: top level → tests (if enabled) → @main → done
                    let seg: Vec<&String> = all[start..*dpos].to_vec();
                    let pos = |m: u32| -> Vec<usize> {
                        let ev = format!("P{}", m);
                        seg.iter().enumerate().filter(|(_, e)| ***e == ev).map(|(i, _)| i).collect()
                    };
                    let mut last = 0usize;
                    for t in &mi.tests {
                        let ps = pos(*t);
                        if sc.run_import_tests {
                            if ps.len() != 1 {
                                return Some(("phase-order".into(), format!("test marker P{} of {} ran {} times in its successful load", t, mi.rel, ps.len())));
                            }
                            if ps[0] < last {
                                return Some(("phase-order".into(), format!("tests of {} ran out of definition order", mi.rel)));
                            }
                            last = ps[0];
                        } else if !ps.is_empty() {
                            return Some(("phase-order".into(), format!("test P{} of {} ran although run_import_tests is off", t, mi.rel)));
                        }
                    }
                    if let Some(m) = mi.main {
                        let ps = pos(m);
                        if ps.len() != 1 {
                            return Some(("phase-order".into(), format!("@main marker P{} of {} ran {} times in its successful load", m, mi.rel, ps.len())));
                        }
                        if ps[0] < last {
                            return Some(("phase-order".into(), format!("@main of {} ran before its tests", mi.rel)));
                        }
                    }
                }
            }
        }
    }
    // resolution order: when `dir/x.koto` and `dir/x/main.koto` both exist, the directory module is
    // unreachable (every import of `x` from `dir` resolves to the file), so it never runs
    for f in &sc.files {
        if f.path.is_dir && sc.files.iter().any(|g| !g.path.is_dir && g.path.dir == f.path.dir && g.path.name == f.path.name) {
            let d_ev = format!("D:{}", f.path.rel());
            let top_ev = match f.body.as_ref().and_then(|b| b.first()) {
                Some(TAct::A(Act::Print(m))) => Some(format!("P{}", m)),
                _ => None,
            };
            if all.iter().any(|e| **e == d_ev || Some(&**e) == top_ev.as_ref()) {
                return Some(("resolution-order".into(), format!("{} ran although {} exists next to it", f.path.rel(), MPath { is_dir: false, ..f.path.clone() }.rel())));
            }
        }
    }
    // the root script's top level runs once while it is the root script (cause rule of F-C18-8: it is
    // loaded again as a module through an import cycle)
    for (i, o) in sc.ops.iter().enumerate() {
        if o.script.is_none() {
            continue;
        }
        if let (Some(TAct::A(Act::Print(m))), Some(out)) = (o.body.first(), outs.get(i)) {
            let ev = format!("P{}", m);
            let c = out.events.iter().filter(|e| **e == ev).count();
            if c > 1 {
                if is_open("F-C18-8") {
                    attributed.push("F-C18-8");
                } else {
                    return Some(("run-once-root".into(), format!("the top level of the root script of operation {} ran {} times", i, c)));
                }
            }
        }
    }
    // dotted module names: `a.koto` must not run when no import names `a` (only `a.vN` is named)
    {
        let mut named: BTreeSet<Name> = BTreeSet::new();
        let mut bodies: Vec<&Vec<TAct>> = sc.files.iter().filter_map(|f| f.body.as_ref()).collect();
        bodies.extend(sc.ops.iter().map(|o| &o.body));
        for b in bodies {
            for a in acts_of(b) {
                named.extend(imported_names(a));
            }
        }
        for f in &sc.files {
            let n = f.path.name;
            if n < 200 && !named.contains(&n) && named.iter().any(|d| *d >= 200 && (*d - 200) / 10 == n) {
                let d_ev = format!("D:{}", f.path.rel());
                if all.iter().any(|e| **e == d_ev) {
                    if is_open("F-C18-4") {
                        attributed.push("F-C18-4");
                    } else {
                        return Some(("resolution-dotted".into(), format!("{} was imported although only dotted names with this stem are imported", f.path.rel())));
                    }
                }
            }
        }
    }
    // export_top_level_ids: the local bound by an import item (the alias, if any) is in the exports map
    // after a successful script (F-C18-1 id items; F-C18-5 string items)
    for (i, o) in sc.ops.iter().enumerate() {
        let Some(out) = outs.get(i) else { continue };
        if out.result != "ok" || !o.export_top {
            continue;
        }
        let keys = top_level_keys(&out.exports);
        for t in &o.body {
            if let TAct::A(Act::Import(items)) | TAct::A(Act::From(_, items)) = t {
                for it in items {
                    if let Some(tg) = it.target() {
                        if !keys.contains(&kvh::hex(name_str(tg).as_bytes())) {
                            if it.str_ && is_open("F-C18-5") {
                                attributed.push("F-C18-5");
                            } else if !it.str_ && it.as_.is_some() && is_open("F-C18-1") {
                                attributed.push("F-C18-1");
                            } else {
                                return Some(("import-binding-exported".into(), format!("after operation {} the local {} bound by a top-level import is not in the exports map", i, name_str(tg))));
                            }
                        }
                    }
                }
            }
        }
    }
    // cycle reporting only for cycles: an acyclic graph never yields the recursive-import error
    // (a placeholder left behind by a failed import would)
    if !name_graph_cyclic(sc) {
        for (i, o) in outs.iter().enumerate() {
            if o.result == "E:rec" || o.events.iter().any(|e| e.ends_with(":rec")) {
                return Some(("rollback".into(), format!("operation {} reports a recursive import but the import graph is acyclic", i)));
            }
        }
    }
    // importer's exports restored: without export_top_level_ids, the host exports only contain keys
    // that host scripts export themselves
    if sc.ops.iter().all(|o| !o.export_top) {
        let mut allowed: BTreeSet<String> = BTreeSet::new();
        // cause rule of F-C18-6: keys exported by the body of an exported function of a MODULE end up in
        // the exports of whoever calls the function — here the host
        let mut fn_keys: BTreeSet<String> = BTreeSet::new();
        for f in &sc.files {
            for t in f.body.iter().flatten() {
                if let TAct::Fn(_, _, body) = t {
                    for a in body {
                        for k in act_binds(a) {
                            if matches!(a, Act::Export(..) | Act::ExportId(..) | Act::Pat(true, ..)) {
                                fn_keys.insert(kvh::hex(name_str(k).as_bytes()));
                            }
                        }
                        if let Act::Cb(_, _, k) = a {
                            fn_keys.insert(kvh::hex(name_str(*k).as_bytes()));
                        }
                    }
                }
            }
        }
        let mut host_called = false;
        for (i, o) in sc.ops.iter().enumerate() {
            if o.body.iter().any(|t| matches!(t, TAct::CallM(..) | TAct::Call(_))) {
                host_called = true;
            }
            for t in &o.body {
                if let TAct::Fn(k, _, _) = t {
                    allowed.insert(kvh::hex(name_str(*k).as_bytes()));
                }
            }
            for a in acts_of(&o.body) {
                if let Act::Export(k, _) | Act::ExportId(k, _) | Act::Cb(_, _, k) = a {
                    allowed.insert(kvh::hex(name_str(*k).as_bytes()));
                }
                if let Act::Pat(true, ts, _) = a {
                    for k in ts.iter().flat_map(target_bound) {
                        allowed.insert(kvh::hex(name_str(k).as_bytes()));
                    }
                }
            }
            let ex = &outs.get(i)?.exports;
            for key in top_level_keys(ex) {
                if !allowed.contains(&key) {
                    if host_called && fn_keys.contains(&key) && is_open("F-C18-6") {
                        attributed.push("F-C18-6");
                        continue;
                    }
                    return Some(("exports-restored".into(), format!("after operation {} the host exports contain key {} that no host script exported", i, key)));
                }
            }
        }
    }
    // final values: the integer content of the host exports is re-computed from the host scripts alone
    // (assignments, compound assignments incl. loops and conditionals, multi-assignments; everything
    // else makes the touched keys unknown) and compared with exports() after every successful script
    {
        let mut exp: BTreeMap<Name, Option<i64>> = BTreeMap::new(); // None = unknown
        let mut all_unknown = false;
        for (i, o) in sc.ops.iter().enumerate() {
            let Some(out) = outs.get(i) else { break };
            if out.result != "ok" {
                break; // a failed script stops somewhere in the middle
            }
            let et = o.export_top;
            let mut loc: BTreeMap<Name, Option<i64>> = BTreeMap::new();
            for t in &o.body {
                let TAct::A(a) = t else {
                    all_unknown = true; // functions may export anything
                    continue;
                };
                let set = |k: Name, v: Option<i64>, local: bool, export: bool, loc: &mut BTreeMap<Name, Option<i64>>, exp: &mut BTreeMap<Name, Option<i64>>| {
                    if local {
                        loc.insert(k, v);
                    }
                    if export {
                        exp.insert(k, v);
                    }
                };
                match a {
                    Act::Assign(k, v) => set(*k, Some(*v), true, et, &mut loc, &mut exp),
                    Act::Export(k, v) => set(*k, Some(*v), true, true, &mut loc, &mut exp),
                    Act::ExportId(k, _) => set(*k, None, true, true, &mut loc, &mut exp),
                    Act::Cond(f, k, v) => {
                        if *f == 1 {
                            if !loc.contains_key(k) {
                                loc.insert(*k, None);
                            }
                        } else {
                            set(*k, Some(*v), true, et, &mut loc, &mut exp)
                        }
                    }
                    Act::Cmp(k, op, r) | Act::Loop(_, k, op, r) => {
                        if let Act::Loop(..) = a {
                            // the loop variable is a local (null after the loop), exported like any top-level id
                            loc.insert(89, None);
                            if et {
                                exp.insert(89, None);
                            }
                        }
                        let n = if let Act::Loop(n, ..) = a { *n } else { 1 };
                        for _ in 0..n {
                            let cur = if loc.contains_key(k) { loc[k] } else { exp.get(k).copied().flatten() };
                            let val = match (cur, r) {
                                (Some(x), Rhs::Lit(b)) => Some(op.apply(x, *b)),
                                _ => None,
                            };
                            let is_local = loc.contains_key(k);
                            set(*k, val, is_local, et, &mut loc, &mut exp);
                        }
                    }
                    Act::Pat(e, ts, rs) => {
                        let export = *e || et;
                        let multi = ts.len() > 1;
                        for (idx, tg) in ts.iter().enumerate() {
                            match tg {
                                Target::Id(k) => {
                                    let v = match rs.get(idx) {
                                        Some(Rhs::Lit(v)) if multi || rs.len() == 1 => Some(*v),
                                        _ => None,
                                    };
                                    set(*k, v, true, export, &mut loc, &mut exp);
                                }
                                Target::Ignored => {}
                                Target::Map(es) => {
                                    for en in es {
                                        if let Some(k) = en.target {
                                            set(k, None, true, export, &mut loc, &mut exp);
                                        }
                                    }
                                }
                            }
                        }
                    }
                    Act::Import(items) | Act::From(_, items) => {
                        for it in items {
                            if let Some(tg) = it.target() {
                                set(tg, None, true, et, &mut loc, &mut exp);
                            }
                            if et {
                                exp.insert(it.name, None);
                            }
                        }
                    }
                    Act::FromAll(_) => {
                        if et {
                            all_unknown = true;
                        }
                    }
                    Act::Cb(t, n, k) => {
                        let last = cb_last(*t, *n);
                        if last > 0 {
                            exp.insert(*k, Some(last as i64));
                        }
                    }
                    Act::Print(_) | Act::Show(..) | Act::Try(..) | Act::TShow(..) | Act::Fail(_) => {}
                }
            }
            if all_unknown {
                for v in exp.values_mut() {
                    *v = None;
                }
                all_unknown = false;
                // keys exported by functions are not tracked: stop comparing for good
                if o.body.iter().any(|t| !matches!(t, TAct::A(_))) || sc.ops[..=i].iter().any(|p| p.body.iter().any(|t| !matches!(t, TAct::A(_)))) {
                    break;
                }
            }
            let entries = top_level_entries(&out.exports);
            for (k, v) in &exp {
                if let Some(v) = v {
                    let key = kvh::hex(name_str(*k).as_bytes());
                    let want = format!("i{}", v);
                    match entries.iter().find(|(kk, _)| *kk == key) {
                        Some((_, got)) if *got == want => {}
                        other => {
                            return Some((
                                "final-values".into(),
                                format!("after operation {} exports[{}] is {:?}, the host scripts compute {}", i, name_str(*k), other.map(|x| x.1.clone()), want),
                            ));
                        }
                    }
                }
            }
        }
    }
    // export_final / top_level_export_final / reassign_keeps_export, evaluated directly: after a
    // successful host script, `exports[k]` is the value of the last `export k = v` (or, with
    // export_top_level_ids, of the last `k = v` / `export k = v`) unless a later statement of the script
    // may write `k` (export of an id, import item or alias named `k`, wildcard import)
    // (host scripts that define @main/@test are skipped: those functions run after the script and may
    // export as well)
    let host_defs = sc.ops.iter().any(|o| o.body.iter().any(|t| !matches!(t, TAct::A(_))));
    for (i, o) in sc.ops.iter().enumerate() {
        let Some(out) = outs.get(i) else { continue };
        if out.result != "ok" || host_defs {
            continue;
        }
        let acts: Vec<&Act> = o.body.iter().filter_map(|t| if let TAct::A(a) = t { Some(a) } else { None }).collect();
        let entries = top_level_entries(&out.exports);
        // export_pattern_visible: every id bound by an exported (multi-)assignment — plain ids and ids
        // bound inside map patterns, with or without `as` — is a key of the exports map
        for a in acts.iter() {
            if let Act::Pat(e, ts, _) = a {
                if *e || o.export_top {
                    for k in ts.iter().flat_map(target_bound) {
                        let key = kvh::hex(name_str(k).as_bytes());
                        if !entries.iter().any(|(kk, _)| *kk == key) {
                            return Some((
                                "export-pattern".into(),
                                format!("after operation {} the id {} bound by an exported assignment is not in the exports map", i, name_str(k)),
                            ));
                        }
                    }
                }
            }
        }
        // (statement index, key, expected integer) for statements that export a literal
        let mut lits: Vec<(usize, Name, i64)> = vec![];
        for (j, a) in acts.iter().enumerate() {
            match a {
                Act::Export(k, v) => lits.push((j, *k, *v)),
                Act::Assign(k, v) if o.export_top => lits.push((j, *k, *v)),
                Act::Pat(e, ts, rs) if *e || o.export_top => {
                    // within one statement the last binding of a key wins: only keep keys bound once
                    let all: Vec<Name> = ts.iter().flat_map(target_bound).collect();
                    for (idx, t) in ts.iter().enumerate() {
                        if let (Target::Id(k), Some(Rhs::Lit(v))) = (t, rs.get(idx)) {
                            if all.iter().filter(|x| **x == *k).count() == 1 {
                                lits.push((j, *k, *v));
                            }
                        }
                    }
                }
                _ => {}
            }
        }
        for (j, k, v) in lits {
            let later_writes = acts[j + 1..].iter().any(|b| match b {
                Act::Export(k2, _) | Act::ExportId(k2, _) => *k2 == k,
                Act::Assign(k2, _) => o.export_top && *k2 == k,
                Act::Import(items) | Act::From(_, items) => o.export_top && items.iter().any(|it| it.name == k || it.as_ == Some(k)),
                Act::FromAll(_) => o.export_top,
                Act::Pat(e2, ts2, _) => (*e2 || o.export_top) && ts2.iter().flat_map(target_bound).any(|x| x == k),
                Act::Cmp(k2, ..) | Act::Loop(_, k2, ..) | Act::Cond(_, k2, _) => o.export_top && *k2 == k,
                Act::Cb(_, _, k2) => *k2 == k,
                _ => false,
            });
            if later_writes {
                continue;
            }
            let key = kvh::hex(name_str(k).as_bytes());
            let want = format!("i{}", v);
            match entries.iter().find(|(kk, _)| *kk == key) {
                Some((_, got)) if *got == want => {}
                other => {
                    return Some((
                        "export-final".into(),
                        format!("after operation {} exports[{}] is {:?}, expected {} (statement {})", i, name_str(k), other.map(|x| x.1.clone()), want, j),
                    ));
                }
            }
        }
    }
    None
}

/// (key xhex, canonical value text) at depth 1 of a canonical `(m (s<xhex> v) …)` text
fn top_level_entries(canon: &str) -> Vec<(String, String)> {
    let b = canon.as_bytes();
    let mut depth = 0i32;
    let mut out = vec![];
    let mut start = 0usize;
    for i in 0..b.len() {
        match b[i] {
            b'(' => {
                depth += 1;
                if depth == 2 {
                    start = i;
                }
            }
            b')' => {
                if depth == 2 {
                    let entry = &canon[start + 1..i];
                    if let Some(rest) = entry.strip_prefix('s') {
                        if let Some((k, v)) = rest.split_once(' ') {
                            out.push((k.to_string(), v.to_string()));
                        }
                    }
                }
                depth -= 1;
            }
            _ => {}
        }
    }
    out
}

/// keys (as xhex) at depth 1 of a canonical `(m (s<xhex> v) …)` text
fn top_level_keys(canon: &str) -> Vec<String> {
    let b = canon.as_bytes();
    let mut depth = 0i32;
    let mut keys = vec![];
    let mut i = 0;
    while i < b.len() {
        match b[i] {
            b'(' => {
                depth += 1;
                if depth == 2 && i + 1 < b.len() && b[i + 1] == b's' {
                    let rest = &canon[i + 2..];
                    let k = rest.split(' ').next().unwrap_or("");
                    keys.push(k.to_string());
                }
            }
            b')' => depth -= 1,
            _ => {}
        }
        i += 1;
    }
    keys
}

// ------------------------------------------------------------------------------------------------
// generators

struct Gen<'a> {
    rng: &'a mut Rng,
    marker: u32,
    /// names bound so far in the body being generated (locals), and names likely visible as non-locals
    bound: Vec<Name>,
    visible: Vec<Name>,
    /// avoid the documented shape of F-C18-2 while that finding is open
    filter_f2: bool,
    /// locals of the current body that (probably) hold a module's exports map
    mod_bound: Vec<Name>,
    /// ids that (probably) hold integers, and how many `^=` were generated (values must stay small)
    int_bound: Vec<Name>,
    pows: u32,
}

fn act_binds(a: &Act) -> Vec<Name> {
    match a {
        Act::Export(k, _) | Act::Assign(k, _) | Act::ExportId(k, _) => vec![*k],
        Act::Import(items) | Act::From(_, items) => items.iter().filter_map(|i| i.target()).collect(),
        Act::Pat(_, ts, _) => ts.iter().flat_map(target_bound).collect(),
        Act::Cond(_, k, _) => vec![*k],
        _ => vec![],
    }
}

const KEYS: &[Name] = &[60, 61, 62, 63];

impl<'a> Gen<'a> {
    fn mk(&mut self) -> u32 {
        self.marker += 1;
        self.marker
    }

    fn key(&mut self, mods: &[Name]) -> Name {
        if self.rng.chance(1, 8) {
            // names that coincide with prelude entries (`size`, `type`, `copy`)
            *self.rng.pick(&[90, 91, 92])
        } else if self.rng.chance(1, 8) && !mods.is_empty() {
            *self.rng.pick(mods)
        } else {
            *self.rng.pick(KEYS)
        }
    }

    /// a compound assignment / loop / conditional assignment on an id that probably holds an integer
    fn arith_act(&mut self, mods: &[Name]) -> Act {
        let k = if !self.int_bound.is_empty() && self.rng.chance(5, 6) { *self.rng.pick(&self.int_bound.clone()) } else { self.key(mods) };
        let (op, r) = match self.rng.weighted(&[4, 3, 2, 2, if self.pows < 2 { 1 } else { 0 }]) {
            0 => (COp::Add, self.rng.range(-3, 9)),
            1 => (COp::Sub, self.rng.range(-3, 9)),
            2 => (COp::Mul, self.rng.range(-2, 3)),
            3 => (COp::Rem, *self.rng.pick(&[2, 3, 5, -2])),
            _ => {
                self.pows += 1;
                (COp::Pow, self.rng.range(0, 2))
            }
        };
        let rhs = if matches!(op, COp::Add | COp::Sub) && !self.int_bound.is_empty() && self.rng.chance(1, 5) {
            Rhs::Ref(*self.rng.pick(&self.int_bound.clone()))
        } else {
            Rhs::Lit(r)
        };
        match self.rng.weighted(&[6, 2, 3]) {
            0 => Act::Cmp(k, op, rhs),
            1 => Act::Loop(self.rng.below(4) as u32, k, if op == COp::Pow || op == COp::Mul { COp::Add } else { op }, rhs),
            _ => Act::Cond(self.rng.below(3) as u32, k, self.rng.range(-3, 40)),
        }
    }

    fn item(&mut self, pool: &[Name], allow_as: bool) -> Item {
        let name = *self.rng.pick(pool);
        let as_ = if allow_as && self.rng.chance(1, 3) { Some(*self.rng.pick(&[60, 61, 62, 63, 64, 65])) } else { None };
        Item { name, as_, ..Default::default() }
    }

    /// an import statement in one of the forms; `targets` = names worth importing here
    fn import_act(&mut self, targets: &[Name], all_names: &[Name], string_ok: bool) -> Act {
        let m = if self.rng.chance(1, 12) || targets.is_empty() { *self.rng.pick(all_names) } else { *self.rng.pick(targets) };
        match self.rng.weighted(&[5, 4, 3, if string_ok { 3 } else { 0 }]) {
            0 => {
                let mut items = vec![Item { name: m, as_: if self.rng.chance(1, 3) { Some(*self.rng.pick(&[64, 65, 60])) } else { None }, ..Default::default() }];
                if self.rng.chance(1, 6) {
                    // string form: binds only through `as`
                    items[0].str_ = true;
                }
                if self.rng.chance(1, 5) && !targets.is_empty() {
                    items.push(self.item(targets, true));
                }
                Act::Import(items)
            }
            1 => {
                let n = 1 + self.rng.below(2);
                let mut items: Vec<Item> = (0..n).map(|_| self.item(&[60, 61, 62, 63, 60, 61], true)).collect();
                if self.rng.chance(1, 6) {
                    items[0].str_ = true;
                }
                Act::From(m.into(), items)
            }
            2 => Act::FromAll(m.into()),
            _ => {
                let mk = self.mk();
                Act::Try(m.into(), mk)
            }
        }
    }

    /// one map-pattern entry over the usual export keys
    fn pentry(&mut self) -> PEntry {
        let key = *self.rng.pick(KEYS);
        let target = match self.rng.weighted(&[4, 4, 2]) {
            0 => Some(key),
            1 => Some(*self.rng.pick(&[60, 61, 62, 63, 64, 65])),
            _ => None,
        };
        PEntry { key, target, str_key: target.is_some() && self.rng.chance(1, 5) }
    }

    /// `[export] t1, t2, … = r1, r2, …` over every target shape the grammar allows in assignments
    /// (id, `_`, map pattern with plain / `as` / string-key / ignored entries); map patterns are matched
    /// against locals that probably hold a module. Envelope: one target ⇒ one right-hand value, several
    /// targets ⇒ at least two values (a single non-tuple value would be iterated).
    fn pat_act(&mut self, mods: &[Name], targets: &[Name], exp: bool) -> Act {
        let n = 1 + self.rng.weighted(&[3, 4, 2]);
        let mut ts = vec![];
        for _ in 0..n {
            let t = match self.rng.weighted(&[5, if n >= 2 { 2 } else { 0 }, 4]) {
                0 => Target::Id(self.key(mods)),
                1 => Target::Ignored,
                _ => {
                    let k = 1 + self.rng.below(3);
                    Target::Map((0..k).map(|_| self.pentry()).collect())
                }
            };
            ts.push(t);
        }
        let m = if n == 1 {
            1
        } else {
            match self.rng.weighted(&[8, 1, 1]) {
                0 => n,
                1 => (n - 1).max(2),
                _ => n + 1,
            }
        };
        let mut rs = vec![];
        for i in 0..m {
            let wants_map = matches!(ts.get(i), Some(Target::Map(_)));
            let r = if wants_map && !self.mod_bound.is_empty() && self.rng.chance(9, 10) {
                Rhs::Ref(*self.rng.pick(&self.mod_bound.clone()))
            } else if wants_map && self.rng.chance(1, 2) && !targets.is_empty() {
                Rhs::Ref(*self.rng.pick(targets))
            } else if self.rng.chance(2, 3) || (self.bound.is_empty() && self.visible.is_empty()) {
                Rhs::Lit(self.rng.range(-3, 40))
            } else {
                Rhs::Ref(self.read_target(targets))
            };
            rs.push(r);
        }
        // generation filter (register aliasing, C01/C03 territory, see requests/C18.md): a map pattern
        // matched against a LOCAL that one of its own entries rebinds reads the later keys from the
        // already overwritten register (`{a as m, b} = m` → "'b' not found in the 'number' module")
        let map_bound: Vec<Name> = ts
            .iter()
            .filter_map(|t| if let Target::Map(es) = t { Some(es.iter().filter_map(|e| e.target).collect::<Vec<_>>()) } else { None })
            .flatten()
            .collect();
        for r in rs.iter_mut() {
            if let Rhs::Ref(k) = r {
                if map_bound.contains(k) {
                    *r = Rhs::Lit(self.rng.range(-3, 40));
                }
            }
        }
        Act::Pat(exp, ts, rs)
    }

    /// an id to read: mostly one that is probably bound (local or visible non-local)
    fn read_target(&mut self, targets: &[Name]) -> Name {
        let mut known: Vec<Name> = self.bound.clone();
        known.extend_from_slice(&self.visible);
        if !known.is_empty() && self.rng.chance(5, 6) {
            *self.rng.pick(&known)
        } else {
            let mut pool: Vec<Name> = KEYS.to_vec();
            pool.extend_from_slice(targets);
            pool.extend_from_slice(&[64, 65]);
            *self.rng.pick(&pool)
        }
    }

    fn simple_act(&mut self, mods: &[Name], targets: &[Name], fail_pct: u32, import_w: u32) -> Act {
        let a = self.simple_act0(mods, targets, fail_pct, import_w);
        self.bound.extend(act_binds(&a));
        if let Act::Export(k, _) | Act::Assign(k, _) | Act::Cond(_, k, _) = &a {
            self.int_bound.push(*k);
        }
        if let Act::FromAll(_) = &a {
            // a wildcard import probably makes the usual export keys visible as non-locals
            self.visible.extend_from_slice(KEYS);
        }
        if let Act::Import(items) = &a {
            self.mod_bound.extend(items.iter().map(|i| i.as_.unwrap_or(i.name)));
        }
        a
    }

    fn simple_act0(&mut self, mods: &[Name], targets: &[Name], fail_pct: u32, import_w: u32) -> Act {
        // reading an id when nothing is bound yet mostly fails with "not found": keep that rare
        let nothing_known = self.bound.is_empty() && self.visible.is_empty();
        let read_w = if nothing_known { 1 } else { 4 };
        if self.rng.chance(1, 9) {
            let exp = self.rng.chance(3, 5);
            return self.pat_act(mods, targets, exp);
        }
        if self.rng.chance(1, 9) {
            return self.arith_act(mods);
        }
        if self.rng.chance(1, 14) {
            // an export from a callback of a core function (the generator templates define a local
            // `zgen`: host scripts with export_top_level_ids replace them, see host_body)
            let k = self.key(mods);
            return Act::Cb(self.rng.below(CB_COUNT as usize) as u32, self.rng.below(4) as u32, k);
        }
        match self.rng.weighted(&[2, 4, 2, if nothing_known { 0 } else { 1 }, read_w, import_w, fail_pct]) {
            0 => Act::Print(self.mk()),
            1 => Act::Export(self.key(mods), self.rng.range(-3, 40)),
            2 => Act::Assign(self.key(mods), self.rng.range(-3, 40)),
            3 => {
                let k = self.key(mods);
                let src = self.read_target(targets);
                Act::ExportId(k, src)
            }
            4 => {
                let mk = self.mk();
                let src = self.read_target(targets);
                Act::Show(mk, src)
            }
            5 => self.import_act(targets, mods, true),
            _ => Act::Fail(self.mk()),
        }
    }

    fn fn_body(&mut self, mods: &[Name], targets: &[Name], fail_pct: u32) -> Vec<Act> {
        let n = self.rng.below(3);
        let saved = self.bound.clone();
        let b = (0..n).map(|_| self.simple_act(mods, targets, fail_pct, 2)).collect();
        self.bound = saved;
        b
    }

    fn module_body(&mut self, mods: &[Name], targets: &[Name], fail_pct: u32) -> Vec<TAct> {
        self.bound.clear();
        self.visible.clear();
        self.mod_bound.clear();
        let mut b = vec![TAct::A(Act::Print(self.mk()))];
        let n = 1 + self.rng.below(5);
        let mut test_names: Vec<Name> = vec![70, 71, 72];
        let mut has_main = false;
        for _ in 0..n {
            // exported functions and calls (own functions, members of imported modules)
            if self.rng.chance(1, 14) {
                let k = *self.rng.pick(&[74, 75]);
                let mk = self.mk();
                let body = self.fn_body(mods, targets, fail_pct);
                b.push(TAct::Fn(k, mk, body));
                self.bound.push(k);
                continue;
            }
            if self.rng.chance(1, 16) {
                if !self.mod_bound.is_empty() && self.rng.chance(2, 3) {
                    let m = *self.rng.pick(&self.mod_bound.clone());
                    b.push(TAct::CallM(m, *self.rng.pick(&[74, 75, 60])));
                } else {
                    b.push(TAct::Call(*self.rng.pick(&[74, 75])));
                }
                continue;
            }
            match self.rng.weighted(&[12, if has_main { 0 } else { 2 }, if test_names.is_empty() { 0 } else { 2 }]) {
                0 => b.push(TAct::A(self.simple_act(mods, targets, fail_pct, 6))),
                1 => {
                    has_main = true;
                    let mk = self.mk();
                    let body = self.fn_body(mods, targets, fail_pct * 2);
                    b.push(TAct::Main(mk, body));
                }
                _ => {
                    let i = self.rng.below(test_names.len());
                    let name = test_names.remove(i);
                    let mk = self.mk();
                    let body = self.fn_body(mods, targets, fail_pct * 2);
                    b.push(TAct::Test(name, mk, body));
                }
            }
        }
        b
    }

    fn host_body(&mut self, mods: &[Name], targets: &[Name], allow_defs: bool, export_top: bool) -> Vec<TAct> {
        let n = 1 + self.rng.below(4);
        let mut b = vec![];
        self.bound.clear();
        self.mod_bound.clear();
        // envelope: with export_top_level_ids a compound assignment to an id that is not a local of
        // the script puts the id into the compiler's exported-id set, and a function created later in
        // the same script captures such ids by value at creation (failing if they do not exist yet);
        // the model captures locals only, so no function definitions after such a statement
        let mut cmp_on_nonlocal = false;
        for _ in 0..n {
            if self.rng.chance(1, 14) && !self.mod_bound.is_empty() {
                let m = *self.rng.pick(&self.mod_bound.clone());
                b.push(TAct::CallM(m, *self.rng.pick(&[74, 75, 60])));
                continue;
            }
            if allow_defs && !cmp_on_nonlocal && self.rng.chance(1, 40) {
                let mk = self.mk();
                let body = self.fn_body(mods, targets, 1);
                if self.rng.chance(1, 2) {
                    b.push(TAct::Main(mk, body));
                } else {
                    b.push(TAct::Test(73, mk, body));
                }
            } else {
                let mut a = self.simple_act0(mods, targets, 0, 14);
                // generation filter for the shape of F-C18-2 (export_top_level_ids and a wildcard
                // import whose module id is already a local of the same script)
                if export_top && self.filter_f2 {
                    if let Act::FromAll(m) = &a {
                        if !m.str_ && self.bound.contains(&m.name) {
                            let mk = self.mk();
                            a = Act::Try(m.clone(), mk);
                        }
                    }
                }
                if let Act::Cb(t, n, k) = &a {
                    if export_top && *t as usize >= CB_TEMPLATES.len() {
                        a = Act::Cb(0, *n, *k);
                    }
                }
                let binds = act_binds(&a);
                if let Act::Cmp(k, ..) | Act::Loop(_, k, ..) = &a {
                    if export_top && !self.bound.contains(k) {
                        cmp_on_nonlocal = true;
                    }
                }
                if let Act::Export(k, _) | Act::Assign(k, _) | Act::Cond(_, k, _) = &a {
                    self.int_bound.push(*k);
                }
                if let Act::FromAll(_) = &a {
                    self.visible.extend_from_slice(KEYS);
                }
                if let Act::Import(items) = &a {
                    self.mod_bound.extend(items.iter().map(|i| i.as_.unwrap_or(i.name)));
                }
                match &a {
                    Act::Pat(e, ..) if *e || export_top => self.visible.extend(binds.iter().copied()),
                    Act::Export(k, _) | Act::ExportId(k, _) => self.visible.push(*k),
                    Act::Assign(k, _) if export_top => self.visible.push(*k),
                    Act::Import(items) | Act::From(_, items) if export_top => self.visible.extend(items.iter().map(|i| i.name)),
                    _ => {}
                }
                self.bound.extend(binds);
                b.push(TAct::A(a));
            }
        }
        b
    }

    /// random file system + history
    fn random(&mut self) -> Scenario {
        self.marker = 0;
        self.pows = 0;
        self.int_bound.clear();
        let n_names = 2 + self.rng.below(4);
        let mods: Vec<Name> = (0..n_names as Name).collect();
        let fail_pct = *self.rng.pick(&[0u32, 1, 2, 3]);
        let mut files: Vec<FileDef> = vec![];
        // root level
        let mut layout: Vec<MPath> = vec![];
        for m in &mods {
            match self.rng.weighted(&[5, 3, 1, 1]) {
                0 => layout.push(MPath { dir: vec![], name: *m, is_dir: false }),
                1 => layout.push(MPath { dir: vec![], name: *m, is_dir: true }),
                2 => {
                    layout.push(MPath { dir: vec![], name: *m, is_dir: false });
                    layout.push(MPath { dir: vec![], name: *m, is_dir: true });
                }
                _ => {}
            }
        }
        // nested files inside directory modules (names may repeat root-level names)
        let dirs: Vec<MPath> = layout.iter().filter(|p| p.is_dir).cloned().collect();
        for d in &dirs {
            let k = self.rng.below(3);
            for _ in 0..k {
                let name = *self.rng.pick(&mods);
                let is_dir = self.rng.chance(1, 4);
                let p = MPath { dir: d.folder(), name, is_dir };
                if !layout.contains(&p) {
                    layout.push(p);
                }
            }
        }
        // a folder `m/` with helper modules but no main.koto next to `m.koto` (the file must still win)
        let file_only: Vec<MPath> = layout
            .iter()
            .filter(|p| p.dir.is_empty() && !p.is_dir && !layout.iter().any(|q| q.dir.is_empty() && q.is_dir && q.name == p.name))
            .cloned()
            .collect();
        for f in &file_only {
            if self.rng.chance(1, 6) {
                let name = *self.rng.pick(&mods);
                let p = MPath { dir: vec![f.name], name, is_dir: false };
                if !layout.contains(&p) {
                    layout.push(p);
                }
            }
        }
        // a DIRECTORY named `<module>.koto` next to a directory module (it is not a file: `import` must
        // still find `<module>/main.koto`, F-C18-11)
        let mut extra_dirs: Vec<String> = vec![];
        for p in layout.iter().filter(|p| p.is_dir) {
            let file_twin = MPath { is_dir: false, ..p.clone() };
            if !layout.contains(&file_twin) && self.rng.chance(1, 4) {
                extra_dirs.push(file_twin.rel());
            }
        }
        for p in &layout {
            let folder = p.folder();
            // names resolvable from this file's folder
            let targets: Vec<Name> = layout.iter().filter(|q| q.dir == folder).map(|q| q.name).collect();
            let body = if self.rng.chance(1, 40) { None } else { Some(self.module_body(&mods, &targets, fail_pct)) };
            let fn_defaults = if self.rng.chance(1, 2) { 0 } else { self.rng.below(4) as u8 };
            files.push(FileDef { fn_defaults, path: p.clone(), body });
        }
        self.bound.clear();
        self.visible.clear();
        let n_ops = 1 + self.rng.below(5);
        let export_top_mode = self.rng.below(3); // 0 never, 1 sometimes, 2 always
        let mut ops = vec![];
        let folders: Vec<Vec<Name>> = dirs.iter().map(|d| d.folder()).collect();
        for _ in 0..n_ops {
            let dir = if !folders.is_empty() && self.rng.chance(1, 5) { self.rng.pick(&folders).clone() } else { vec![] };
            let targets: Vec<Name> = layout.iter().filter(|q| q.dir == dir).map(|q| q.name).collect();
            let export_top = match export_top_mode {
                0 => false,
                1 => self.rng.chance(1, 2),
                _ => true,
            };
            let body = self.host_body(&mods, &targets, true, export_top);
            let fn_defaults = if self.rng.chance(1, 2) { 0 } else { self.rng.below(4) as u8 };
            ops.push(Op { script: None, fn_defaults, dir, export_top, body });
        }
        Scenario {
            run_import_tests: self.rng.chance(1, 2),
            host_tests: self.rng.chance(1, 2),
            prelude: vec![],
            files,
            ops,
            family: "random".into(),
            flags: Flags::default(),
            extra_dirs,
        }
    }

    /// graph families over flat files: chain, diamond, cycles of length 1–3, with an optional failing
    /// module (top level / @test / @main), imported in several orders, each op importing one root
    fn graph(&mut self) -> Scenario {
        self.marker = 0;
        let kind = self.rng.below(5);
        let n: usize = match kind {
            0 => 3 + self.rng.below(2), // chain
            1 => 4,                     // diamond
            2 => 1,                     // self cycle
            3 => 2,                     // 2-cycle
            _ => 3,                     // 3-cycle
        };
        let mut edges: Vec<Vec<Name>> = vec![vec![]; n];
        match kind {
            0 => {
                for i in 0..n - 1 {
                    edges[i].push((i + 1) as Name);
                }
            }
            1 => {
                edges[0] = vec![1, 2];
                edges[1] = vec![3];
                edges[2] = vec![3];
            }
            _ => {
                for i in 0..n {
                    edges[i].push(((i + 1) % n) as Name);
                }
            }
        }
        // an extra module that imports into the structure, and random extra edges
        let extra = self.rng.chance(1, 2);
        let total = if extra { n + 1 } else { n };
        if extra {
            edges.push(vec![self.rng.below(n) as Name]);
        }
        if self.rng.chance(1, 3) {
            let a = self.rng.below(total);
            let b = self.rng.below(total) as Name;
            edges[a].push(b);
        }
        let failing: Option<(usize, u32)> = if self.rng.chance(1, 2) { Some((self.rng.below(total), self.rng.below(3) as u32)) } else { None };
        let guarded = self.rng.chance(1, 3);
        let as_dir = self.rng.chance(1, 4);
        let mut files = vec![];
        for i in 0..total {
            let mut b = vec![TAct::A(Act::Print(self.mk()))];
            b.push(TAct::A(Act::Export(60, i as i64 + 10)));
            if self.rng.chance(1, 2) {
                let mk = self.mk();
                b.push(TAct::Test(70, mk, if failing == Some((i, 1)) { vec![Act::Fail(self.mk())] } else { vec![] }));
            } else if failing == Some((i, 1)) {
                let mk = self.mk();
                b.push(TAct::Test(70, mk, vec![Act::Fail(self.mk())]));
            }
            if self.rng.chance(1, 2) || failing == Some((i, 2)) {
                let mk = self.mk();
                b.push(TAct::Main(mk, if failing == Some((i, 2)) { vec![Act::Fail(self.mk())] } else { vec![] }));
            }
            for e in &edges[i] {
                if guarded && self.rng.chance(1, 2) {
                    let mk = self.mk();
                    b.push(TAct::A(Act::Try(e.into(), mk)));
                } else {
                    match self.rng.below(3) {
                        0 => b.push(TAct::A(Act::Import(vec![Item { name: *e, as_: None, ..Default::default() }]))),
                        1 => b.push(TAct::A(Act::From(e.into(), vec![Item { name: 60, as_: Some(61), ..Default::default() }]))),
                        _ => b.push(TAct::A(Act::FromAll(e.into()))),
                    }
                }
            }
            if failing == Some((i, 0)) {
                b.push(TAct::A(Act::Fail(self.mk())));
            }
            b.push(TAct::A(Act::Export(62, i as i64 + 20)));
            let is_dir = as_dir && i % 2 == 1;
            files.push(FileDef { fn_defaults: 0, path: MPath { dir: vec![], name: i as Name, is_dir }, body: Some(b) });
        }
        // history: import modules in a random order, some twice
        let n_ops = 2 + self.rng.below(4);
        let mut ops = vec![];
        if self.rng.chance(1, 4) {
            // one of the modules is run as the ROOT script (its file is the script path): cycles that
            // pass through the root script
            let i = self.rng.below(total);
            if !files[i].path.is_dir {
                if let Some(b) = &files[i].body {
                    ops.push(Op { script: Some(i as Name), fn_defaults: 0, dir: vec![], export_top: false, body: b.clone() });
                }
            }
        }
        for _ in 0..n_ops {
            let m = self.rng.below(total) as Name;
            let act = match self.rng.below(4) {
                0 => Act::Import(vec![Item { name: m, as_: None, ..Default::default() }]),
                1 => Act::From(m.into(), vec![Item { name: 60, as_: None, ..Default::default() }, Item { name: 62, as_: Some(63), ..Default::default() }]),
                2 => Act::FromAll(m.into()),
                _ => Act::Try(m.into(), self.mk()),
            };
            let mut body = vec![TAct::A(act)];
            if self.rng.chance(1, 2) {
                let mk = self.mk();
                body.push(TAct::A(Act::Show(mk, *self.rng.pick(&[60, 62, 63, m]))));
            }
            ops.push(Op { script: None, fn_defaults: 0, dir: vec![], export_top: self.rng.chance(1, 4), body });
        }
        Scenario {
            run_import_tests: self.rng.chance(2, 3),
            host_tests: false,
            prelude: vec![],
            files,
            ops,
            family: format!("graph{}", kind),
            flags: Flags::default(),
            extra_dirs: vec![],
        }
    }
}

/// wildcard family: several modules exporting overlapping keys, wildcard-imported in random orders
/// (with repeats: the dedup rule) by a module and by host scripts, read back through non-local
/// lookups at the top level and inside `@test`/`@main` closures created at different points
fn wild_family(rng: &mut Rng) -> Scenario {
    let mut mk = 0u32;
    let mut next = || {
        mk += 1;
        mk
    };
    // `size` (90) coincides with a prelude entry: exports / wildcard imports must win over the prelude
    let keys: [Name; 4] = [60, 61, 62, 90];
    let mut files = vec![];
    for i in 0..3u32 {
        let mut b = vec![TAct::A(Act::Print(next()))];
        for (j, k) in keys.iter().enumerate() {
            if rng.chance(2, 3) {
                b.push(TAct::A(Act::Export(*k, (10 * (i + 1) + j as u32) as i64)));
            }
        }
        files.push(FileDef { fn_defaults: 0, path: MPath { dir: vec![], name: i, is_dir: false }, body: Some(b) });
    }
    // m3: wildcard imports interleaved with closures
    let mut b = vec![TAct::A(Act::Print(next()))];
    let n = 2 + rng.below(3);
    let mut test_name = 70;
    for _ in 0..n {
        b.push(TAct::A(Act::FromAll((rng.below(3) as Name).into())));
        match rng.below(4) {
            0 => {
                let tm = next();
                let body: Vec<Act> = keys.iter().filter(|_| rng.chance(1, 2)).map(|k| Act::Show(next(), *k)).collect();
                b.push(TAct::Test(test_name, tm, body));
                test_name += 1;
            }
            1 => b.push(TAct::A(Act::Show(next(), *rng.pick(&keys)))),
            2 => b.push(TAct::A(Act::Export(*rng.pick(&keys), 900 + rng.below(9) as i64))),
            _ => {}
        }
    }
    let mm = next();
    let body: Vec<Act> = keys.iter().map(|k| Act::Show(next(), *k)).collect();
    b.push(TAct::Main(mm, body));
    files.push(FileDef { fn_defaults: 0, path: MPath { dir: vec![], name: 3, is_dir: false }, body: Some(b) });
    let mut ops = vec![];
    let export_top = rng.chance(1, 3);
    ops.push(Op { script: None, fn_defaults: 0, dir: vec![], export_top: false, body: vec![TAct::A(Act::Try(3.into(), next()))] });
    let mut body = vec![];
    if rng.chance(1, 3) {
        body.push(TAct::A(Act::Export(*rng.pick(&keys), 700)));
    }
    for _ in 0..(2 + rng.below(3)) {
        body.push(TAct::A(Act::FromAll((rng.below(3) as Name).into())));
    }
    for k in keys.iter() {
        if rng.chance(2, 3) {
            body.push(TAct::A(Act::Show(next(), *k)));
        }
    }
    ops.push(Op { script: None, fn_defaults: 0, dir: vec![], export_top, body });
    let mut body2 = vec![];
    for k in keys.iter() {
        if rng.chance(1, 2) {
            body2.push(TAct::A(Act::Show(next(), *k)));
        }
    }
    body2.push(TAct::A(Act::Print(next())));
    ops.push(Op { script: None, fn_defaults: 0, dir: vec![], export_top, body: body2 });
    Scenario { run_import_tests: rng.chance(2, 3), host_tests: false, prelude: vec![], files, ops, family: "wildcards".into(), flags: Flags::default(), extra_dirs: vec![] }
}

/// nested from-path family: three levels of modules, each exporting its own marker names plus the next
/// level (`m1` ⊃ `m2` ⊃ `m3`; flat files or a directory module with its helpers); wildcard and
/// item imports over from-paths of 1–3 components whose root is a module on disk, a local of the same
/// script, or an export of an earlier script; afterwards EVERY marker name of EVERY level is probed
/// (guarded reads): exactly the names the model says are visible may be found
fn nested_family(rng: &mut Rng) -> Scenario {
    let mut mk = 0u32;
    let mut next = || {
        mk += 1;
        mk
    };
    let dir_variant = rng.chance(1, 2);
    let base: Vec<Name> = if dir_variant { vec![1] } else { vec![] };
    let mut files = vec![];
    // level 3
    files.push(FileDef { fn_defaults: 0, path: MPath { dir: base.clone(), name: 3, is_dir: false }, body: Some(vec![TAct::A(Act::Print(next())), TAct::A(Act::Export(63, 33)), TAct::A(Act::Export(65, 35))]) });
    // level 2 (a file, or a directory module of its own when the root is flat)
    let m2_dir = !dir_variant && rng.chance(1, 3);
    let mut b2 = vec![TAct::A(Act::Print(next()))];
    if m2_dir {
        // m2/main.koto finds m3 next to itself
        files.push(FileDef { fn_defaults: 0, path: MPath { dir: vec![2], name: 3, is_dir: false }, body: Some(vec![TAct::A(Act::Print(next())), TAct::A(Act::Export(63, 33)), TAct::A(Act::Export(65, 35))]) });
    }
    b2.push(TAct::A(Act::Import(vec![Item { name: 3, as_: None, ..Default::default() }])));
    b2.push(TAct::A(Act::Export(62, 22)));
    b2.push(TAct::A(Act::Export(64, 24)));
    b2.push(TAct::A(Act::ExportId(3, 3)));
    files.push(FileDef { fn_defaults: 0, path: MPath { dir: base.clone(), name: 2, is_dir: m2_dir }, body: Some(b2) });
    // level 1
    let mut b1 = vec![TAct::A(Act::Print(next())), TAct::A(Act::Import(vec![Item { name: 2, as_: None, ..Default::default() }])), TAct::A(Act::Export(60, 10)), TAct::A(Act::Export(61, 11)), TAct::A(Act::ExportId(2, 2))];
    if rng.chance(1, 3) {
        b1.push(TAct::Main(next(), vec![]));
    }
    files.push(FileDef { fn_defaults: 0, path: if dir_variant { MPath { dir: vec![], name: 1, is_dir: true } } else { MPath { dir: vec![], name: 1, is_dir: false } }, body: Some(b1) });
    let probes: [Name; 8] = [60, 61, 62, 63, 64, 65, 2, 3];
    let paths: Vec<Vec<Name>> = vec![vec![], vec![2], vec![2, 3], vec![2], vec![2, 3], vec![3], vec![60], vec![2, 62]];
    let stmt = |rng: &mut Rng, root: Ref| -> Act {
        if rng.chance(3, 5) {
            Act::FromAll(root)
        } else {
            let n = 1 + rng.below(2);
            let items = (0..n).map(|_| Item { name: *rng.pick(&probes), as_: if rng.chance(1, 3) { Some(66) } else { None }, ..Default::default() }).collect();
            Act::From(root, items)
        }
    };
    // m4: a module that imports over a nested path and re-exports what it sees
    let sub = rng.pick(&paths).clone();
    let mut b4 = vec![TAct::A(Act::Print(next()))];
    if rng.chance(1, 2) {
        b4.push(TAct::A(Act::Import(vec![Item { name: 1, as_: None, ..Default::default() }])));
    }
    b4.push(TAct::A(stmt(rng, Ref { name: 1, sub, ..Default::default() })));
    for k in probes.iter() {
        if rng.chance(1, 2) {
            b4.push(TAct::A(Act::TShow(next(), *k)));
        }
    }
    b4.push(TAct::Test(70, next(), probes.iter().filter(|_| rng.chance(1, 3)).map(|k| Act::TShow(next(), *k)).collect()));
    files.push(FileDef { fn_defaults: 0, path: MPath { dir: vec![], name: 4, is_dir: false }, body: Some(b4) });
    // host
    let mut ops = vec![];
    for _ in 0..(2 + rng.below(3)) {
        let et = rng.chance(1, 4);
        let mut body = vec![];
        let sub = rng.pick(&paths).clone();
        match rng.below(5) {
            0 => {
                // root is a local of the same script (avoid the F-C18-2 shape: nested paths are fine,
                // a one-component wildcard on a local under export_top_level_ids is fixed too)
                body.push(TAct::A(Act::Import(vec![Item { name: 1, as_: None, ..Default::default() }])));
                body.push(TAct::A(stmt(rng, Ref { name: 1, sub, ..Default::default() })));
            }
            1 => {
                // root under another local name
                body.push(TAct::A(Act::Import(vec![Item { name: 1, as_: Some(67), ..Default::default() }])));
                body.push(TAct::A(stmt(rng, Ref { name: 67, sub, ..Default::default() })));
            }
            2 => {
                body.push(TAct::A(Act::Try(4.into(), next())));
                let sub4 = if rng.chance(1, 2) { vec![] } else { vec![*rng.pick(&probes)] };
                body.push(TAct::A(stmt(rng, Ref { name: 4, sub: sub4, ..Default::default() })));
            }
            3 => {
                // root is a string import with the nested path after it
                body.push(TAct::A(stmt(rng, Ref { name: 1, str_: true, sub, ..Default::default() })));
            }
            _ => body.push(TAct::A(stmt(rng, Ref { name: 1, sub, ..Default::default() }))),
        }
        for k in probes.iter().chain([66u32].iter()) {
            if rng.chance(3, 4) {
                body.push(TAct::A(Act::TShow(next(), *k)));
            }
        }
        if rng.chance(1, 4) {
            body.push(TAct::A(Act::ExportId(1, 1)));
        }
        ops.push(Op { script: None, fn_defaults: 0, dir: vec![], export_top: et, body });
    }
    Scenario { run_import_tests: rng.chance(1, 2), host_tests: false, prelude: vec![], files, ops, family: "nested-paths".into(), flags: Flags::default(), extra_dirs: vec![] }
}

/// top-level-ids family (REPL mode): host scripts that assign, compound-assign (+= -= *= %= ^=, also in
/// `for` loops), assign inside `if`/`match`, and multi-assign ids that were first assigned in the SAME
/// script and in EARLIER scripts, mostly with export_top_level_ids; names include prelude names; after
/// every script exports() is compared with the values the scripts compute ((D) final-values)
fn toplevel_family(rng: &mut Rng) -> Scenario {
    let mut mk = 0u32;
    let mut next = || {
        mk += 1;
        mk
    };
    let ids: [Name; 6] = [60, 61, 62, 63, 90, 91];
    let mut known: Vec<Name> = vec![]; // ids assigned by an earlier statement (any script)
    let mut pows = 0;
    let files = vec![FileDef { fn_defaults: 0, path: MPath { dir: vec![], name: 0, is_dir: false }, body: Some(vec![TAct::A(Act::Print(next())), TAct::A(Act::Export(60, 3)), TAct::A(Act::Export(90, 4))]) }];
    let always = rng.chance(2, 3);
    let mut ops = vec![];
    for _ in 0..(2 + rng.below(4)) {
        let et = always || rng.chance(1, 2);
        let mut body = vec![];
        for _ in 0..(2 + rng.below(5)) {
            let fresh = known.is_empty() || rng.chance(1, 4);
            if fresh {
                let k = *rng.pick(&ids);
                match rng.below(5) {
                    0 => body.push(TAct::A(Act::Export(k, rng.range(0, 20)))),
                    1 => body.push(TAct::A(Act::Cond(rng.below(3) as u32, k, rng.range(0, 20)))),
                    2 => {
                        let k2 = *rng.pick(&ids);
                        body.push(TAct::A(Act::Pat(rng.chance(1, 3), vec![Target::Id(k), Target::Id(k2)], vec![Rhs::Lit(rng.range(0, 20)), Rhs::Lit(rng.range(0, 20))])));
                        known.push(k2);
                    }
                    _ => body.push(TAct::A(Act::Assign(k, rng.range(0, 20)))),
                }
                known.push(k);
            } else {
                let k = *rng.pick(&known);
                let (op, r) = match rng.weighted(&[4, 3, 2, 2, if pows < 2 { 1 } else { 0 }]) {
                    0 => (COp::Add, rng.range(-3, 9)),
                    1 => (COp::Sub, rng.range(-3, 9)),
                    2 => (COp::Mul, rng.range(-2, 3)),
                    3 => (COp::Rem, *rng.pick(&[2, 3, 5, -2])),
                    _ => {
                        pows += 1;
                        (COp::Pow, rng.range(0, 2))
                    }
                };
                let rhs = if matches!(op, COp::Add | COp::Sub) && rng.chance(1, 6) { Rhs::Ref(*rng.pick(&known)) } else { Rhs::Lit(r) };
                if rng.chance(1, 4) && !matches!(op, COp::Mul | COp::Pow) {
                    body.push(TAct::A(Act::Loop(rng.below(4) as u32, k, op, rhs)));
                } else {
                    body.push(TAct::A(Act::Cmp(k, op, rhs)));
                }
            }
            if rng.chance(1, 5) {
                body.push(TAct::A(Act::Show(next(), *rng.pick(&ids))));
            }
            if rng.chance(1, 12) {
                body.push(TAct::A(Act::FromAll(0.into())));
            }
            if rng.chance(1, 8) {
                let k = *rng.pick(&ids);
                body.push(TAct::A(Act::Cb(rng.below(CB_TEMPLATES.len()) as u32, rng.below(4) as u32, k)));
                known.push(k);
            }
        }
        ops.push(Op { script: None, fn_defaults: 0, dir: vec![], export_top: et, body });
    }
    Scenario { run_import_tests: false, host_tests: false, prelude: vec![], files, ops, family: "toplevel".into(), flags: Flags::default(), extra_dirs: vec![] }
}

/// exported functions called across modules: a library exports functions whose bodies export, read
/// non-locals, import; they are called by the library itself, by an importing module and by host
/// scripts (member call `m.f()`, after `from m import f`, through a wildcard import), also values that
/// are not callable and missing members
fn functions_family(rng: &mut Rng) -> Scenario {
    let mut mk = 0u32;
    let mut next = || {
        mk += 1;
        mk
    };
    let keys: [Name; 4] = [60, 61, 62, 91];
    let mut files = vec![];
    // m2: something to import from inside a function
    files.push(FileDef { fn_defaults: 0, path: MPath { dir: vec![], name: 2, is_dir: false }, body: Some(vec![TAct::A(Act::Print(next())), TAct::A(Act::Export(61, 7))]) });
    // the library m0: functions with 0–3 default-valued arguments × 0–3 captured locals × 1–3 reads
    // of ids that cannot be captured (exported later in the module, exported by other functions,
    // provided by a wildcard import), plus exports from callbacks and generator bodies
    let mut b = vec![TAct::A(Act::Print(next()))];
    let lib_defaults = rng.below(4) as u8;
    let wild = rng.chance(1, 2);
    if wild {
        b.push(TAct::A(Act::FromAll(2.into()))); // makes k61 (and nothing else) visible as a non-local
    }
    let n_caps = rng.below(4);
    let caps: Vec<Name> = (0..n_caps).map(|i| 64 + i as Name).collect();
    for (i, c) in caps.iter().enumerate() {
        b.push(TAct::A(Act::Assign(*c, 40 + i as i64)));
    }
    if rng.chance(1, 3) {
        b.push(TAct::A(Act::Export(*rng.pick(&keys), 5)));
    }
    if rng.chance(1, 3) {
        // a LOCAL named like the module that the functions import: import roots are (not) captured
        b.push(TAct::A(Act::Assign(2, 5)));
    }
    let n_fns = 2 + rng.below(2);
    let fn_keys: Vec<Name> = (0..n_fns).map(|i| 70 + i as Name).collect();
    for fk in &fn_keys {
        let mut body = vec![];
        for c in &caps {
            if rng.chance(1, 2) {
                body.push(Act::Show(next(), *c));
            }
        }
        for _ in 0..(1 + rng.below(3)) {
            body.push(Act::Show(next(), *rng.pick(&keys)));
        }
        for _ in 0..rng.below(3) {
            let choice = rng.below(7);
            if choice == 3 {
                body.push(Act::Import(vec![Item { name: 2, as_: Some(63), ..Default::default() }]));
            }
            body.push(match choice {
                0 | 1 => Act::Export(*rng.pick(&keys), 10 + rng.below(9) as i64),
                2 => Act::Cb(rng.below(CB_COUNT as usize) as u32, rng.below(4) as u32, *rng.pick(&keys)),
                3 => Act::Show(next(), 63),
                4 => Act::Cmp(*rng.pick(&keys), COp::Add, Rhs::Lit(1)),
                _ => Act::Assign(*rng.pick(&keys), 90),
            });
        }
        b.push(TAct::Fn(*fk, next(), body));
        if rng.chance(1, 5) {
            b.push(TAct::Call(*fk)); // the library calls its own function: then the export lands in the library
        }
    }
    // SILENT functions (no print): the only non-local need of such a function is the root of its import
    // statement — every import form × roots provided by the module's own exports made before (k66, a
    // module map) / after (k67 a module map, k68 a number) the function's creation, by an enclosing
    // local (k65), by a disk module that nobody imported yet (m3), by the prelude (size)
    let silent = rng.chance(2, 3);
    let mut silent_keys: Vec<Name> = vec![];
    if silent {
        b.push(TAct::A(Act::Import(vec![Item { name: 2, as_: None, ..Default::default() }])));
        b.push(TAct::A(Act::ExportId(66, 2)));
        b.push(TAct::A(Act::Assign(65, 5)));
        for fk in [76u32, 77] {
            if fk == 77 && rng.chance(1, 2) {
                continue;
            }
            let roots: [Name; 6] = [66, 67, 68, 65, 3, 90];
            let r = *rng.pick(&roots);
            let r2 = *rng.pick(&roots);
            let it = |n: Name, a: Option<Name>| Item { name: n, as_: a, ..Default::default() };
            let body = match rng.below(7) {
                0 | 1 => vec![Act::Import(vec![it(r, None)]), Act::ExportId(63, r)],
                2 => vec![Act::Import(vec![it(r, None), it(r2, None)]), Act::ExportId(63, r2)],
                3 => vec![Act::Import(vec![it(r, Some(69))]), Act::ExportId(63, 69)],
                4 => vec![Act::From(r.into(), vec![it(61, None)]), Act::ExportId(63, 61)],
                5 => vec![Act::FromAll(r.into()), Act::Export(63, 1)],
                _ => vec![Act::From(Ref { name: r, sub: vec![61], ..Default::default() }, vec![it(60, None)]), Act::Export(63, 2)],
            };
            b.push(TAct::Fn(fk, 0, body));
            silent_keys.push(fk);
        }
    }
    // the exports the functions read are made AFTER the functions were created
    if silent {
        b.push(TAct::A(Act::ExportId(67, 2)));
        b.push(TAct::A(Act::Export(68, 9)));
        if rng.chance(1, 3) {
            b.push(TAct::Call(*rng.pick(&silent_keys)));
            b.push(TAct::A(Act::TShow(next(), 63)));
        }
    }
    for k in keys.iter() {
        if rng.chance(2, 3) {
            b.push(TAct::A(Act::Export(*k, 20 + rng.below(9) as i64)));
        }
    }
    if rng.chance(1, 3) {
        b.push(TAct::A(Act::Cb(rng.below(CB_COUNT as usize) as u32, 1 + rng.below(3) as u32, *rng.pick(&keys))));
    }
    if rng.chance(1, 3) {
        let body = vec![Act::Show(next(), *rng.pick(&keys)), Act::Cb(rng.below(CB_COUNT as usize) as u32, 2, *rng.pick(&keys))];
        b.push(TAct::Main(next(), body));
    }
    if rng.chance(1, 3) {
        b.push(TAct::Call(*rng.pick(&fn_keys)));
    }
    files.push(FileDef { fn_defaults: lib_defaults, path: MPath { dir: vec![], name: 0, is_dir: false }, body: Some(b) });
    files.push(FileDef { fn_defaults: 0, path: MPath { dir: vec![], name: 3, is_dir: false }, body: Some(vec![TAct::A(Act::Print(next())), TAct::A(Act::Export(61, 8))]) });
    // m1 imports the library and calls into it
    let mut b = vec![TAct::A(Act::Print(next())), TAct::A(Act::Import(vec![Item { name: 0, as_: None, ..Default::default() }]))];
    for _ in 0..(1 + rng.below(3)) {
        match rng.below(4) {
            0 | 1 => b.push(TAct::CallM(0, *rng.pick(&fn_keys))),
            2 => b.push(TAct::A(Act::Show(next(), *rng.pick(&keys)))),
            _ => b.push(TAct::A(Act::Export(*rng.pick(&keys), 30))),
        }
    }
    if !silent_keys.is_empty() && rng.chance(1, 2) {
        b.push(TAct::CallM(0, *rng.pick(&silent_keys)));
        b.push(TAct::A(Act::TShow(next(), 63)));
    }
    files.push(FileDef { fn_defaults: 0, path: MPath { dir: vec![], name: 1, is_dir: false }, body: Some(b) });
    // host
    let mut ops = vec![];
    for _ in 0..(2 + rng.below(3)) {
        let mut body = vec![];
        let style = rng.below(5);
        match style {
            0 => {
                body.push(TAct::A(Act::Import(vec![Item { name: 1, as_: None, ..Default::default() }])));
                body.push(TAct::A(Act::Show(next(), 1)));
            }
            1 => {
                let f = *rng.pick(&fn_keys);
                body.push(TAct::A(Act::From(0.into(), vec![Item { name: f, as_: None, ..Default::default() }])));
                body.push(TAct::Call(f));
            }
            2 => {
                body.push(TAct::A(Act::FromAll(0.into())));
                body.push(TAct::Call(*rng.pick(&fn_keys)));
            }
            _ => {
                body.push(TAct::A(Act::Import(vec![Item { name: 0, as_: None, ..Default::default() }])));
                for _ in 0..(1 + rng.below(3)) {
                    let k = if rng.chance(1, 8) { *rng.pick(&[60, 79]) } else { *rng.pick(&fn_keys) };
                    body.push(TAct::CallM(0, k));
                }
                if rng.chance(1, 3) {
                    body.push(TAct::A(Act::Show(next(), 0)));
                }
            }
        }
        if !silent_keys.is_empty() && rng.chance(1, 2) {
            body.push(TAct::A(Act::Import(vec![Item { name: 0, as_: Some(64), ..Default::default() }])));
            body.push(TAct::CallM(64, *rng.pick(&silent_keys)));
            body.push(TAct::A(Act::TShow(next(), 63)));
        }
        for k in keys.iter() {
            if rng.chance(1, 3) {
                body.push(TAct::A(Act::Show(next(), *k)));
            }
        }
        ops.push(Op { script: None, fn_defaults: 0, dir: vec![], export_top: rng.chance(1, 5), body });
    }
    Scenario { run_import_tests: false, host_tests: false, prelude: vec![], files, ops, family: "functions".into(), flags: Flags::default(), extra_dirs: vec![] }
}

/// a spelling of the module `name` in folder `to` as seen from folder `from`: `..` up to the common
/// ancestor, then down; optionally with a leading `./`, or with a detour `d/..` through an existing
/// directory `d` (path components must exist on disk for the OS to resolve them)
fn spelling(rng: &mut Rng, from: &[Name], to: &[Name], name: Name, dirs: &[Vec<Name>]) -> Ref {
    let common = from.iter().zip(to.iter()).take_while(|(a, b)| a == b).count();
    let mut segs: Vec<Option<Name>> = vec![];
    for _ in common..from.len() {
        segs.push(None);
    }
    // detour at the common ancestor
    if rng.chance(1, 4) {
        let anc = &from[..common];
        let kids: Vec<Name> = dirs.iter().filter(|d| d.len() == anc.len() + 1 && d[..anc.len()] == *anc).map(|d| d[anc.len()]).collect();
        if !kids.is_empty() {
            segs.push(Some(*rng.pick(&kids)));
            segs.push(None);
        }
    }
    for d in &to[common..] {
        segs.push(Some(*d));
    }
    Ref { name, str_: true, segs, dot: rng.chance(1, 6), sub: vec![] }
}

/// path-spelling family: one shared module reached from several folders under different spellings
/// (`'../m1'`, `'m5/../m1'`, `'./m1'`, `m1`), a shadowing module of the same name in a sub-folder,
/// nested directory modules, dotted module names next to their stems, string import items with and
/// without `as` under export_top_level_ids
fn spellings_family(rng: &mut Rng) -> Scenario {
    let mut mk = 0u32;
    let mut next = || {
        mk += 1;
        mk
    };
    let dirs: Vec<Vec<Name>> = vec![vec![5], vec![6], vec![5, 4]];
    let mut files: Vec<FileDef> = vec![];
    let imp = |r: Ref, as_: Option<Name>| -> Act { Act::Import(vec![Item { name: r.name, as_, str_: r.str_, segs: r.segs.clone() }]) };
    // the shared module, optionally with dotted siblings
    let mut b = vec![TAct::A(Act::Print(next())), TAct::A(Act::Export(60, 1))];
    if rng.chance(1, 3) {
        b.push(TAct::Main(next(), vec![]));
    }
    if rng.chance(1, 4) {
        // imports itself under another spelling (guarded)
        let r = Ref { name: 1, str_: true, segs: vec![Some(5), None], dot: false, sub: vec![] };
        b.push(TAct::A(Act::Try(r, next())));
    }
    files.push(FileDef { fn_defaults: 0, path: MPath { dir: vec![], name: 1, is_dir: false }, body: Some(b) });
    let dotted_file = rng.chance(1, 2);
    if dotted_file {
        files.push(FileDef { fn_defaults: 0, path: MPath { dir: vec![], name: 212, is_dir: false }, body: Some(vec![TAct::A(Act::Print(next())), TAct::A(Act::Export(60, 2))]) });
    }
    let dotted_dir = rng.chance(1, 3);
    if dotted_dir {
        files.push(FileDef { fn_defaults: 0, path: MPath { dir: vec![], name: 213, is_dir: true }, body: Some(vec![TAct::A(Act::Print(next())), TAct::A(Act::Export(60, 3))]) });
    }
    let dotted_only = rng.chance(1, 3);
    if dotted_only {
        // m2.v1.koto without m2.koto at the root
        files.push(FileDef { fn_defaults: 0, path: MPath { dir: vec![], name: 221, is_dir: false }, body: Some(vec![TAct::A(Act::Print(next())), TAct::A(Act::Export(60, 4))]) });
    }
    if rng.chance(1, 3) {
        // a module of the same name in m5/ shadows the root one for `import m1` from m5/
        files.push(FileDef { fn_defaults: 0, path: MPath { dir: vec![5], name: 1, is_dir: false }, body: Some(vec![TAct::A(Act::Print(next())), TAct::A(Act::Export(60, 50))]) });
    }
    // importers in sub-folders
    for (dir, name, is_dir) in [(vec![5], 2u32, false), (vec![6], 3, false), (vec![5], 4, true)] {
        let folder = { let mut d = dir.clone(); if is_dir { d.push(name); } d };
        let mut b = vec![TAct::A(Act::Print(next()))];
        let r = spelling(rng, &folder, &[], 1, &dirs);
        if rng.chance(1, 4) {
            b.push(TAct::A(Act::From(r, vec![Item { name: 60, as_: Some(61), ..Default::default() }])));
        } else {
            b.push(TAct::A(imp(r, Some(61))));
        }
        b.push(TAct::A(Act::ExportId(62, 61)));
        if name == 3 && rng.chance(1, 2) {
            let r = spelling(rng, &folder, &[5], 2, &dirs);
            b.push(TAct::A(imp(r, Some(63))));
        }
        files.push(FileDef { fn_defaults: 0, path: MPath { dir, name, is_dir }, body: Some(b) });
    }
    // host scripts from several folders
    let host_dirs: Vec<Vec<Name>> = vec![vec![], vec![], vec![5], vec![6], vec![5, 4]];
    let targets: Vec<(Vec<Name>, Name)> = vec![(vec![], 1), (vec![], 1), (vec![5], 2), (vec![6], 3), (vec![5], 4)];
    let mut ops = vec![];
    for _ in 0..(2 + rng.below(4)) {
        let dir = rng.pick(&host_dirs).clone();
        let et = rng.chance(1, 3);
        let mut body = vec![];
        for _ in 0..(1 + rng.below(3)) {
            let alias = *rng.pick(&[64, 65, 66]);
            match rng.below(7) {
                0 if dir.is_empty() => body.push(TAct::A(Act::Import(vec![Item { name: 1, as_: None, ..Default::default() }]))),
                1 => {
                    // dotted names, from the root folder
                    let name = *rng.pick(&[212, 213, 221, 234]);
                    let r = spelling(rng, &dir, &[], name, &dirs);
                    if rng.chance(1, 3) { body.push(TAct::A(Act::Try(r, next()))); } else { body.push(TAct::A(imp(r, Some(alias)))); }
                }
                2 => {
                    let (td, tn) = rng.pick(&targets).clone();
                    body.push(TAct::A(Act::FromAll(spelling(rng, &dir, &td, tn, &dirs))));
                }
                3 => {
                    // string items of a from-import, with and without `as`
                    let (td, tn) = (vec![], 1);
                    let r = if rng.chance(1, 2) { spelling(rng, &dir, &td, tn, &dirs) } else { Ref { name: 1, ..Default::default() } };
                    let it = Item { name: 60, as_: if rng.chance(2, 3) { Some(alias) } else { None }, str_: true, segs: vec![] };
                    body.push(TAct::A(Act::From(r, vec![it, Item { name: 60, as_: Some(67), ..Default::default() }])));
                }
                4 => {
                    let (td, tn) = rng.pick(&targets).clone();
                    body.push(TAct::A(Act::Try(spelling(rng, &dir, &td, tn, &dirs), next())));
                }
                _ => {
                    let (td, tn) = rng.pick(&targets).clone();
                    let as_ = if rng.chance(4, 5) { Some(alias) } else { None };
                    body.push(TAct::A(imp(spelling(rng, &dir, &td, tn, &dirs), as_)));
                }
            }
            if rng.chance(1, 2) {
                body.push(TAct::A(Act::Show(next(), *rng.pick(&[64, 65, 66, 67, 60]))));
            }
        }
        ops.push(Op { script: None, fn_defaults: 0, dir, export_top: et, body });
    }
    Scenario { run_import_tests: rng.chance(1, 2), host_tests: false, prelude: vec![], files, ops, family: "spellings".into(), flags: Flags::default(), extra_dirs: vec![] }
}

/// exported-assignment family: a module re-exports parts of another module through every target shape
/// the grammar allows under `export` (id, `_`, map pattern with plain / `as` / string-key / ignored
/// entries; single and multi-target; export keyword or export_top_level_ids), and the bound ids are
/// observed through all four channels: importer (`import` + display, `from … import`), wildcard import,
/// host `exports()`, and a later non-local read inside a function created before the statement.
fn patterns_family(rng: &mut Rng) -> Scenario {
    let mut mk = 0u32;
    let mut next = || {
        mk += 1;
        mk
    };
    let keys: [Name; 4] = [60, 61, 62, 63];
    let entry = |rng: &mut Rng| -> PEntry {
        let key = *rng.pick(&keys);
        let target = match rng.weighted(&[4, 4, 1]) {
            0 => Some(key),
            1 => Some(*rng.pick(&[64, 65, 66, 60, 61])),
            _ => None,
        };
        PEntry { key, target, str_key: target.is_some() && rng.chance(1, 4) }
    };
    // statement over `src` (a local holding m0's exports map)
    let stmt = |rng: &mut Rng, exp: bool, src: Name| -> Act {
        let n = 1 + rng.weighted(&[2, 4, 3]);
        let mut ts = vec![];
        let mut rs = vec![];
        let map_at = rng.below(n);
        for i in 0..n {
            if i == map_at || rng.chance(1, 4) {
                let k = 1 + rng.below(3);
                ts.push(Target::Map((0..k).map(|_| entry(rng)).collect()));
                rs.push(Rhs::Ref(src));
            } else if n >= 2 && rng.chance(1, 5) {
                ts.push(Target::Ignored);
                rs.push(Rhs::Lit(rng.range(0, 9)));
            } else {
                ts.push(Target::Id(*rng.pick(&[67, 68, 64, 60])));
                rs.push(if rng.chance(3, 4) { Rhs::Lit(rng.range(100, 199)) } else { Rhs::Ref(src) });
            }
        }
        if n == 1 && !matches!(ts[0], Target::Map(_)) {
            // single plain target: keep one value
        } else if n >= 2 && rng.chance(1, 10) {
            rs.pop(); // one value too few: the last target gets null (or fails, for a map pattern)
            if rs.len() < 2 {
                rs.push(Rhs::Lit(1));
            }
        }
        Act::Pat(exp, ts, rs)
    };
    let all_ids: [Name; 9] = [60, 61, 62, 63, 64, 65, 66, 67, 68];
    let mut files = vec![];
    // m0: the source of values
    let mut b0 = vec![TAct::A(Act::Print(next()))];
    for (j, k) in keys.iter().enumerate() {
        b0.push(TAct::A(Act::Export(*k, 10 + j as i64)));
    }
    files.push(FileDef { fn_defaults: 0, path: MPath { dir: vec![], name: 0, is_dir: false }, body: Some(b0) });
    // m1: re-exports through patterns
    let src: Name = if rng.chance(1, 3) { 69 } else { 0 };
    let mut b1 = vec![TAct::A(Act::Print(next()))];
    b1.push(TAct::A(Act::Import(vec![Item { name: 0, as_: if src == 0 { None } else { Some(src) }, ..Default::default() }])));
    // a function created BEFORE the statements: reads the ids as non-locals when it runs
    let tm = next();
    let reads: Vec<Act> = all_ids.iter().filter(|_| rng.chance(1, 3)).map(|k| Act::Show(next(), *k)).collect();
    b1.push(TAct::Test(70, tm, reads));
    let n_stmts = 1 + rng.below(3);
    for _ in 0..n_stmts {
        let exp = rng.chance(4, 5);
        b1.push(TAct::A(stmt(rng, exp, src)));
        if rng.chance(1, 4) {
            b1.push(TAct::A(Act::Assign(*rng.pick(&all_ids), 500 + rng.below(9) as i64)));
        }
    }
    let mm = next();
    let reads: Vec<Act> = all_ids.iter().filter(|_| rng.chance(1, 3)).map(|k| Act::Show(next(), *k)).collect();
    b1.push(TAct::Main(mm, reads));
    files.push(FileDef { fn_defaults: 0, path: MPath { dir: vec![], name: 1, is_dir: false }, body: Some(b1) });
    // host
    let mut ops = vec![];
    let mut body = vec![TAct::A(Act::Import(vec![Item { name: 1, as_: None, ..Default::default() }])), TAct::A(Act::Show(next(), 1))];
    let items: Vec<Item> = all_ids.iter().filter(|_| rng.chance(1, 4)).map(|k| Item { name: *k, as_: None, ..Default::default() }).collect();
    if !items.is_empty() {
        body.push(TAct::A(Act::From(1.into(), items.clone())));
        for it in &items {
            body.push(TAct::A(Act::Show(next(), it.name)));
        }
    }
    ops.push(Op { script: None, fn_defaults: 0, dir: vec![], export_top: false, body });
    let et = rng.chance(1, 2);
    let mut body = vec![TAct::A(Act::Try(1.into(), next())), TAct::A(Act::FromAll(1.into()))];
    if et {
        // avoid the F-C18-2 shape: m1 is not a local here (string import above binds nothing)
    }
    for k in all_ids.iter() {
        if rng.chance(1, 2) {
            body.push(TAct::A(Act::Show(next(), *k)));
        }
    }
    ops.push(Op { script: None, fn_defaults: 0, dir: vec![], export_top: et, body });
    // host-level exported assignment (export keyword or export_top_level_ids), read back by the next script
    let et2 = rng.chance(1, 2);
    let hsrc: Name = 0;
    let mut body = vec![TAct::A(Act::Import(vec![Item { name: 0, as_: None, ..Default::default() }]))];
    let exp = !et2 || rng.chance(1, 2);
    body.push(TAct::A(stmt(rng, exp, hsrc)));
    ops.push(Op { script: None, fn_defaults: 0, dir: vec![], export_top: et2, body });
    let mut body = vec![];
    for k in all_ids.iter() {
        if rng.chance(1, 2) {
            body.push(TAct::A(Act::Show(next(), *k)));
        }
    }
    body.push(TAct::A(Act::Print(next())));
    ops.push(Op { script: None, fn_defaults: 0, dir: vec![], export_top: false, body });
    Scenario { run_import_tests: true, host_tests: false, prelude: vec![], files, ops, family: "patterns".into(), flags: Flags::default(), extra_dirs: vec![] }
}

/// bounded-exhaustive family: every import graph over 3 flat modules in which each module imports
/// any subset of {m0,m1,m2}, × which module fails and where, × a fixed history importing all three
/// (guarded, so that every module is attempted) and then all three again
fn exhaustive3(idx: u32) -> Scenario {
    let g = idx % 512;
    let f = (idx / 512) % 10;
    let mut files = vec![];
    let mut mk = 0u32;
    let mut next = || {
        mk += 1;
        mk
    };
    for i in 0..3u32 {
        let mask = (g >> (3 * i)) & 7;
        let mut b = vec![TAct::A(Act::Print(next()))];
        let fail_here = f > 0 && (f - 1) / 3 == i;
        let fail_phase = if f > 0 { (f - 1) % 3 } else { 9 };
        let tmk = next();
        b.push(TAct::Test(70, tmk, if fail_here && fail_phase == 1 { vec![Act::Fail(next())] } else { vec![] }));
        let mmk = next();
        b.push(TAct::Main(mmk, if fail_here && fail_phase == 2 { vec![Act::Fail(next())] } else { vec![] }));
        for j in 0..3u32 {
            if mask & (1 << j) != 0 {
                b.push(TAct::A(Act::Import(vec![Item { name: j, as_: None, ..Default::default() }])));
            }
        }
        if fail_here && fail_phase == 0 {
            b.push(TAct::A(Act::Fail(next())));
        }
        b.push(TAct::A(Act::Export(60, i as i64)));
        files.push(FileDef { fn_defaults: 0, path: MPath { dir: vec![], name: i, is_dir: false }, body: Some(b) });
    }
    let mut ops = vec![];
    for round in 0..2 {
        for i in 0..3u32 {
            let _ = round;
            ops.push(Op { script: None, fn_defaults: 0, dir: vec![], export_top: false, body: vec![TAct::A(Act::Try(i.into(), next()))] });
        }
    }
    Scenario { run_import_tests: true, host_tests: false, prelude: vec![], files, ops, family: "exhaustive3".into(), flags: Flags::default(), extra_dirs: vec![] }
}

// ------------------------------------------------------------------------------------------------

struct Ctx {
    rep: Report,
    drv: Option<Driver>,
    scratch: Scratch,
    k_fail: u64,
    d_fail: u64,
    known_hits: BTreeMap<String, u64>,
    open: Vec<String>,
    flags: Flags,
}

/// cause rule for listed findings: returns the finding id whose documented shape the scenario has.
/// F-C18-2: a script compiled with export_top_level_ids contains `from m import *` after `m` became
/// a local of the same script (the compiler then iterates a register it never wrote).
fn known_shape(sc: &Scenario) -> Option<&'static str> {
    for o in &sc.ops {
        if o.export_top {
            let mut locals: Vec<Name> = vec![];
            for t in &o.body {
                if let TAct::A(a) = t {
                    if let Act::FromAll(m) = a {
                        if !m.str_ && locals.contains(&m.name) {
                            return Some("F-C18-2");
                        }
                    }
                    locals.extend(act_binds(a));
                }
            }
        }
    }
    None
}

impl Ctx {
    fn model(&mut self, sc: &Scenario) -> Option<Vec<String>> {
        let mut sc = sc.clone();
        sc.flags = self.flags;
        let drv = self.drv.as_mut()?;
        let resp = drv.ask(&request(&sc));
        Some(resp.split(" | ").map(|s| s.to_string()).collect())
    }

    fn one(&mut self, sc: &Scenario) -> bool {
        let mut sc = sc.clone();
        sc.flags = self.flags;
        let sc = &sc;
        let req = request(sc);
        let n_mod_acts: usize = sc.files.iter().map(|f| f.body.as_ref().map(|b| b.len()).unwrap_or(0)).sum();
        self.rep.case(&req, !sc.files.is_empty() && !sc.ops.is_empty() && n_mod_acts >= 2);
        self.rep.bump(&format!("family={}", sc.family));
        self.rep.bump(&format!("files={}", sc.files.len().min(9)));
        self.rep.bump(&format!("ops={}", sc.ops.len().min(9)));
        // the scenario is run through ONE of the host-API spellings of its configuration, chosen by a
        // hash of the request, so that over a run every spelling is compared with the model (K) …
        let h = kvh::fnv1a(req.as_bytes());
        let sp = Spelling::from_hash(h);
        self.rep.bump(&format!("spelling_args={}{}", sp.args, if sp.two_step { "+compile/run" } else { "" }));
        let outs = match run_impl_sp(&mut self.scratch, sc, sp) {
            Ok(o) => o,
            Err(p) => {
                self.d_fail += 1;
                self.rep.violation("D", "C18:no-panic", json!({"scenario": sc, "request": req, "spelling": format!("{:?}", sp), "panic": p}));
                return false;
            }
        };
        // … and for a sample of the scenarios ALL CompileArgs spellings (with alternating run style and
        // varying KotoSettings spellings) must give the same observable outputs (D, model-independent)
        if (h >> 32) % 8 == 0 {
            let base: Vec<String> = outs.iter().map(|o| o.text()).collect();
            for a in 0..8u8 {
                let other = Spelling { args: a, two_step: (a % 2 == 1) != sp.two_step, settings: ((h >> 40) as usize % 240 + 31 * a as usize) as u8 % 240 };
                if other == sp {
                    continue;
                }
                self.rep.bump("spelling_invariance_runs");
                let o2 = run_impl_sp(&mut self.scratch, sc, other).map(|o| o.iter().map(|x| x.text()).collect::<Vec<_>>());
                if o2.as_ref().ok() != Some(&base) {
                    self.d_fail += 1;
                    if self.d_fail <= 5 {
                        self.rep.violation(
                            "D",
                            "C18:law:spelling-invariance",
                            json!({"scenario": sc, "request": req, "spelling_a": format!("{:?}", sp), "spelling_b": format!("{:?}", other),
                                   "outputs_a": base, "outputs_b": o2.unwrap_or_else(|p| vec![format!("panic: {}", p)]),
                                   "detail": "two host-API spellings of the same configuration give different exports/imports"}),
                        );
                    }
                    return false;
                }
            }
        }
        for o in &outs {
            self.rep.bump(&format!("result={}", o.result.split(':').take(2).collect::<Vec<_>>().join(":")));
            for e in &o.events {
                match e.as_bytes()[0] {
                    b'D' => self.rep.bump("event=module-imported"),
                    b'C' => self.rep.bump(&format!("event=caught:{}", e.split(':').nth(1).unwrap_or(""))),
                    b'S' => self.rep.bump("event=show"),
                    b'P' => self.rep.bump("event=print"),
                    _ => self.rep.bump("event=other"),
                }
            }
        }
        if sc.ops.iter().any(|o| o.export_top) {
            self.rep.bump("scenario_with_export_top_level_ids");
        }
        {
            let mut all_acts: Vec<(&Act, bool)> = vec![];
            for f in &sc.files {
                if let Some(b) = &f.body {
                    all_acts.extend(acts_of(b).into_iter().map(|a| (a, false)));
                }
            }
            for o in &sc.ops {
                all_acts.extend(acts_of(&o.body).into_iter().map(|a| (a, o.export_top)));
            }
            for (a, et) in all_acts {
                if let Act::Pat(e, ts, _) = a {
                    let has_map = ts.iter().any(|t| matches!(t, Target::Map(_)));
                    let has_as = ts.iter().any(|t| matches!(t, Target::Map(es) if es.iter().any(|x| x.target.is_some() && x.target != Some(x.key))));
                    self.rep.bump(&format!(
                        "pattern_stmt={}{}{}{}",
                        if *e { "export" } else if et { "top-level-ids" } else { "local" },
                        if ts.len() > 1 { "+multi" } else { "+single" },
                        if has_map { "+map" } else { "" },
                        if has_as { "+as" } else { "" }
                    ));
                }
            }
        }
        if sc.run_import_tests {
            self.rep.bump("scenario_with_run_import_tests");
        }
        if name_graph_cyclic(sc) {
            self.rep.bump("scenario_with_cyclic_name_graph");
        }
        if sc.files.iter().any(|f| sc.files.iter().any(|g| g.path.dir == f.path.dir && g.path.name == f.path.name && g.path.is_dir != f.path.is_dir)) {
            self.rep.bump("scenario_with_file_and_dir_module_of_same_name");
        }
        let mut ok = true;
        // (D)
        let mut attributed: Vec<&'static str> = vec![];
        let d = direct_laws(sc, &outs, &self.open, &mut attributed);
        for id in attributed {
            *self.known_hits.entry(id.to_string()).or_insert(0) += 1;
        }
        if let Some((law, detail)) = &d {
            self.d_fail += 1;
            ok = false;
            if self.d_fail <= 5 {
                self.rep.violation(
                    "D",
                    &format!("C18:law:{}", law),
                    json!({"scenario": sc, "request": req, "law": law, "detail": detail,
                           "impl": outs.iter().map(|o| o.text()).collect::<Vec<_>>()}),
                );
            }
        }
        // (K)
        if let Some(model) = self.model(sc) {
            let impl_txt: Vec<String> = outs.iter().map(|o| o.text()).collect();
            if self.rep.samples.len() < 6 && self.rep.evaluations % 97 == 5 {
                self.rep.sample(json!({"request": req, "impl": impl_txt, "model": model}));
            }
            if impl_txt != model {
                ok = false;
                let first = impl_txt.iter().zip(model.iter()).position(|(a, b)| a != b).unwrap_or(impl_txt.len().min(model.len()));
                // is it the documented shape of a listed finding?
                if let Some(id) = known_shape(sc) {
                    if self.open.iter().any(|x| x == id) {
                        *self.known_hits.entry(id.to_string()).or_insert(0) += 1;
                        return true;
                    }
                }
                self.k_fail += 1;
                if self.k_fail <= 5 && d.is_none() {
                    self.rep.violation(
                        "K",
                        "K:C18:Model.Modules.runOps",
                        json!({"scenario": sc, "request": req, "first_disagreeing_operation": first,
                               "impl": impl_txt, "model": model,
                               "note": "model and implementation disagree; the theorems of Props/C18.lean (run_once, cycle_error, failure_rollback, resolution_order, …) no longer speak about this code"}),
                    );
                }
            }
        }
        ok
    }
}

fn load_json_scenarios(dir: &Path) -> Vec<(String, Scenario)> {
    let mut v = vec![];
    if let Ok(rd) = std::fs::read_dir(dir) {
        let mut ps: Vec<_> = rd.filter_map(|e| e.ok()).map(|e| e.path()).filter(|p| p.extension().is_some_and(|e| e == "json")).collect();
        ps.sort();
        for p in ps {
            let txt = std::fs::read_to_string(&p).expect("corpus file");
            let sc: Scenario = serde_json::from_str(&txt).unwrap_or_else(|e| panic!("corpus file {}: {}", p.display(), e));
            v.push((p.file_name().unwrap().to_string_lossy().to_string(), sc));
        }
    }
    v
}

fn main() {
    kvh::quiet_panics();
    let args = Args::parse();
    let mut rep = Report::new("C18", &args);
    rep.rule = "case = scenario (settings + module files + history of host scripts run by one runtime); generated by seeded graph families (chain, diamond, cycles 1-3, failing top level/@test/@main, file and directory modules), a path-spelling family (one module reached from several folders as '../m', 'd/../m', './m', m; shadowing modules; dotted module names; string import items with/without `as`), a nested from-path family (wildcard/item imports over from-paths of 1-3 components through three module levels with distinct marker names, roots on disk / local / exported earlier; every marker of every level probed afterwards), a top-level-ids family (REPL mode: assignments, compound assignments += -= *= %= ^= also in loops, assignments inside if/match, multi-assignments to ids first assigned in the same and in earlier scripts, names that coincide with prelude entries; exports() compared with the computed final values), an exported-functions family (functions that export / read non-locals / import, called by their own module, by importers and by host scripts), a wildcard-import family (overlapping export keys, import orders with repeats, closures created at different points), an exported-assignment family (every assignment-target shape allowed under export: ids, `_`, map patterns with plain/`as`/string-key/ignored entries, single and multi-target, export keyword and export_top_level_ids; observed via importer, wildcard import, host exports() and non-local reads in functions), a random file-system/history generator, a bounded-exhaustive sweep over all 3-module import graphs x failure placements, and the corpus; distinct = distinct request lines; non-trivial = at least one module file, one operation and two module statements".into();
    rep.max_samples = 6;
    let open: Vec<String> = rep.known_open().iter().filter_map(|e| e.get("id").and_then(|x| x.as_str()).map(|s| s.to_string())).collect();
    let drv = if args.driver.is_empty() { None } else { Some(Driver::spawn(&args.driver)) };
    let scratch = Scratch::new(args.seed);
    let fixed = |id: &str| {
        rep.known_entries()
            .iter()
            .any(|e| e.get("id").and_then(|x| x.as_str()) == Some(id) && e.get("status").and_then(|x| x.as_str()) == Some("fixed"))
    };
    let flags = Flags { alias: fixed("F-C18-1"), canon: fixed("F-C18-3"), dotted: fixed("F-C18-4"), str_alias: fixed("F-C18-5"), exports_first: fixed("F-C18-7"), wild_refresh: fixed("F-C18-10"), import_captures: fixed("F-C18-9") };
    let filter_f2 = open.iter().any(|x| x == "F-C18-2");
    let mut cx = Ctx { rep, drv, scratch, k_fail: 0, d_fail: 0, known_hits: Default::default(), open, flags };

    if let Some(p) = &args.replay {
        let v: serde_json::Value = serde_json::from_str(&std::fs::read_to_string(p).expect("replay file")).unwrap();
        let sc: Scenario = serde_json::from_value(v["detail"]["scenario"].clone()).expect("detail.scenario");
        println!("request: {}", request(&sc));
        for f in &sc.files {
            println!("--- {}\n{}", f.path.rel(), f.body.as_ref().map(|b| body_src_d(b, f.fn_defaults)).unwrap_or(BAD_SOURCE.into()));
        }
        for (i, o) in sc.ops.iter().enumerate() {
            println!("--- op {} dir={:?} export_top={} script={:?}\n{}", i, o.dir, o.export_top, o.script, body_src_d(&o.body, o.fn_defaults));
        }
        let outs = run_impl(&mut cx.scratch, &sc);
        match &outs {
            Ok(o) => {
                for x in o {
                    println!("impl : {}", x.text());
                }
            }
            Err(p) => println!("impl panicked: {}", p),
        }
        if let Some(m) = cx.model(&sc) {
            for x in m {
                println!("model: {}", x);
            }
        }
        cx.one(&sc);
        let Ctx { rep, scratch, drv, .. } = cx;
        drop(drv);
        drop(scratch); // removes the scratch directory (process::exit runs no destructors)
        std::process::exit(rep.finish());
    }

    // 0. corpus (hand-written witnesses for the acceptance mutations and past failures)
    if let Some(dir) = &args.corpus {
        for (name, sc) in load_json_scenarios(dir) {
            let mut sc = sc;
            sc.family = format!("corpus:{}", name);
            cx.one(&sc);
        }
    }

    // 1a. listed findings whose witness is plain Koto source (shapes outside the scenario language):
    //     `raw_files` {relative path: source}, `raw_script`, `raw_expected_stdout`
    for e in cx.rep.known_entries() {
        let (Some(id), Some(script), Some(expected)) = (
            e.get("id").and_then(|x| x.as_str()),
            e.get("raw_script").and_then(|x| x.as_str()),
            e.get("raw_expected_stdout").and_then(|x| x.as_str()),
        ) else {
            continue;
        };
        let status_known = e.get("status").and_then(|s| s.as_str()) == Some("known");
        let root = cx.scratch.next_dir();
        std::fs::create_dir_all(&root).unwrap();
        if let Some(files) = e.get("raw_files").and_then(|x| x.as_object()) {
            for (rel, src) in files {
                let p = root.join(rel);
                std::fs::create_dir_all(p.parent().unwrap()).unwrap();
                std::fs::write(&p, src.as_str().unwrap_or("")).unwrap();
            }
        }
        let host = root.join("_host.koto");
        std::fs::write(&host, script).unwrap();
        let buf = Rc::new(RefCell::new(String::new()));
        let settings = KotoSettings { run_tests: false, ..Default::default() }
            .with_stdout(Capture { buf: buf.clone() })
            .with_stderr(Capture { buf: Rc::new(RefCell::new(String::new())) });
        let script_owned = script.to_string();
        let host_path = host.to_string_lossy().to_string();
        let res = kvh::catch(|| {
            let mut koto = Koto::with_settings(settings);
            koto.compile_and_run(CompileArgs::new(&script_owned).script_path(host_path)).map(|_| ()).map_err(|e| e.to_string())
        });
        let _ = std::fs::remove_dir_all(&root);
        let got = buf.borrow().clone();
        let why = match res {
            Err(p) => format!("the run panicked: {}", p),
            Ok(Err(e)) => format!("the script fails: {}", e.lines().next().unwrap_or("")),
            Ok(Ok(())) if got.trim_end() != expected.trim_end() => format!("stdout is {:?}, expected {:?}", got.trim_end(), expected.trim_end()),
            Ok(Ok(())) => String::new(),
        };
        let failing = !why.is_empty();
        if status_known && failing {
            cx.rep.known(id, &format!("witness still fails: {}", why));
        } else if !status_known && failing {
            cx.d_fail += 1;
            cx.rep.violation("D", &format!("C18:regression:{}", id), json!({"why": why, "note": "a finding recorded as fixed fails again"}));
        } else if status_known && !failing {
            cx.rep.note(format!("{}: witness no longer fails (the defect seems repaired; update known_findings.json)", id));
        }
    }

    // 1. listed findings: replay witnesses
    for e in cx.rep.known_entries() {
        let (Some(id), Some(w)) = (e.get("id").and_then(|x| x.as_str()), e.get("witness_scenario")) else { continue };
        let sc: Scenario = serde_json::from_value(w.clone()).expect("witness_scenario");
        let status_known = e.get("status").and_then(|s| s.as_str()) == Some("known");
        let outs = run_impl(&mut cx.scratch, &sc);
        // what the witness demands of the implementation's outputs (any one failing = the witness fails):
        //   expected_export_key: the key is in the final host exports
        //   expected_event:      the event occurs in the trace
        //   event_at_most:       [event, n] — the event occurs at most n times
        let all_events: Vec<String> = outs.as_ref().map(|o| o.iter().flat_map(|x| x.events.clone()).collect()).unwrap_or_default();
        let mut why = String::new();
        if outs.is_err() {
            why = "the run panicked".into();
        }
        if let Some(k) = e.get("expected_export_key").and_then(|x| x.as_str()) {
            let last = outs.as_ref().ok().and_then(|o| o.last()).map(|x| x.exports.clone()).unwrap_or_default();
            if !top_level_keys(&last).contains(&kvh::hex(k.as_bytes())) {
                why = format!("host exports lack key '{}' after the history", k);
            }
        }
        if let Some(ev) = e.get("expected_event").and_then(|x| x.as_str()) {
            if !all_events.iter().any(|x| x == ev) {
                why = format!("event {} does not occur", ev);
            }
        }
        if let Some(arr) = e.get("event_at_most").and_then(|x| x.as_array()) {
            if let (Some(ev), Some(n)) = (arr.first().and_then(|x| x.as_str()), arr.get(1).and_then(|x| x.as_u64())) {
                let c = all_events.iter().filter(|x| *x == ev).count() as u64;
                if c > n {
                    why = format!("event {} occurs {} times (at most {} expected)", ev, c, n);
                }
            }
        }
        let failing = !why.is_empty();
        if status_known && failing {
            cx.rep.known(id, &format!("witness still fails: {}", why));
        } else if !status_known && failing {
            cx.d_fail += 1;
            cx.rep.violation("D", &format!("C18:regression:{}", id), json!({"scenario": sc, "why": why, "note": "a finding recorded as fixed fails again"}));
        } else if status_known && !failing {
            cx.rep.note(format!("{}: witness no longer fails (the defect seems repaired; update known_findings.json)", id));
        }
    }

    let mut rng = Rng::new(args.seed);
    let thorough = args.thorough();

    // 2. bounded-exhaustive family
    {
        let total = 5120u32;
        if thorough {
            for i in 0..total {
                cx.one(&exhaustive3(i));
            }
            cx.rep.extra.insert("exhaustive3".into(), json!({"graphs": 512, "failure_placements": 10, "enumerated": total, "complete": true}));
        } else {
            let n = 400;
            for _ in 0..n {
                let i = rng.below(total as usize) as u32;
                cx.one(&exhaustive3(i));
            }
            cx.rep.extra.insert("exhaustive3".into(), json!({"graphs": 512, "failure_placements": 10, "sampled": n, "complete": false}));
        }
    }

    // 3. graph families and random scenarios
    let (n_graph, n_random) = if thorough { (12000, 40000) } else { (1200, 3000) };
    let n_nested = if thorough { 6000 } else { 600 };
    for _ in 0..n_nested {
        let sc = nested_family(&mut rng);
        cx.one(&sc);
    }
    let n_top = if thorough { 8000 } else { 800 };
    for _ in 0..n_top {
        let sc = toplevel_family(&mut rng);
        cx.one(&sc);
    }
    let n_fn = if thorough { 6000 } else { 600 };
    for _ in 0..n_fn {
        let sc = functions_family(&mut rng);
        cx.one(&sc);
    }
    let n_spell = if thorough { 8000 } else { 800 };
    for _ in 0..n_spell {
        let sc = spellings_family(&mut rng);
        cx.one(&sc);
    }
    let n_pat = if thorough { 8000 } else { 800 };
    for _ in 0..n_pat {
        let sc = patterns_family(&mut rng);
        cx.one(&sc);
    }
    let n_wild = if thorough { 6000 } else { 600 };
    for _ in 0..n_wild {
        let sc = wild_family(&mut rng);
        cx.one(&sc);
    }
    for _ in 0..n_graph {
        let sc = Gen { rng: &mut rng, marker: 0, bound: vec![], visible: vec![], filter_f2, mod_bound: vec![], int_bound: vec![], pows: 0 }.graph();
        cx.one(&sc);
    }
    for _ in 0..n_random {
        let sc = Gen { rng: &mut rng, marker: 0, bound: vec![], visible: vec![], filter_f2, mod_bound: vec![], int_bound: vec![], pows: 0 }.random();
        cx.one(&sc);
    }

    let kh = cx.known_hits.clone();
    for (id, n) in kh {
        cx.rep.bump_by(&format!("attributed_to_{}", id), n);
    }
    cx.rep.extra.insert(
        "mutation_pilot".into(),
        json!({"when": "2026-09-26, while building the check; edits applied to a scratch copy of /repo outside /repo and /verif, quick tier seed 1, copy removed afterwards",
               "results": [
                 {"edit": "run_import: module cached before @main ran", "caught_by": "K (corpus 01, random)"},
                 {"edit": "run_import: placeholder not removed after failure", "caught_by": "K + D law rollback"},
                 {"edit": "find_module: name/main.koto preferred over name.koto", "caught_by": "K + D law resolution-order"},
                 {"edit": "run_import: @main before @tests", "caught_by": "K + D law phase-order"},
                 {"edit": "run_import: importer's exports only restored on success", "caught_by": "K + D law exports-restored"},
                 {"edit": "NonLocals::get: wildcard imports searched oldest first", "caught_by": "K (wildcards family, corpus 08)"},
                 {"edit": "add_wildcard_import: no de-duplication", "caught_by": "K (wildcards family, corpus 08)"},
                 {"edit": "run_import: non-local check skipped", "caught_by": "K (random, corpus 07)"},
                 {"edit": "compile_assign: every top-level assignment exports", "caught_by": "K + D law exports-restored"},
                 {"edit": "compile_assign: reassigning an exported id updates the export", "caught_by": "K + D law export-final"}]}),
    );
    let (k, d) = (cx.k_fail, cx.d_fail);
    cx.rep.extra.insert("k_disagreements".into(), json!(k));
    cx.rep.extra.insert("d_failures".into(), json!(d));
    if let Some(drv) = &cx.drv {
        cx.rep.extra.insert("driver_requests".into(), json!(drv.requests));
    }
    let Ctx { rep, scratch, drv, .. } = cx;
    drop(drv);
    drop(scratch);
    std::process::exit(rep.finish());
}
