//! C02 — functions, closures and generators bind and capture as documented.
//!
//! Four case families, each rendered as a Koto script (run in-process through
//! `koto::Koto::compile_and_run`, observations through host functions in the prelude) and sent as
//! the same abstract case to the Lean model driver `kv_c02`:
//!
//! * `bind`  — function definition (required / optional / variadic / ignored / nested tuple and map
//!             patterns / captures) × call form (parenthesised, paren-free, piped, packed, instance,
//!             generator call) × argument count; Model/Bind.lean (register-level mirror of
//!             `call_callable` … `apply_captures` + the compiled prologue).
//! * `cap`   — scripts with (nested, recursive) closures over an expression language;
//!             Model/Capture.lean: evaluator run with the parser's analysis (`impl`) and with the
//!             declarative free variables (`spec`).
//! * `share` — histories over variables holding ints and lists, closures capturing them, default
//!             values (evaluated once, at creation), mutation before/after creation and inside calls.
//! * `gen`   — generator bodies of the coroutine language consumed by `for` (with/without break),
//!             explicit `.next()` calls, `to_tuple`, `take(k).to_tuple()`; Model/Gen.lean.
//!
//! (K) implementation result + trace + error class = model's; for `cap`: = `impl`.
//! (D) the models are the formalised guide, so a (K) disagreement on a well-formed case is a
//!     violation with the script as replay; for `cap` additionally implementation = `spec` on
//!     every well-shaped script (outside the documented shape of F-C02-1).
use koto::prelude::*;
use kvh::{Args, Driver, Report, Rng};
use serde_json::json;
use std::cell::RefCell;
use std::collections::BTreeMap;
use std::rc::Rc;

// ------------------------------------------------------------------------------------------------
// runtime

/// self-test only (`--plant swap-free-args`, never passed by ./check): paren-free calls with two or
/// more arguments are rendered with the first two swapped, emulating a binding defect, so that
/// detection, shrinking and replay can be exercised on an unchanged /repo
static PLANT: std::sync::atomic::AtomicBool = std::sync::atomic::AtomicBool::new(false);

struct Runtime {
    koto: Koto,
    trace: Rc<RefCell<Vec<String>>>,
    runs: u64,
}

fn classify_error(msg: &str) -> String {
    let first = msg.lines().next().unwrap_or("");
    let m = first;
    if m.contains("insufficient arguments") {
        "E:args-few".into()
    } else if m.contains("too many arguments") {
        "E:args-many".into()
    } else if m.contains("he container has a size of") {
        "E:size".into()
    } else if m.contains("expected Iterable") {
        "E:iter".into()
    } else if m.contains("Call argument limit") {
        "E:limit".into()
    } else if m.contains("not found") {
        "E:notfound".into()
    } else if m.contains("a value with a defined size")
        || m.contains("an indexable value")
        || m.contains("a sliceable value")
        || m.contains("a value that supports '.' access")
        || m.contains("unable to perform operation")
        || m.contains("expected Number")
        || m.contains("callable function")
    {
        "E:type".into()
    } else {
        format!("E:other:{}", m)
    }
}

impl Runtime {
    fn new() -> Runtime {
        let trace: Rc<RefCell<Vec<String>>> = Rc::new(RefCell::new(vec![]));
        let settings = KotoSettings::default().with_execution_limit(std::time::Duration::from_secs(5));
        let koto = Koto::with_settings(settings);
        let mk = |prefix: &'static str, t: Rc<RefCell<Vec<String>>>| {
            move |ctx: &mut CallContext| {
                let s = match ctx.args() {
                    [KValue::Number(n)] if !prefix.is_empty() => format!("{}{}", prefix, i64::from(n)),
                    [v] => kvh::canon::value(v),
                    vs => vs.iter().map(kvh::canon::value).collect::<Vec<_>>().join(","),
                };
                t.borrow_mut().push(s);
                Ok(ctx.args().first().cloned().unwrap_or(KValue::Null))
            }
        };
        koto.prelude().add_fn("emit", mk("", trace.clone()));
        koto.prelude().add_fn("gemit", mk("g", trace.clone()));
        koto.prelude().add_fn("cemit", mk("c", trace.clone()));
        let t = trace.clone();
        koto.prelude().add_fn("cfin", move |_ctx| {
            t.borrow_mut().push("fin".into());
            Ok(KValue::Null)
        });
        let t = trace.clone();
        koto.prelude().add_fn("tick", move |ctx| match ctx.args() {
            [KValue::Number(n), v] => {
                t.borrow_mut().push(format!("t{}", i64::from(n)));
                Ok(v.clone())
            }
            _ => Ok(KValue::Null),
        });
        let mut koto = koto;
        // a function exported by another chunk: a bare non-local id for every later script
        let _ = koto.compile_and_run("export ef = |v| (v, 'ef')\nexport ef2 = |v, w| (v, w, 'ef2')\nnull");
        Runtime { koto, trace, runs: 0 }
    }

    /// (result: canonical value or error class, trace)
    fn run(&mut self, script: &str) -> (String, Vec<String>) {
        self.trace.borrow_mut().clear();
        self.runs += 1;
        let r = kvh::catch(|| self.koto.compile_and_run(script));
        let mut fresh = false;
        let res = match r {
            Ok(Ok(v)) => kvh::canon::value(&v),
            Ok(Err(e)) => {
                fresh = true;
                let s = e.to_string();
                if matches!(e, koto::Error::CompileError { .. }) { format!("E:compile:{}", s.lines().next().unwrap_or("")) } else { classify_error(&s) }
            }
            Err(p) => {
                fresh = true;
                format!("PANIC {}", p)
            }
        };
        let t = self.trace.borrow().clone();
        // exports persist in a Koto instance: scripts that export start the next script clean
        if fresh || self.runs % 256 == 0 || script.contains("export ") {
            // a failed run may leave residue in the VM (C07's subject); start clean
            *self = Runtime::new_keep_runs(self.runs);
        }
        (res, t)
    }

    /// run the script (which exports the function as `fx`), then call it through the host API
    fn run_host(&mut self, script: &str, kind: u8, args: &[V]) -> (String, Vec<String>) {
        self.trace.borrow_mut().clear();
        self.runs += 1;
        let r = kvh::catch(|| -> Result<KValue, String> {
            self.koto.compile_and_run(script).map_err(|e| {
                let s = e.to_string();
                if matches!(e, koto::Error::CompileError { .. }) { format!("E:compile:{}", s.lines().next().unwrap_or("")) } else { classify_error(&s) }
            })?;
            let f = self.koto.exports().get("fx").ok_or_else(|| "E:other:fx not exported".to_string())?;
            let vals: Vec<KValue> = args.iter().map(to_kvalue).collect();
            let r = match kind {
                0 => self.koto.call_function(f, CallArgs::Single(vals[0].clone())),
                1 => self.koto.call_function(f, CallArgs::Separate(&vals)),
                _ => self.koto.call_function(f, CallArgs::AsTuple(&vals)),
            };
            r.map_err(|e| classify_error(&e.to_string()))
        });
        let res = match r {
            Ok(Ok(v)) => kvh::canon::value(&v),
            Ok(Err(e)) => e,
            Err(p) => format!("PANIC {}", p),
        };
        let t = self.trace.borrow().clone();
        *self = Runtime::new_keep_runs(self.runs);
        (res, t)
    }

    fn new_keep_runs(runs: u64) -> Runtime {
        let mut r = Runtime::new();
        r.runs = runs;
        r
    }
}

// ------------------------------------------------------------------------------------------------
// values

#[derive(Clone, Debug, PartialEq)]
enum V {
    Null,
    Bool(bool),
    I(i64),
    S(String),
    T(Vec<V>),
    L(Vec<V>),
    M(Vec<(String, V)>),
    R(i64, i64), // a..b ascending, exclusive
}

impl V {
    fn canon(&self) -> String {
        match self {
            V::Null => "null".into(),
            V::Bool(b) => if *b { "b1".into() } else { "b0".into() },
            V::I(i) => format!("i{}", i),
            V::S(s) => format!("s{}", kvh::hex(s.as_bytes())),
            V::T(xs) => format!("(t{})", xs.iter().map(|x| format!(" {}", x.canon())).collect::<String>()),
            V::L(xs) => format!("(l{})", xs.iter().map(|x| format!(" {}", x.canon())).collect::<String>()),
            V::M(es) => format!(
                "(m{})",
                es.iter().map(|(k, v)| format!(" (s{} {})", kvh::hex(k.as_bytes()), v.canon())).collect::<String>()
            ),
            V::R(a, b) => format!("(r {} {} 0)", a, b),
        }
    }
    /// Koto source (an atom: safe in any argument position)
    fn koto(&self) -> String {
        match self {
            V::Null => "null".into(),
            V::Bool(b) => b.to_string(),
            V::I(i) => if *i < 0 { format!("({})", i) } else { i.to_string() },
            V::S(s) => format!("'{}'", s),
            V::T(xs) => match xs.len() {
                0 => "()".into(),
                1 => format!("({},)", xs[0].koto()),
                _ => format!("({})", xs.iter().map(|x| x.koto()).collect::<Vec<_>>().join(", ")),
            },
            V::L(xs) => format!("[{}]", xs.iter().map(|x| x.koto()).collect::<Vec<_>>().join(", ")),
            V::M(es) => format!("{{{}}}", es.iter().map(|(k, v)| format!("{}: {}", k, v.koto())).collect::<Vec<_>>().join(", ")),
            V::R(a, b) => format!("({}..{})", a, b),
        }
    }
    fn elems(&self) -> Option<Vec<V>> {
        match self {
            V::T(xs) | V::L(xs) => Some(xs.clone()),
            V::R(a, b) => Some((*a..*b).map(V::I).collect()),
            V::S(s) => Some(s.chars().map(|c| V::S(c.to_string())).collect()),
            V::M(es) => Some(es.iter().map(|(k, v)| V::T(vec![V::S(k.clone()), v.clone()])).collect()),
            _ => None,
        }
    }
}

fn to_kvalue(v: &V) -> KValue {
    match v {
        V::Null => KValue::Null,
        V::Bool(b) => KValue::Bool(*b),
        V::I(i) => KValue::Number((*i).into()),
        V::S(s) => KValue::Str(s.as_str().into()),
        V::T(xs) => KValue::Tuple(KTuple::from(xs.iter().map(to_kvalue).collect::<Vec<_>>())),
        V::L(xs) => KValue::List(KList::from_slice(&xs.iter().map(to_kvalue).collect::<Vec<_>>())),
        V::M(es) => {
            let m = KMap::new();
            for (k, x) in es {
                m.insert(k.as_str(), to_kvalue(x));
            }
            KValue::Map(m)
        }
        V::R(a, b) => KValue::Range(KRange::from(*a..*b)),
    }
}

fn small_val(rng: &mut Rng, depth: u32) -> V {
    match rng.weighted(&[50, 6, 6, 10, if depth > 0 { 12 } else { 0 }, if depth > 0 { 10 } else { 0 }, if depth > 0 { 6 } else { 0 }]) {
        0 => V::I(rng.range(0, 99)),
        1 => V::Null,
        2 => V::Bool(rng.chance(1, 2)),
        3 => V::S(["a", "bc", "", "xyz"][rng.below(4)].to_string()),
        4 => V::T((0..rng.below(4)).map(|_| small_val(rng, depth - 1)).collect()),
        5 => V::L((0..rng.below(4)).map(|_| small_val(rng, depth - 1)).collect()),
        _ => V::M((0..rng.below(3)).map(|i| (format!("k{}", i), small_val(rng, depth - 1))).collect()),
    }
}

// ------------------------------------------------------------------------------------------------
// family `bind`

#[derive(Clone, Debug)]
enum Entry {
    Short(u32),       // {vN}          key "vN", binds vN
    As(String, u32),  // {key as vN}
    Ign(String),      // {key as _}
}

#[derive(Clone, Debug)]
enum Pat {
    Id(u32),
    Ign,
    Pk(Option<u32>),
    Tup(Vec<Pat>),
    Map(Vec<Entry>),
}

#[derive(Clone, Debug)]
struct Param {
    pat: Pat, // top level: Id / Ign / Tup / Map
    default: Option<V>,
}

#[derive(Clone, Debug)]
struct Def {
    params: Vec<Param>,
    variadic: bool,
    caps: Vec<(u32, V)>,
    generator: bool,
    /// the body refers to the function by its own name: `f` is one of its captures, filled in by the
    /// deferred `Capture` once `f = |…| …` is committed. The value is the position of that capture
    /// among `caps` (capture-list order of the model; the real order is unobservable). The body
    /// reports `f == null` for it (name 0).
    self_ref: Option<usize>,
    /// ids the body reads that are exported only AFTER the function was created (not locals, not
    /// captures, not prelude entries): resolved through the module's exports when the function runs.
    /// (name, value at call time, read through a thunk call `vN()` instead of `vN`)
    lates: Vec<(u32, V, bool)>,
}

fn entry_sexp(e: &Entry) -> String {
    match e {
        Entry::Short(n) => format!("({} {})", kvh::hex(format!("v{}", n).as_bytes()), n),
        Entry::As(k, n) => format!("({} {})", kvh::hex(k.as_bytes()), n),
        Entry::Ign(k) => format!("({} _)", kvh::hex(k.as_bytes())),
    }
}
fn entry_koto(e: &Entry) -> String {
    match e {
        Entry::Short(n) => format!("v{}", n),
        Entry::As(k, n) => format!("{} as v{}", k, n),
        Entry::Ign(k) => format!("{} as _", k),
    }
}
fn pat_sexp(p: &Pat) -> String {
    match p {
        Pat::Id(n) => format!("(id {})", n),
        Pat::Ign => "_".into(),
        Pat::Pk(Some(n)) => format!("(pk {})", n),
        Pat::Pk(None) => "(pk)".into(),
        Pat::Tup(ps) => format!("(tup{})", ps.iter().map(|p| format!(" {}", pat_sexp(p))).collect::<String>()),
        Pat::Map(es) => format!("(map{})", es.iter().map(|e| format!(" {}", entry_sexp(e))).collect::<String>()),
    }
}
fn pat_koto(p: &Pat) -> String {
    match p {
        Pat::Id(n) => format!("v{}", n),
        Pat::Ign => "_".into(),
        Pat::Pk(Some(n)) => format!("v{}...", n),
        Pat::Pk(None) => "...".into(),
        Pat::Tup(ps) => format!("({})", ps.iter().map(pat_koto).collect::<Vec<_>>().join(", ")),
        Pat::Map(es) => format!("{{{}}}", es.iter().map(entry_koto).collect::<Vec<_>>().join(", ")),
    }
}
fn pat_names(p: &Pat, out: &mut Vec<u32>) {
    match p {
        Pat::Id(n) | Pat::Pk(Some(n)) => out.push(*n),
        Pat::Tup(ps) => ps.iter().for_each(|p| pat_names(p, out)),
        Pat::Map(es) => es.iter().for_each(|e| match e {
            Entry::Short(n) | Entry::As(_, n) => out.push(*n),
            _ => {}
        }),
        _ => {}
    }
}

impl Def {
    /// names in the order the model reports them: top-level ids, nested names, captures
    fn names(&self) -> Vec<u32> {
        let mut top = vec![];
        let mut nested = vec![];
        for p in &self.params {
            match &p.pat {
                Pat::Id(n) => top.push(*n),
                other => pat_names(other, &mut nested),
            }
        }
        top.extend(nested);
        top.extend(self.cap_names());
        top
    }
    /// capture names in capture-list order, 0 = the function itself
    fn cap_names(&self) -> Vec<u32> {
        let mut v: Vec<u32> = self.caps.iter().map(|c| c.0).collect();
        if let Some(j) = self.self_ref {
            v.insert(j.min(v.len()), 0);
        }
        v
    }
    fn cap_vals(&self) -> Vec<String> {
        let mut v: Vec<String> = self.caps.iter().map(|c| c.1.canon()).collect();
        if let Some(j) = self.self_ref {
            v.insert(j.min(v.len()), "null".into());
        }
        v
    }
    fn n_opt(&self) -> usize {
        self.params.iter().filter(|p| p.default.is_some()).count()
    }
    fn arity(&self) -> usize {
        self.params.len() - self.variadic as usize
    }
    fn sexp(&self) -> String {
        format!(
            "(fn (ps{}) {} {} (caps{}) (dv{}) (cv{}) (self {})",
            self.params.iter().map(|p| format!(" {}", pat_sexp(&p.pat))).collect::<String>(),
            self.n_opt(),
            self.variadic as u8,
            self.cap_names().iter().map(|c| format!(" {}", c)).collect::<String>(),
            self.params.iter().filter_map(|p| p.default.as_ref()).map(|v| format!(" {}", v.canon())).collect::<String>(),
            self.cap_vals().iter().map(|c| format!(" {}", c)).collect::<String>(),
            match self.self_ref { Some(j) => j.min(self.caps.len()).to_string(), None => "-".into() },
        ) + &format!(" (late{}))", self.lates.iter().map(|(n, v, _)| format!(" ({} {})", n, v.canon())).collect::<String>())
    }
    /// script prefix: captured variables, the definition (defaults through `tick`), reassignment
    /// of the captured variables after creation, the instance map
    fn koto(&self) -> String {
        self.koto_opts(0)
    }
    /// `emit_body`: the body reports its tuple through `emit` (for calling routes whose caller does
    /// not hand the result back, e.g. a predicate of `keep`)
    fn koto_opts(&self, emit_body: u8) -> String {
        let mut s = String::new();
        for (n, v) in &self.caps {
            s.push_str(&format!("v{} = {}\n", n, v.koto()));
        }
        let mut tick = 0;
        let n = self.params.len();
        let ps: Vec<String> = self
            .params
            .iter()
            .enumerate()
            .map(|(i, p)| {
                let mut t = pat_koto(&p.pat);
                if self.variadic && i == n - 1 {
                    t.push_str("...");
                }
                if let Some(d) = &p.default {
                    t.push_str(&format!(" = tick({}, {})", tick, d.koto()));
                    tick += 1;
                }
                t
            })
            .collect();
        s.push_str(&format!("f = |{}|\n", ps.join(", ")));
        let mut items = vec!["(if self == null then null else self.tag)".to_string()];
        items.extend(self.names().iter().map(|n| if *n == 0 { "(f == null)".to_string() } else { format!("v{}", n) }));
        items.extend(self.lates.iter().map(|(n, _, thunk)| if *thunk { format!("v{}()", n) } else { format!("v{}", n) }));
        let tuple = if items.len() == 1 { format!("({},)", items[0]) } else { format!("({})", items.join(", ")) };
        if self.generator {
            s.push_str(&format!("  yield {}\n", tuple));
        } else if emit_body > 0 {
            s.push_str(&format!("  emit({})\n", tuple));
            if emit_body == 2 {
                // predicates have to return a Bool
                s.push_str("  true\n");
            }
        } else {
            s.push_str(&format!("  {}\n", tuple));
        }
        for (n, _) in &self.caps {
            s.push_str(&format!("v{} = 'changed'\n", n));
        }
        // exported after the function exists: late-bound, resolved at call time
        for (n, v, thunk) in &self.lates {
            if *thunk {
                s.push_str(&format!("export v{} = || {}\n", n, v.koto()));
            } else {
                s.push_str(&format!("export v{} = {}\n", n, v.koto()));
            }
        }
        s.push_str("idf = |v| v\nm = {tag: 7, f, idm: |v| v}\na2 = {m}\na3 = {a2}\n");
        s
    }
}

#[derive(Clone, Debug)]
enum Form {
    Paren,
    Free,
    Piped(bool), // rest parenthesised?
    Inst(bool),  // paren-free?
    /// `x -> m.f y…` / `x -> a2.m.f` / `x -> a3.a2.m.f y…`: piped into a method reached through a
    /// chain; must equal `m.f(x, y…)` (self = the innermost container)
    PipedInst,
}

impl Form {
    fn is_piped(&self) -> bool {
        matches!(self, Form::Piped(_) | Form::PipedInst)
    }
}

#[derive(Clone, Debug)]
struct Call {
    /// piped forms only: the piped value first goes through an identity stage, `x -> m.idm -> f …`
    /// (1, a method) or `x -> idf -> f …` (2, a local function; the shape of F-C02-9, fixed): chained pipes must equal the nested calls
    pre: u8,
    /// length of the access chain to the method for Inst / PipedInst: 1 `m.f`, 2 `a2.m.f`, 3 `a3.a2.m.f`
    depth: u8,
    form: Form,
    args: Vec<(V, bool)>, // value, packed
}

impl Call {
    fn sexp(&self, generator: bool) -> String {
        let g = generator as u8;
        let args = |xs: &[(V, bool)]| xs.iter().map(|(v, p)| format!(" ({} {})", v.canon(), *p as u8)).collect::<String>();
        match &self.form {
            Form::Paren | Form::Free => format!("(plain {} - (args{}))", g, args(&self.args)),
            Form::Piped(_) => format!("(piped {} {} (args{}))", g, self.args[0].0.canon(), args(&self.args[1..])),
            Form::Inst(_) => format!("(inst {} (m (sx746167 i7)) (args{}))", g, args(&self.args)),
            Form::PipedInst => format!("(pinst {} {} (args{}))", g, self.args[0].0.canon(), args(&self.args[1..])),
        }
    }
    fn koto(&self, generator: bool) -> String {
        let mut pre = String::new();
        // containers go through variables, scalars are written in place
        let mut texts = vec![];
        for (i, (v, p)) in self.args.iter().enumerate() {
            let t = match v {
                V::I(_) | V::Null | V::Bool(_) | V::S(_) => v.koto(),
                _ => {
                    if i % 2 == 0 {
                        pre.push_str(&format!("x{} = {}\n", i, v.koto()));
                        format!("x{}", i)
                    } else {
                        v.koto()
                    }
                }
            };
            texts.push(if *p { format!("{}...", t) } else { t });
        }
        if PLANT.load(std::sync::atomic::Ordering::Relaxed) && matches!(self.form, Form::Free) && texts.len() >= 2 {
            texts.swap(0, 1);
        }
        let path = match self.depth { 0 | 1 => "m.f", 2 => "a2.m.f", _ => "a3.a2.m.f" };
        if self.form.is_piped() && self.pre > 0 {
            texts[0] = format!("{} -> {}", texts[0], if self.pre == 1 { "m.idm" } else { "idf" });
        }
        let paren = |f: &str, a: &[String]| format!("{}({})", f, a.join(", "));
        let free = |f: &str, a: &[String]| if a.is_empty() { format!("{}()", f) } else { format!("{} {}", f, a.join(", ")) };
        let call = match &self.form {
            Form::Paren => paren("f", &texts),
            Form::Free => free("f", &texts),
            Form::Piped(p) => {
                let rest = &texts[1..];
                if rest.is_empty() {
                    format!("{} -> f", texts[0])
                } else if *p {
                    format!("{} -> {}", texts[0], paren("f", rest))
                } else {
                    format!("{} -> {}", texts[0], free("f", rest))
                }
            }
            Form::Inst(fr) => if *fr { free(path, &texts) } else { paren(path, &texts) },
            Form::PipedInst => {
                let rest = &texts[1..];
                if rest.is_empty() { format!("{} -> {}", texts[0], path) } else { format!("{} -> {}", texts[0], free(path, rest)) }
            }
        };
        if generator {
            format!("{}g = {}\ng.next().get()\n", pre, call)
        } else {
            format!("{}{}\n", pre, call)
        }
    }
}

struct NameGen(u32);
impl NameGen {
    fn next(&mut self) -> u32 {
        self.0 += 1;
        self.0
    }
}

fn gen_entries(rng: &mut Rng, ng: &mut NameGen) -> Vec<Entry> {
    (0..1 + rng.below(3))
        .map(|i| match rng.below(4) {
            0 | 1 => Entry::Short(ng.next()),
            2 => Entry::As(format!("k{}", i), ng.next()),
            _ => Entry::Ign(format!("k{}", i)),
        })
        .collect()
}

fn gen_tuple_pat(rng: &mut Rng, ng: &mut NameGen, depth: u32) -> Vec<Pat> {
    let n = 1 + rng.below(4);
    let ell = rng.below(5); // 0: leading, 1: trailing, else none
    let mut ps = vec![];
    for i in 0..n {
        let is_first = i == 0;
        let is_last = i == n - 1;
        // a sole `(xs...)` is generated too (F-C02-3, fixed): leading and trailing coincide
        if (ell == 0 && is_first) || (ell == 1 && is_last) {
            ps.push(Pat::Pk(if rng.chance(3, 4) { Some(ng.next()) } else { None }));
            continue;
        }
        let k = rng.weighted(&[60, 12, if depth > 0 { 16 } else { 0 }, if depth > 0 { 10 } else { 0 }]);
        ps.push(match k {
            0 => Pat::Id(ng.next()),
            1 => Pat::Ign,
            2 => Pat::Tup(gen_tuple_pat(rng, ng, depth - 1)),
            _ => Pat::Map(gen_entries(rng, ng)),
        });
    }
    ps
}

/// a value matching the pattern (mostly), `bad` = chance in 16 to deviate at each level
fn matching_val(rng: &mut Rng, p: &Pat, bad: u32) -> V {
    if rng.chance(bad, 16) {
        return small_val(rng, 1);
    }
    match p {
        Pat::Id(_) | Pat::Ign | Pat::Pk(_) => small_val(rng, 1),
        Pat::Tup(ps) => {
            let mut xs = vec![];
            for q in ps {
                if let Pat::Pk(_) = q {
                    for _ in 0..rng.below(3) {
                        xs.push(small_val(rng, 0));
                    }
                } else {
                    xs.push(matching_val(rng, q, bad));
                }
            }
            if rng.chance(bad, 24) {
                if rng.chance(1, 2) && !xs.is_empty() { xs.pop(); } else { xs.push(V::I(0)); }
            }
            if rng.chance(1, 2) { V::T(xs) } else { V::L(xs) }
        }
        Pat::Map(es) => {
            let mut m = vec![];
            for e in es {
                if rng.chance(bad, 24) {
                    continue;
                }
                let k = match e {
                    Entry::Short(n) => format!("v{}", n),
                    Entry::As(k, _) | Entry::Ign(k) => k.clone(),
                };
                m.push((k, small_val(rng, 1)));
            }
            if rng.chance(1, 3) {
                m.insert(0, ("other".into(), V::I(1)));
            }
            V::M(m)
        }
    }
}

fn gen_def(rng: &mut Rng, n_req: usize, n_opt: usize, variadic: bool, n_caps: usize, rich: bool) -> Def {
    let mut ng = NameGen(0);
    let mut params = vec![];
    for i in 0..n_req + n_opt {
        let k = if rich { rng.weighted(&[60, 10, 20, 10]) } else { 0 };
        let pat = match k {
            0 => Pat::Id(ng.next()),
            1 => Pat::Ign,
            2 => Pat::Tup(gen_tuple_pat(rng, &mut ng, 1)),
            _ => Pat::Map(gen_entries(rng, &mut ng)),
        };
        let default = if i >= n_req { Some(matching_val(rng, &pat, 1)) } else { None };
        params.push(Param { pat, default });
    }
    if variadic {
        params.push(Param { pat: Pat::Id(ng.next()), default: None });
    }
    let caps = (0..n_caps).map(|_| (ng.next(), small_val(rng, 1))).collect();
    let caps: Vec<(u32, V)> = caps;
    let self_ref = if rng.chance(1, 3) { Some(rng.below(caps.len() + 1)) } else { None };
    let n_late = [0, 0, 1, 2, 3][rng.below(5)];
    let lates = (0..n_late).map(|_| (ng.next(), small_val(rng, 1), rng.chance(1, 3))).collect();
    Def { params, variadic, caps, generator: rng.chance(1, 6), self_ref, lates }
}

/// call arguments for a flat list of values: group runs into packed containers, add empty packs
fn pack_args(rng: &mut Rng, flat: Vec<V>, n_packs: usize, allow_bad: bool) -> Vec<(V, bool)> {
    let mut out: Vec<(V, bool)> = vec![];
    let mut i = 0;
    let mut packs_left = n_packs;
    // positions where a pack starts
    while i < flat.len() {
        if packs_left > 0 && rng.chance(1, 2) {
            let len = rng.below(4).min(flat.len() - i);
            let xs: Vec<V> = flat[i..i + len].to_vec();
            out.push((pack_container(rng, xs), true));
            i += len;
            packs_left -= 1;
        } else {
            out.push((flat[i].clone(), false));
            i += 1;
        }
    }
    while packs_left > 0 {
        // empty packs at random positions (the negative offset case)
        let pos = rng.below(out.len() + 1);
        let v = if allow_bad && rng.chance(1, 12) { V::I(5) } else { pack_container(rng, vec![]) };
        out.insert(pos, (v, true));
        packs_left -= 1;
    }
    out
}

fn pack_container(rng: &mut Rng, xs: Vec<V>) -> V {
    // ranges / strings / maps when the elements allow it
    let ints: Option<Vec<i64>> = xs.iter().map(|x| if let V::I(i) = x { Some(*i) } else { None }).collect();
    if let Some(is) = &ints {
        if !is.is_empty() && is.windows(2).all(|w| w[1] == w[0] + 1) && rng.chance(1, 2) {
            return V::R(is[0], is[is.len() - 1] + 1);
        }
    }
    if !xs.is_empty() && xs.iter().all(|x| matches!(x, V::S(s) if s.len() == 1)) && rng.chance(1, 2) {
        return V::S(xs.iter().map(|x| if let V::S(s) = x { s.clone() } else { unreachable!() }).collect());
    }
    if rng.chance(1, 2) { V::T(xs) } else { V::L(xs) }
}

fn gen_call(rng: &mut Rng, d: &Def, count: usize, n_packs: usize, form_pick: usize) -> Call {
    let mut flat = vec![];
    for i in 0..count {
        let v = if i < d.arity() { matching_val(rng, &d.params[i].pat, 1) } else { small_val(rng, 1) };
        flat.push(v);
    }
    let form = match form_pick % 7 {
        0 => Form::Paren,
        1 => Form::Free,
        2 => Form::Piped(false),
        3 => Form::PipedInst,
        4 => Form::Inst(false),
        5 => Form::Inst(true),
        _ => Form::PipedInst,
    };
    let form = if form.is_piped() && count == 0 { if matches!(form, Form::PipedInst) { Form::Inst(false) } else { Form::Paren } } else { form };
    let depth = 1 + rng.below(3) as u8;
    let args = match form {
        Form::Piped(_) | Form::PipedInst => {
            let first = flat.remove(0);
            let mut a = vec![(first, false)];
            a.extend(pack_args(rng, flat, n_packs, true));
            a
        }
        _ => pack_args(rng, flat, n_packs, true),
    };
    // paren-free calls cannot start with a parenthesised/packed-empty ambiguity: `f ()...` is fine,
    // but a call without arguments is written `f()`
    // an identity stage before the call: through a method (1) or through a local function id
    // (2, the shape of F-C02-9, fixed b213b41)
    let pre = if form.is_piped() { [0, 1, 2][rng.below(3)] } else { 0 };
    Call { pre, depth, form, args }
}


// ------------------------------------------------------------------------------------------------
// duplicated argument names (bind family, `dup` cases)
//
// A name used twice in one argument list — in any pair of positions: top level, nested tuple (any
// depth), `rest...`, `{x}` entry, `{k as x}` rebind, variadic `xs...`, with or without defaults — must
// be a compile error (F-C02-11, fixed 7adfc01; never a panic, never a silently chosen binding).
// `_` / `_name` may repeat freely.

fn pat_positions(p: &Pat, top: bool, out: &mut Vec<(u32, &'static str)>) {
    match p {
        Pat::Id(n) => out.push((*n, if top { "top" } else { "nested" })),
        Pat::Pk(Some(n)) => out.push((*n, "rest")),
        Pat::Tup(ps) => ps.iter().for_each(|q| pat_positions(q, false, out)),
        Pat::Map(es) => es.iter().for_each(|e| match e {
            Entry::Short(n) => out.push((*n, "map-short")),
            Entry::As(_, n) => out.push((*n, "map-as")),
            _ => {}
        }),
        _ => {}
    }
}

fn rename_pat(p: &mut Pat, from: u32, to: u32) {
    match p {
        Pat::Id(n) | Pat::Pk(Some(n)) => {
            if *n == from {
                *n = to;
            }
        }
        Pat::Tup(ps) => ps.iter_mut().for_each(|q| rename_pat(q, from, to)),
        Pat::Map(es) => es.iter_mut().for_each(|e| match e {
            Entry::Short(n) | Entry::As(_, n) => {
                if *n == from {
                    *n = to;
                }
            }
            _ => {}
        }),
        _ => {}
    }
}

/// the definition with the name at position `j` replaced by the name at position `i`;
/// returns the kinds of the two positions
fn duplicate_names(d: &Def, i: usize, j: usize) -> Option<(Def, String)> {
    let mut pos: Vec<(u32, &'static str)> = vec![];
    let n = d.params.len();
    for (k, p) in d.params.iter().enumerate() {
        let before = pos.len();
        pat_positions(&p.pat, true, &mut pos);
        if d.variadic && k == n - 1 {
            for q in pos[before..].iter_mut() {
                q.1 = "variadic";
            }
        } else if p.default.is_some() && matches!(p.pat, Pat::Id(_)) {
            for q in pos[before..].iter_mut() {
                q.1 = "top-default";
            }
        }
    }
    if i >= pos.len() || j >= pos.len() || i == j {
        return None;
    }
    let mut d2 = d.clone();
    for p in d2.params.iter_mut() {
        rename_pat(&mut p.pat, pos[j].0, pos[i].0);
    }
    Some((d2, format!("{}x{}", pos[i.min(j)].1, pos[i.max(j)].1)))
}

// ------------------------------------------------------------------------------------------------
// family `cap`

#[derive(Clone, Debug)]
enum Ex {
    Lit(i64),
    Var(u32),
    Add(Box<Ex>, Box<Ex>),
    Sub(Box<Ex>, Box<Ex>),
    Lt(Box<Ex>, Box<Ex>),
    Par(Box<Ex>),
    Ite(Box<Ex>, Box<Ex>, Box<Ex>),
    Asg(u32, Box<Ex>),
    Fn(Vec<u32>, Vec<Ex>),
    Call(u32, Vec<Ex>),
}

fn ex_sexp(e: &Ex) -> String {
    match e {
        Ex::Lit(n) => format!("(lit {})", n),
        Ex::Var(x) => format!("(var {})", x),
        Ex::Add(a, b) => format!("(add {} {})", ex_sexp(a), ex_sexp(b)),
        Ex::Sub(a, b) => format!("(sub {} {})", ex_sexp(a), ex_sexp(b)),
        Ex::Lt(a, b) => format!("(lt {} {})", ex_sexp(a), ex_sexp(b)),
        Ex::Par(a) => format!("(par {})", ex_sexp(a)),
        Ex::Ite(c, t, f) => format!("(ite {} {} {})", ex_sexp(c), ex_sexp(t), ex_sexp(f)),
        Ex::Asg(x, a) => format!("(asg {} {})", x, ex_sexp(a)),
        Ex::Fn(ps, body) => format!(
            "(fn ({}) ({}))",
            ps.iter().map(|p| p.to_string()).collect::<Vec<_>>().join(" "),
            body.iter().map(ex_sexp).collect::<Vec<_>>().join(" ")
        ),
        Ex::Call(f, args) => format!("(call {}{})", f, args.iter().map(|a| format!(" {}", ex_sexp(a))).collect::<String>()),
    }
}

/// inline rendering (no function literals here: they are rendered by `stmt_koto`)
fn ex_koto(e: &Ex) -> String {
    match e {
        Ex::Lit(n) => n.to_string(),
        Ex::Var(x) => format!("v{}", x),
        Ex::Add(a, b) => format!("{} + {}", ex_koto(a), ex_koto(b)),
        Ex::Sub(a, b) => format!("{} - {}", ex_koto(a), ex_koto(b)),
        Ex::Lt(a, b) => format!("{} < {}", ex_koto(a), ex_koto(b)),
        Ex::Par(a) => format!("({})", ex_koto(a)),
        Ex::Ite(c, t, f) => format!("if {} then {} else {}", ex_koto(c), ex_koto(t), ex_koto(f)),
        Ex::Asg(x, a) => format!("v{} = {}", x, ex_koto(a)),
        Ex::Fn(..) => "<fn-not-inline>".into(),
        Ex::Call(f, args) => format!("v{}({})", f, args.iter().map(ex_koto).collect::<Vec<_>>().join(", ")),
    }
}

fn block_koto(body: &[Ex], indent: usize, out: &mut String) {
    let pad = "  ".repeat(indent);
    for s in body {
        match s {
            Ex::Asg(x, e) => {
                if let Ex::Fn(ps, b) = &**e {
                    out.push_str(&format!(
                        "{}v{} = |{}|\n",
                        pad,
                        x,
                        ps.iter().map(|p| format!("v{}", p)).collect::<Vec<_>>().join(", ")
                    ));
                    block_koto(b, indent + 1, out);
                    continue;
                }
                out.push_str(&format!("{}{}\n", pad, ex_koto(s)));
            }
            _ => out.push_str(&format!("{}{}\n", pad, ex_koto(s))),
        }
    }
}

#[derive(Clone, Debug)]
enum Ty {
    Int,
    Fun(usize),
}

struct CapGen<'a> {
    rng: &'a mut Rng,
    next: u32,
    f27_shapes: u32,
}

impl<'a> CapGen<'a> {
    fn fresh(&mut self) -> u32 {
        self.next += 1;
        self.next
    }
    fn atom(&mut self, scope: &[(u32, Ty)]) -> Ex {
        let ints: Vec<u32> = scope.iter().filter(|(_, t)| matches!(t, Ty::Int)).map(|(n, _)| *n).collect();
        if !ints.is_empty() && self.rng.chance(2, 3) {
            Ex::Var(ints[self.rng.below(ints.len())])
        } else {
            Ex::Lit(self.rng.range(0, 9))
        }
    }
    /// int-typed expression without assignments; `operand` = must be atomic in text
    fn int_ex(&mut self, scope: &[(u32, Ty)], depth: u32, operand: bool) -> Ex {
        if depth == 0 {
            return self.atom(scope);
        }
        let funs: Vec<(u32, usize)> = scope.iter().filter_map(|(n, t)| if let Ty::Fun(a) = t { Some((*n, *a)) } else { None }).collect();
        let k = self.rng.weighted(&[25, 30, 15, 12, if funs.is_empty() { 0 } else { 18 }]);
        let e = match k {
            0 => return self.atom(scope),
            1 => {
                let a = self.int_ex(scope, depth - 1, true);
                let b = self.int_ex(scope, depth - 1, true);
                if self.rng.chance(1, 2) { Ex::Add(Box::new(a), Box::new(b)) } else { Ex::Sub(Box::new(a), Box::new(b)) }
            }
            2 => Ex::Par(Box::new(self.int_ex(scope, depth - 1, false))),
            3 => {
                let c = Ex::Lt(Box::new(self.int_ex(scope, depth - 1, true)), Box::new(self.int_ex(scope, depth - 1, true)));
                let t = self.int_ex(scope, depth - 1, true);
                let f = self.int_ex(scope, depth - 1, true);
                Ex::Ite(Box::new(c), Box::new(t), Box::new(f))
            }
            _ => {
                let (f, ar) = funs[self.rng.below(funs.len())];
                let args = (0..ar).map(|_| self.int_ex(scope, depth - 1, true)).collect();
                return Ex::Call(f, args);
            }
        };
        match (&e, operand) {
            (Ex::Add(..) | Ex::Sub(..) | Ex::Ite(..), true) => Ex::Par(Box::new(e)),
            _ => e,
        }
    }
    /// a block whose last line is int-typed; may define nested closures and call them
    fn block(&mut self, scope: &mut Vec<(u32, Ty)>, fn_depth: u32, lines: usize, call_depth_ok: bool) -> Vec<Ex> {
        let mut out = vec![];
        for _ in 0..lines {
            let k = self.rng.weighted(&[40, 25, if fn_depth > 0 { 25 } else { 0 }, 10]);
            match k {
                0 => {
                    // new or re-assigned int variable
                    let ints: Vec<u32> = scope.iter().filter(|(_, t)| matches!(t, Ty::Int)).map(|(n, _)| *n).collect();
                    let x = if !ints.is_empty() && self.rng.chance(1, 2) { ints[self.rng.below(ints.len())] } else { self.fresh() };
                    // the target may be read anywhere in the right-hand side, also after inline-if
                    // branches (the shape of F-C02-1, fixed): no filter
                    let e = self.int_ex(scope, 2, false);
                    if read_after_list(x, &e) {
                        self.f27_shapes += 1;
                    }
                    out.push(Ex::Asg(x, Box::new(e)));
                    if !scope.iter().any(|(n, _)| *n == x) {
                        scope.push((x, Ty::Int));
                    }
                }
                1 => out.push(self.int_ex(scope, 2, false)),
                2 => {
                    // nested closure, possibly recursive
                    let f = self.fresh();
                    let ar = self.rng.below(3);
                    let ps: Vec<u32> = (0..ar).map(|_| self.fresh()).collect();
                    let mut inner: Vec<(u32, Ty)> = scope.clone();
                    for p in &ps {
                        inner.push((*p, Ty::Int));
                    }
                    let body = if ar > 0 && self.rng.chance(1, 3) {
                        // recursion: f(n) = if n < 1 then base else n + f(n - 1)
                        let n = ps[0];
                        let base = self.int_ex(&inner, 1, true);
                        let mut args = vec![Ex::Sub(Box::new(Ex::Var(n)), Box::new(Ex::Lit(1)))];
                        for p in &ps[1..] {
                            args.push(Ex::Var(*p));
                        }
                        vec![Ex::Ite(
                            Box::new(Ex::Lt(Box::new(Ex::Var(n)), Box::new(Ex::Lit(1)))),
                            Box::new(base),
                            Box::new(Ex::Add(Box::new(Ex::Var(n)), Box::new(Ex::Call(f, args)))),
                        )]
                    } else {
                        let n_lines = 1 + self.rng.below(3);
                        self.block(&mut inner, fn_depth - 1, n_lines, false)
                    };
                    out.push(Ex::Asg(f, Box::new(Ex::Fn(ps, body))));
                    scope.retain(|(n, _)| *n != f);
                    scope.push((f, Ty::Fun(ar)));
                }
                _ => {
                    // reassign an existing int variable to a literal (rebinding after capture)
                    let ints: Vec<u32> = scope.iter().filter(|(_, t)| matches!(t, Ty::Int)).map(|(n, _)| *n).collect();
                    if let Some(x) = ints.first().copied() {
                        let x = if self.rng.chance(1, 2) { x } else { ints[self.rng.below(ints.len())] };
                        out.push(Ex::Asg(x, Box::new(Ex::Lit(self.rng.range(10, 19)))));
                    }
                }
            }
        }
        let _ = call_depth_ok;
        // final int-typed line, preferring calls
        out.push(self.int_ex(scope, 2, false));
        out
    }
}

fn mentions(x: u32, e: &Ex) -> bool {
    match e {
        Ex::Lit(_) => false,
        Ex::Var(y) => *y == x,
        Ex::Add(a, b) | Ex::Sub(a, b) | Ex::Lt(a, b) => mentions(x, a) || mentions(x, b),
        Ex::Par(a) => mentions(x, a),
        Ex::Ite(c, t, f) => mentions(x, c) || mentions(x, t) || mentions(x, f),
        Ex::Asg(y, a) => *y == x || mentions(x, a),
        Ex::Fn(_, b) => b.iter().any(|s| mentions(x, s)),
        Ex::Call(g, args) => *g == x || args.iter().any(|a| mentions(x, a)),
    }
}
fn has_list(e: &Ex) -> bool {
    match e {
        Ex::Lit(_) | Ex::Var(_) | Ex::Fn(..) => false,
        Ex::Add(a, b) | Ex::Sub(a, b) | Ex::Lt(a, b) => has_list(a) || has_list(b),
        Ex::Par(a) => has_list(a),
        Ex::Ite(..) | Ex::Asg(..) => true,
        Ex::Call(_, args) => args.iter().any(has_list),
    }
}
/// the shape of F-C02-1 (fixed): in `x = e`, `x` is read at or after the first nested expression list
/// of `e`; generated like everything else, only counted
fn read_after_list(x: u32, e: &Ex) -> bool {
    match e {
        Ex::Lit(_) | Ex::Var(_) => false,
        Ex::Add(a, b) | Ex::Sub(a, b) | Ex::Lt(a, b) => read_after_list(x, a) || (has_list(a) && mentions(x, b)) || read_after_list(x, b),
        Ex::Par(a) => read_after_list(x, a),
        Ex::Ite(c, t, f) => read_after_list(x, c) || mentions(x, t) || mentions(x, f),
        Ex::Asg(_, a) => read_after_list(x, a),
        Ex::Fn(_, b) => b.iter().any(|s| mentions(x, s)),
        Ex::Call(_, args) => {
            for (i, a) in args.iter().enumerate() {
                if read_after_list(x, a) || (has_list(a) && args[i + 1..].iter().any(|b| mentions(x, b))) {
                    return true;
                }
            }
            false
        }
    }
}

/// (number of closures, number of recursive closures, nesting depth)
fn cap_stats(b: &[Ex]) -> (usize, usize, usize) {
    let mut nf = 0;
    let mut nr = 0;
    let mut depth = 0;
    for s in b {
        if let Ex::Asg(x, e) = s {
            if let Ex::Fn(_, body) = &**e {
                let (a, r, d) = cap_stats(body);
                nf += 1 + a;
                nr += r + body.iter().any(|l| mentions(*x, l)) as usize;
                depth = depth.max(1 + d);
            }
        }
    }
    (nf, nr, depth)
}

fn count_f27(b: &[Ex]) -> usize {
    b.iter()
        .map(|s| match s {
            Ex::Asg(x, e) => match &**e {
                Ex::Fn(_, body) => count_f27(body),
                other => read_after_list(*x, other) as usize,
            },
            _ => 0,
        })
        .sum()
}

fn gen_cap_script(rng: &mut Rng) -> Vec<Ex> {
    let mut g = CapGen { rng, next: 0, f27_shapes: 0 };
    let mut scope: Vec<(u32, Ty)> = vec![];
    let mut script = vec![];
    for _ in 0..1 + g.rng.below(3) {
        let x = g.fresh();
        script.push(Ex::Asg(x, Box::new(Ex::Lit(g.rng.range(0, 9)))));
        scope.push((x, Ty::Int));
    }
    let lines = 2 + g.rng.below(4);
    let body = g.block(&mut scope, 3, lines, true);
    script.extend(body);
    script
}


// ------------------------------------------------------------------------------------------------
// family `capx` — the parser's capture analysis on the wider statement syntax
//
// (K)  for every function literal of the script: Model/CaptureX.lean `accessedX` = the real
//      parser's `Function::accessed_non_locals` (as sets of names);
// (D1) completeness: the declaratively free names (`freeX`) ⊆ the real set;
// (D2) metamorphic run: the closure `f = |p…| body` called after the outer variables were
//      reassigned gives the same result and trace as `g = |p…, free…| body` called with the values
//      the free variables had when `f` was created (parameters are never captured, so `g` does not
//      depend on the analysis) — "a closure sees the values its free variables had when created".

const ID_EMIT: u32 = 9001;
const ID_SIZE: u32 = 9002;

#[derive(Clone, Debug)]
enum XT {
    Id(u32),
    Short(u32),
    As(u32),
}

#[derive(Clone, Debug)]
enum XN {
    Lit(i64),
    Var(u32),
    Op(&'static str, Box<XN>, Box<XN>),
    Par(Box<XN>),
    Ite(Box<XN>, Box<XN>, Box<XN>),
    Str(Vec<XN>),  // (size '{e}-{e}')
    Tup(Vec<XN>),  // (size (e, e))
    Asg(u32, Box<XN>),
    MAsg(Vec<XT>, Vec<XN>),
    Fn(Vec<u32>, Vec<XN>),
    Call(u32, Vec<XN>),
    If(Box<XN>, Vec<XN>, Vec<XN>),
    For(u32, Box<XN>, Vec<XN>),       // for v in 0..e
    While(bool, Box<XN>, Vec<XN>),    // until?, condition
    Switch(Vec<(XN, XN)>, Box<XN>),
    Match(Box<XN>, Vec<(Option<u32>, i64, Option<XN>, XN)>, Box<XN>),
    Yield(Box<XN>),
    /// `f, g = (|p| e), (|q| e')` : function literals built in temporaries, mutually recursive
    MFn(Vec<(u32, Vec<u32>, XN)>),
}

fn xname(n: u32) -> String {
    match n {
        ID_EMIT => "emit".into(),
        ID_SIZE => "size".into(),
        _ => format!("v{}", n),
    }
}

fn xn_sexp(e: &XN) -> String {
    let l = |es: &[XN]| es.iter().map(xn_sexp).collect::<Vec<_>>().join(" ");
    match e {
        XN::Lit(_) => "(lit)".into(),
        XN::Var(x) => format!("(var {})", x),
        XN::Op(_, a, b) => format!("(op {} {})", xn_sexp(a), xn_sexp(b)),
        XN::Par(a) => format!("(par {})", xn_sexp(a)),
        XN::Ite(c, t, f) => format!("(ite {} {} {})", xn_sexp(c), xn_sexp(t), xn_sexp(f)),
        XN::Str(es) => format!("(par (call {} (str {})))", ID_SIZE, l(es)),
        XN::Tup(es) => format!("(par (call {} (tup {})))", ID_SIZE, l(es)),
        XN::Asg(x, a) => format!("(asg {} {})", x, xn_sexp(a)),
        XN::MAsg(ts, es) => format!(
            "(masg ({}) ({}))",
            ts.iter()
                .map(|t| match t {
                    XT::Id(x) => format!("(id {})", x),
                    XT::Short(x) => format!("(short {})", x),
                    XT::As(x) => format!("(as {})", x),
                })
                .collect::<Vec<_>>()
                .join(" "),
            l(es)
        ),
        XN::Fn(ps, b) => format!("(fn ({}) ({}))", ps.iter().map(|p| p.to_string()).collect::<Vec<_>>().join(" "), l(b)),
        XN::Call(g, args) => format!("(call {}{})", g, args.iter().map(|a| format!(" {}", xn_sexp(a))).collect::<String>()),
        XN::If(c, t, f) => format!("(ifb {} ({}) ({}))", xn_sexp(c), l(t), l(f)),
        XN::For(v, hi, b) => format!("(for {} (op (lit) {}) ({}))", v, xn_sexp(hi), l(b)),
        XN::While(_, c, b) => format!("(while {} ({}))", xn_sexp(c), l(b)),
        XN::Switch(arms, els) => format!(
            "(switch ({}) {})",
            arms.iter().map(|(c, e)| format!("(sarm {} {})", xn_sexp(c), xn_sexp(e))).collect::<Vec<_>>().join(" "),
            xn_sexp(els)
        ),
        XN::Match(subj, arms, els) => format!(
            "(match {} ({}) {})",
            xn_sexp(subj),
            arms.iter()
                .map(|(p, _, g, e)| format!(
                    "(marm {} {} {})",
                    p.map(|x| x.to_string()).unwrap_or("-".into()),
                    g.as_ref().map(xn_sexp).unwrap_or("-".into()),
                    xn_sexp(e)
                ))
                .collect::<Vec<_>>()
                .join(" "),
            xn_sexp(els)
        ),
        XN::Yield(a) => format!("(yield {})", xn_sexp(a)),
        XN::MFn(fs) => format!(
            "(masg ({}) ({}))",
            fs.iter().map(|(f, _, _)| format!("(id {})", f)).collect::<Vec<_>>().join(" "),
            fs.iter()
                .map(|(_, ps, e)| format!("(par (fn ({}) ({})))", ps.iter().map(|p| p.to_string()).collect::<Vec<_>>().join(" "), xn_sexp(e)))
                .collect::<Vec<_>>()
                .join(" ")
        ),
    }
}

/// inline rendering of an expression
fn xn_koto(e: &XN) -> String {
    match e {
        XN::Lit(n) => n.to_string(),
        XN::Var(x) => xname(*x),
        XN::Op(o, a, b) => format!("{} {} {}", xn_koto(a), o, xn_koto(b)),
        XN::Par(a) => format!("({})", xn_koto(a)),
        XN::Ite(c, t, f) => format!("if {} then {} else {}", xn_koto(c), xn_koto(t), xn_koto(f)),
        XN::Str(es) => format!("(size '{}')", es.iter().map(|e| format!("{{{}}}", xn_koto(e))).collect::<Vec<_>>().join("-")),
        XN::Tup(es) => format!("(size ({},))", es.iter().map(xn_koto).collect::<Vec<_>>().join(", ")),
        XN::Asg(x, a) => format!("{} = {}", xname(*x), xn_koto(a)),
        XN::Call(g, args) => format!("{}({})", xname(*g), args.iter().map(xn_koto).collect::<Vec<_>>().join(", ")),
        XN::Yield(a) => format!("yield {}", xn_koto(a)),
        XN::MFn(fs) => format!(
            "{} = {}",
            fs.iter().map(|(f, _, _)| xname(*f)).collect::<Vec<_>>().join(", "),
            fs.iter()
                .map(|(_, ps, e)| format!("(|{}| {})", ps.iter().map(|p| xname(*p)).collect::<Vec<_>>().join(", "), xn_koto(e)))
                .collect::<Vec<_>>()
                .join(", ")
        ),
        XN::MAsg(ts, es) => {
            let t: Vec<String> = ts
                .iter()
                .enumerate()
                .map(|(i, t)| match t {
                    XT::Id(x) => xname(*x),
                    XT::Short(x) => format!("{{{}}}", xname(*x)),
                    XT::As(x) => format!("{{k{} as {}}}", i, xname(*x)),
                })
                .collect();
            let r: Vec<String> = ts
                .iter()
                .zip(es.iter())
                .enumerate()
                .map(|(i, (t, e))| match t {
                    XT::Id(_) => xn_koto(e),
                    XT::Short(x) => format!("{{{}: {}}}", xname(*x), xn_koto(e)),
                    XT::As(_) => format!("{{k{}: {}}}", i, xn_koto(e)),
                })
                .collect();
            format!("{} = {}", t.join(", "), r.join(", "))
        }
        _ => "<block-form>".into(),
    }
}

fn xn_block(b: &[XN], indent: usize, out: &mut String) {
    let pad = "  ".repeat(indent);
    for s in b {
        match s {
            XN::Asg(x, e) => match &**e {
                XN::Fn(ps, body) => {
                    out.push_str(&format!("{}{} = |{}|\n", pad, xname(*x), ps.iter().map(|p| xname(*p)).collect::<Vec<_>>().join(", ")));
                    xn_block(body, indent + 1, out);
                }
                XN::Switch(arms, els) => {
                    out.push_str(&format!("{}{} = switch\n", pad, xname(*x)));
                    for (c, e) in arms {
                        out.push_str(&format!("{}  {} then {}\n", pad, xn_koto(c), xn_koto(e)));
                    }
                    out.push_str(&format!("{}  else {}\n", pad, xn_koto(els)));
                }
                XN::Match(subj, arms, els) => {
                    out.push_str(&format!("{}{} = match {}\n", pad, xname(*x), xn_koto(subj)));
                    for (p, lit, g, e) in arms {
                        let pat = p.map(xname).unwrap_or(lit.to_string());
                        let guard = g.as_ref().map(|g| format!(" if {}", xn_koto(g))).unwrap_or_default();
                        out.push_str(&format!("{}  {}{} then {}\n", pad, pat, guard, xn_koto(e)));
                    }
                    out.push_str(&format!("{}  else {}\n", pad, xn_koto(els)));
                }
                _ => out.push_str(&format!("{}{}\n", pad, xn_koto(s))),
            },
            XN::If(c, t, f) => {
                out.push_str(&format!("{}if {}\n", pad, xn_koto(c)));
                xn_block(t, indent + 1, out);
                if !f.is_empty() {
                    out.push_str(&format!("{}else\n", pad));
                    xn_block(f, indent + 1, out);
                }
            }
            XN::For(v, hi, body) => {
                out.push_str(&format!("{}for {} in 0..{}\n", pad, xname(*v), xn_koto(hi)));
                xn_block(body, indent + 1, out);
            }
            XN::While(until, c, body) => {
                out.push_str(&format!("{}{} {}\n", pad, if *until { "until" } else { "while" }, xn_koto(c)));
                xn_block(body, indent + 1, out);
            }
            _ => out.push_str(&format!("{}{}\n", pad, xn_koto(s))),
        }
    }
}

struct XGen<'a> {
    rng: &'a mut Rng,
    next: u32,
    generator: bool,
    first_line_as_ok: bool,
}

impl<'a> XGen<'a> {
    fn fresh(&mut self) -> u32 {
        self.next += 1;
        self.next
    }
    fn atom(&mut self, ints: &[u32]) -> XN {
        if !ints.is_empty() && self.rng.chance(2, 3) {
            XN::Var(ints[self.rng.below(ints.len())])
        } else {
            XN::Lit(self.rng.range(0, 5))
        }
    }
    fn cond(&mut self, ints: &[u32]) -> XN {
        let op = ["<", "<=", "==", "!=", ">"][self.rng.below(5)];
        XN::Op(op, Box::new(self.atom(ints)), Box::new(self.atom(ints)))
    }
    /// int-typed expression; `assignable`: variables that may be assigned by nested assignments
    fn ex(&mut self, ints: &mut Vec<u32>, funs: &[(u32, usize)], assignable: &[u32], depth: u32, operand: bool) -> XN {
        if depth == 0 {
            return self.atom(ints);
        }
        let k = self.rng.weighted(&[22, 26, 8, 12, 8, 6, if assignable.is_empty() { 0 } else { 8 }, if funs.is_empty() { 0 } else { 12 }]);
        let e = match k {
            0 => return self.atom(ints),
            1 => {
                let a = self.ex(ints, funs, assignable, depth - 1, true);
                let b = self.ex(ints, funs, assignable, depth - 1, true);
                XN::Op(if self.rng.chance(1, 2) { "+" } else { "-" }, Box::new(a), Box::new(b))
            }
            2 => XN::Par(Box::new(self.ex(ints, funs, assignable, depth - 1, false))),
            3 => {
                let c = self.cond(ints);
                let t = self.ex(ints, funs, assignable, depth - 1, true);
                let f = self.ex(ints, funs, assignable, depth - 1, true);
                XN::Ite(Box::new(c), Box::new(t), Box::new(f))
            }
            4 => {
                let n = 1 + self.rng.below(3);
                return XN::Str((0..n).map(|_| self.ex(ints, funs, assignable, depth - 1, false)).collect());
            }
            5 => {
                let n = 1 + self.rng.below(3);
                return XN::Tup((0..n).map(|_| self.ex(ints, funs, assignable, depth - 1, true)).collect());
            }
            6 => {
                // assignment nested in an expression, value = the assigned value
                let x = assignable[self.rng.below(assignable.len())];
                let r = self.ex(ints, funs, assignable, depth - 1, false);
                if !ints.contains(&x) {
                    ints.push(x);
                }
                return XN::Par(Box::new(XN::Asg(x, Box::new(r))));
            }
            _ => {
                let (f, ar) = funs[self.rng.below(funs.len())];
                let args = (0..ar).map(|_| self.ex(ints, funs, assignable, depth - 1, true)).collect();
                return XN::Call(f, args);
            }
        };
        match (&e, operand) {
            (XN::Op(..) | XN::Ite(..), true) => XN::Par(Box::new(e)),
            _ => e,
        }
    }

    /// lines of a function body / block. `ints`: readable int variables (captured, parameters,
    /// locals), `frozen`: loop counters that must not be assigned
    fn lines(&mut self, ints: &mut Vec<u32>, funs: &mut Vec<(u32, usize)>, frozen: &[u32], fn_depth: u32, depth: u32, n: usize) -> Vec<XN> {
        let mut out = vec![];
        // F-C02-6 (fixed 5baba35): `as` rebinds are generated in every line, also the first line of
        // a block body where the header's reads are still pending
        let first_as_ok = self.first_line_as_ok;
        self.first_line_as_ok = false;
        for line_no in 0..n {
            let assignable: Vec<u32> = ints.iter().copied().filter(|x| !frozen.contains(x)).collect();
            let block_ok = depth > 0;
            let k = self.rng.weighted(&[
                26,
                8,
                if block_ok { 12 } else { 0 },
                if block_ok { 8 } else { 0 },
                if block_ok { 8 } else { 0 },
                8,
                8,
                10,
                if fn_depth > 0 { 10 } else { 0 },
                if self.generator { 10 } else { 0 },
                8,
                if fn_depth > 0 { 6 } else { 0 },
            ]);
            match k {
                0 => {
                    // x = e (x existing or new; e may read x anywhere)
                    let x = if !assignable.is_empty() && self.rng.chance(2, 3) { assignable[self.rng.below(assignable.len())] } else { self.fresh() };
                    let e = self.ex(ints, funs, &assignable, 2, false);
                    out.push(XN::Asg(x, Box::new(e)));
                    if !ints.contains(&x) {
                        ints.push(x);
                    }
                }
                1 => out.push(XN::Call(ID_EMIT, vec![self.ex(ints, funs, &assignable, 2, false)])),
                2 => {
                    // block if: the header reads, the branches assign
                    let c = self.cond(ints);
                    let mut i1 = ints.clone();
                    let n1 = 1 + self.rng.below(3);
                    let t = self.lines(&mut i1, &mut funs.clone(), frozen, fn_depth, depth - 1, n1);
                    let f = if self.rng.chance(1, 2) {
                        let mut i2 = ints.clone();
                        let n2 = 1 + self.rng.below(2);
                        self.lines(&mut i2, &mut funs.clone(), frozen, fn_depth, depth - 1, n2)
                    } else {
                        vec![]
                    };
                    out.push(XN::If(Box::new(c), t, f));
                }
                3 => {
                    // the loop variable is a fresh name, or (F-C02-7, fixed d2ad1f4) the name of a
                    // readable variable, preferably the one the iterable reads
                    let hi = if self.rng.chance(1, 2) { self.atom(ints) } else { XN::Lit(self.rng.range(0, 3)) };
                    let v = match (&hi, self.rng.below(3)) {
                        (XN::Var(x), 0) if !frozen.contains(x) => *x,
                        (_, 1) if !assignable.is_empty() => assignable[self.rng.below(assignable.len())],
                        _ => self.fresh(),
                    };
                    let hi = match hi {
                        XN::Var(x) => XN::Par(Box::new(XN::Op("-", Box::new(XN::Var(x)), Box::new(XN::Par(Box::new(XN::Op("-", Box::new(XN::Var(x)), Box::new(XN::Lit(2))))))))),
                        other => other,
                    };
                    let mut i1 = ints.clone();
                    if !i1.contains(&v) {
                        i1.push(v);
                    }
                    if !ints.contains(&v) {
                        // after the loop the variable is assigned only if the loop ran; it is
                        // readable in the body only
                    }
                    let mut fr = frozen.to_vec();
                    fr.push(v);
                    let n1 = 1 + self.rng.below(3);
                    let body = self.lines(&mut i1, &mut funs.clone(), &fr, fn_depth, depth - 1, n1);
                    out.push(XN::For(v, Box::new(hi), body));
                }
                4 => {
                    // counter controlled while / until; the condition also reads a variable that
                    // the body may assign
                    let kv = self.fresh();
                    out.push(XN::Asg(kv, Box::new(XN::Lit(0))));
                    ints.push(kv);
                    let bound = self.rng.range(0, 3);
                    let until = self.rng.chance(1, 2);
                    let c = if until {
                        XN::Op(">=", Box::new(XN::Var(kv)), Box::new(XN::Lit(bound)))
                    } else {
                        XN::Op("<", Box::new(XN::Var(kv)), Box::new(XN::Lit(bound)))
                    };
                    let extra = self.atom(ints);
                    let c = if until {
                        XN::Op("or", Box::new(c), Box::new(XN::Par(Box::new(XN::Op(">", Box::new(extra), Box::new(XN::Lit(1000000)))))))
                    } else {
                        XN::Op("and", Box::new(c), Box::new(XN::Par(Box::new(XN::Op("<", Box::new(extra), Box::new(XN::Lit(1000000)))))))
                    };
                    let mut i1 = ints.clone();
                    let mut fr = frozen.to_vec();
                    fr.push(kv);
                    let n1 = 1 + self.rng.below(3);
                    let mut body = self.lines(&mut i1, &mut funs.clone(), &fr, fn_depth, depth - 1, n1);
                    body.push(XN::Asg(kv, Box::new(XN::Op("+", Box::new(XN::Var(kv)), Box::new(XN::Lit(1))))));
                    out.push(XN::While(until, Box::new(c), body));
                }
                5 => {
                    // x = switch …
                    let x = if !assignable.is_empty() && self.rng.chance(1, 2) { assignable[self.rng.below(assignable.len())] } else { self.fresh() };
                    let n_arms = 1 + self.rng.below(2);
                    let arms = (0..n_arms).map(|_| (self.cond(ints), self.ex(ints, funs, &[], 1, true))).collect();
                    let els = self.ex(ints, funs, &[], 1, true);
                    out.push(XN::Asg(x, Box::new(XN::Switch(arms, Box::new(els)))));
                    if !ints.contains(&x) {
                        ints.push(x);
                    }
                }
                6 => {
                    // x = match subject / literal and binding patterns with guards
                    let x = if !assignable.is_empty() && self.rng.chance(1, 2) { assignable[self.rng.below(assignable.len())] } else { self.fresh() };
                    let subj = self.ex(ints, funs, &[], 1, false);
                    let mut arms = vec![(None, self.rng.range(0, 4), None, self.ex(ints, funs, &[], 1, true))];
                    if self.rng.chance(2, 3) {
                        let y = self.fresh();
                        let mut i1 = ints.clone();
                        i1.push(y);
                        let guard = if self.rng.chance(2, 3) { Some(self.cond(&i1)) } else { None };
                        let body = self.ex(&mut i1, funs, &[], 1, true);
                        let has_guard = guard.is_some();
                        arms.push((Some(y), 0, guard, body));
                        if !has_guard {
                            // a binding pattern without guard always matches: it is the last arm
                        }
                    }
                    let els = self.ex(ints, funs, &[], 1, true);
                    out.push(XN::Asg(x, Box::new(XN::Match(Box::new(subj), arms, Box::new(els)))));
                    if !ints.contains(&x) {
                        ints.push(x);
                    }
                }
                7 => {
                    // multi-assignment with ids, {x} and {k as x}; the right-hand sides read the
                    // same-named (outer) variables
                    let n_t = 2 + self.rng.below(2);
                    let mut ts = vec![];
                    let mut es = vec![];
                    let mut used = vec![];
                    for _ in 0..n_t {
                        let cands: Vec<u32> = assignable.iter().copied().filter(|x| !used.contains(x)).collect();
                        let x = if !cands.is_empty() && self.rng.chance(2, 3) { cands[self.rng.below(cands.len())] } else { self.fresh() };
                        used.push(x);
                        let _ = (line_no, first_as_ok);
                        ts.push(match self.rng.below(3) {
                            0 => XT::Id(x),
                            1 => XT::Short(x),
                            _ => XT::As(x),
                        });
                    }
                    for _ in 0..n_t {
                        let e = self.ex(ints, funs, &[], 1, true);
                        es.push(e);
                    }
                    // make sure the targets' current values are read on the right
                    for (i, x) in used.iter().enumerate() {
                        if ints.contains(x) && self.rng.chance(1, 2) {
                            es[(i + 1) % n_t] = XN::Var(*x);
                        }
                    }
                    out.push(XN::MAsg(ts, es));
                    for x in used {
                        if !ints.contains(&x) {
                            ints.push(x);
                        }
                    }
                }
                8 => {
                    // nested closure (1–3 deep), called later
                    // the name is fresh or shadows a readable variable of the enclosing scopes
                    let f = if !assignable.is_empty() && self.rng.chance(1, 3) { assignable[self.rng.below(assignable.len())] } else { self.fresh() };
                    let recursive = self.rng.chance(1, 3);
                    let ar = if recursive { 1 } else { self.rng.below(2) };
                    let ps: Vec<u32> = (0..ar).map(|_| self.fresh()).collect();
                    let mut i1: Vec<u32> = ints.iter().copied().filter(|x| *x != f).collect();
                    i1.extend(ps.iter().copied());
                    let was_gen = self.generator;
                    self.generator = false;
                    let n1 = 1 + self.rng.below(3);
                    self.first_line_as_ok = true;
                    let mut inner_funs: Vec<(u32, usize)> = funs.iter().copied().filter(|(g, _)| *g != f).collect();
                    // the parameter a recursive closure counts down on is never assigned in its body
                    let fr: Vec<u32> = if recursive { vec![ps[0]] } else { vec![] };
                    let mut body = self.lines(&mut i1, &mut inner_funs, &fr, fn_depth - 1, 1, n1);
                    if recursive {
                        // … if p < 1 then base else f(p - 1)
                        let base = self.ex(&mut i1, &inner_funs, &[], 1, true);
                        body.push(XN::Ite(
                            Box::new(XN::Op("<", Box::new(XN::Var(ps[0])), Box::new(XN::Lit(1)))),
                            Box::new(base),
                            Box::new(XN::Call(f, vec![XN::Op("-", Box::new(XN::Var(ps[0])), Box::new(XN::Lit(1)))])),
                        ));
                    } else {
                        body.push(self.ex(&mut i1, &inner_funs, &[], 1, false));
                    }
                    self.generator = was_gen;
                    out.push(XN::Asg(f, Box::new(XN::Fn(ps, body))));
                    ints.retain(|x| *x != f);
                    funs.retain(|(g, _)| *g != f);
                    funs.push((f, ar));
                }
                9 => out.push(XN::Yield(Box::new(self.ex(ints, funs, &assignable, 1, false)))),
                11 => {
                    // mutual recursion through a multi-assignment: the function values are built in
                    // temporaries; the names may shadow variables of the enclosing scopes
                    let n_f = 2 + self.rng.below(2);
                    let mut names: Vec<u32> = vec![];
                    for _ in 0..n_f {
                        let cands: Vec<u32> = assignable.iter().copied().filter(|x| !names.contains(x)).collect();
                        let x = if !cands.is_empty() && self.rng.chance(1, 2) { cands[self.rng.below(cands.len())] } else { self.fresh() };
                        names.push(x);
                    }
                    let readable: Vec<u32> = ints.iter().copied().filter(|x| !names.contains(x)).collect();
                    let mut fs = vec![];
                    for i in 0..n_f {
                        let p = self.fresh();
                        let mut r = readable.clone();
                        r.push(p);
                        let base = self.atom(&r);
                        let other = names[(i + 1 + self.rng.below(n_f - 1)) % n_f];
                        let callee = if self.rng.chance(1, 4) { names[i] } else { other };
                        let body = XN::Ite(
                            Box::new(XN::Op("<", Box::new(XN::Var(p)), Box::new(XN::Lit(1)))),
                            Box::new(base),
                            Box::new(XN::Call(callee, vec![XN::Op("-", Box::new(XN::Var(p)), Box::new(XN::Lit(1)))])),
                        );
                        fs.push((names[i], vec![p], body));
                    }
                    out.push(XN::MFn(fs));
                    ints.retain(|x| !names.contains(x));
                    funs.retain(|(f, _)| !names.contains(f));
                    for x in names {
                        funs.push((x, 1));
                    }
                }
                _ => out.push(self.ex(ints, funs, &assignable, 2, false)),
            }
        }
        out
    }
}

#[derive(Clone, Debug)]
struct CapxCase {
    outer: Vec<(u32, i64)>,
    params: Vec<u32>,
    args: Vec<i64>,
    body: Vec<XN>,
    generator: bool,
    f: u32,
}

impl CapxCase {
    fn script_ast(&self) -> Vec<XN> {
        let mut s: Vec<XN> = self.outer.iter().map(|(x, v)| XN::Asg(*x, Box::new(XN::Lit(*v)))).collect();
        s.push(XN::Asg(self.f, Box::new(XN::Fn(self.params.clone(), self.body.clone()))));
        s
    }
    fn request(&self) -> String {
        format!("capx {}", self.script_ast().iter().map(xn_sexp).collect::<Vec<_>>().join(" "))
    }
    /// script A (closure); `extra` = free variables passed as parameters instead (script B)
    fn koto(&self, extra: Option<&[u32]>) -> String {
        self.koto_with(extra, None)
    }
    /// `keep_outer`: only these outer variables are defined (script C)
    fn koto_with(&self, extra: Option<&[u32]>, keep_outer: Option<&[u32]>) -> String {
        let mut s = String::new();
        for (x, v) in &self.outer {
            if keep_outer.map(|k| k.contains(x)).unwrap_or(true) {
                s.push_str(&format!("{} = {}\n", xname(*x), v));
            }
        }
        let mut ps = self.params.clone();
        if let Some(e) = extra {
            ps.extend(e.iter().copied());
        }
        s.push_str(&format!("{} = |{}|\n", xname(self.f), ps.iter().map(|p| xname(*p)).collect::<Vec<_>>().join(", ")));
        xn_block(&self.body, 1, &mut s);
        // the values at creation time, then the outer variables are rebound
        let mut args: Vec<String> = self.args.iter().map(|a| a.to_string()).collect();
        if let Some(e) = extra {
            for x in e {
                let v = self.outer.iter().find(|(y, _)| y == x).map(|p| p.1.to_string()).unwrap_or("null".into());
                args.push(v);
            }
        }
        for (x, _) in &self.outer {
            if keep_outer.map(|k| k.contains(x)).unwrap_or(true) {
                s.push_str(&format!("{} = 1000\n", xname(*x)));
            }
        }
        if self.generator {
            s.push_str(&format!("{}({}).to_tuple()\n", xname(self.f), args.join(", ")));
        } else {
            s.push_str(&format!("{}({})\n", xname(self.f), args.join(", ")));
        }
        s
    }
}

fn gen_capx(rng: &mut Rng) -> CapxCase {
    let n_outer = 1 + rng.below(4);
    let outer: Vec<(u32, i64)> = (0..n_outer).map(|i| (i as u32 + 1, rng.range(0, 5))).collect();
    let n_params = rng.below(3);
    let mut next = n_outer as u32;
    let params: Vec<u32> = (0..n_params).map(|_| { next += 1; next }).collect();
    let args: Vec<i64> = (0..n_params).map(|_| rng.range(0, 5)).collect();
    next += 1;
    let f = next;
    let generator = rng.chance(1, 4);
    let mut g = XGen { rng, next, generator, first_line_as_ok: true };
    let mut ints: Vec<u32> = outer.iter().map(|p| p.0).chain(params.iter().copied()).collect();
    let mut funs = vec![];
    let n = 2 + g.rng.below(5);
    let mut body = g.lines(&mut ints, &mut funs, &[], 3, 2, n);
    if generator {
        if !body.iter().any(|l| matches!(l, XN::Yield(_))) {
            let e = g.ex(&mut ints, &funs, &[], 1, false);
            body.push(XN::Yield(Box::new(e)));
        }
    } else {
        let e = g.ex(&mut ints, &funs, &[], 2, false);
        body.push(e);
    }
    CapxCase { outer, params, args, body, generator, f }
}

/// the real parser's `accessed_non_locals` for every function literal, in AST (post-)order
fn real_accessed(src: &str) -> Result<Vec<Vec<String>>, String> {
    let ast = koto_parser::Parser::parse(src).map_err(|e| e.to_string())?;
    let mut out = vec![];
    for n in ast.nodes() {
        if let koto_parser::Node::Function(f) = &n.node {
            let mut names: Vec<String> = f.accessed_non_locals.iter().map(|c| ast.constants().get_str(*c).to_string()).collect();
            names.sort();
            names.dedup();
            out.push(names);
        }
    }
    Ok(out)
}

fn parse_name_list(s: &str) -> Vec<u32> {
    s.trim_matches(|c| c == '(' || c == ')').split(' ').filter_map(|x| x.parse().ok()).collect()
}

/// evaluates one capx case; returns Err(why, implementation text, model text) on a violation
fn capx_check(rt: &mut Runtime, case: &CapxCase, model: &str) -> Result<(), (String, String, String)> {
    let a = case.koto(None);
    let real = match real_accessed(&a) {
        Ok(r) => r,
        Err(e) => return Err(("the generated script does not parse".into(), e, model.to_string())),
    };
    // model: `a=(…) f=(…) ; …`
    let mut m_acc: Vec<Vec<String>> = vec![];
    let mut m_free: Vec<Vec<u32>> = vec![];
    for part in model.split(" ; ").filter(|p| !p.is_empty()) {
        let (pa, pf) = part.split_once(" f=").unwrap_or((part, "()"));
        let mut names: Vec<String> = parse_name_list(pa.trim_start_matches("a=")).iter().map(|n| xname(*n)).collect();
        names.sort();
        names.dedup();
        m_acc.push(names);
        m_free.push(parse_name_list(pf));
    }
    let real_text = format!("{:?}", real);
    if real.len() != m_acc.len() {
        return Err(("number of function literals differs".into(), real_text, model.to_string()));
    }
    for (i, (r, m)) in real.iter().zip(m_acc.iter()).enumerate() {
        // (D1) completeness first: it is the property
        for x in &m_free[i] {
            if !r.contains(&xname(*x)) {
                return Err((
                    format!("capture lost: function #{} reads `{}` before it is local, but the parser's accessed_non_locals is {:?}", i, xname(*x), r),
                    real_text,
                    model.to_string(),
                ));
            }
        }
        if r != m {
            return Err((format!("accessed_non_locals of function #{} differs from Model/CaptureX.lean accessedX", i), real_text, model.to_string()));
        }
    }
    // (D2) closure vs parameters
    let free_outer: Vec<u32> = m_free.last().map(|f| f.iter().copied().filter(|x| case.outer.iter().any(|(y, _)| y == x)).collect()).unwrap_or_default();
    let b = case.koto(Some(&free_outer));
    let t0 = std::time::Instant::now();
    let (ra, ta) = rt.run(&a);
    if std::env::var("C02_SLOW").is_ok() && t0.elapsed().as_millis() > 500 {
        eprintln!("SLOW {} ms -> {}\n{}", t0.elapsed().as_millis(), ra, a);
    }
    let (rb, tb) = rt.run(&b);
    if ra != rb || ta != tb {
        return Err((
            "the closure called after its free variables were rebound differs from the same body with the free variables passed as parameters (values at creation)".into(),
            format!("closure: {} | {}  ;  parameters: {} | {}", ta.join(" "), ra, tb.join(" "), rb),
            model.to_string(),
        ));
    }
    // (D3) a function does not depend on outer variables that are not free in it: the same script
    // without them (e.g. without same-named variables shadowed by inner definitions)
    if free_outer.len() < case.outer.len() {
        let c = case.koto_with(None, Some(&free_outer));
        let (rc, tc) = rt.run(&c);
        if ra != rc || ta != tc {
            return Err((
                "the closure depends on an outer variable that is not free in it: removing the outer variables it does not read changes the result (shadowing inner definitions must win)".into(),
                format!("with all outer variables: {} | {}  ;  only the free ones: {} | {}", ta.join(" "), ra, tc.join(" "), rc),
                model.to_string(),
            ));
        }
    }
    Ok(())
}


// ------------------------------------------------------------------------------------------------
// family `late` — functions that reach each other only through the module's exports
//
// n exported functions, each with 0–3 default arguments, 0–3 captures and 1–3 calls of functions
// that are exported LATER than itself (late-bound: resolved through the exports when the function
// runs), mutually recursive countdowns. (D) oracle = the guide: the result is computed directly.

#[derive(Clone, Debug)]
struct LateCase {
    /// per function: number of defaults, captured values, callee index for the recursive step, tag
    fns: Vec<(usize, Vec<i64>, usize, i64)>,
    start: usize,
    n: i64,
    generator: bool,
}

impl LateCase {
    fn koto(&self) -> String {
        let mut s = String::new();
        let mut tick = 0;
        for (i, (n_opt, caps, callee, tag)) in self.fns.iter().enumerate() {
            for (j, c) in caps.iter().enumerate() {
                s.push_str(&format!("c{}_{} = {}\n", i, j, c));
            }
            let mut ps = vec!["n".to_string()];
            for k in 0..*n_opt {
                ps.push(format!("d{} = tick({}, {})", k, tick, 100 * (i + 1) + k));
                tick += 1;
            }
            let mut parts = vec![tag.to_string()];
            parts.extend((0..caps.len()).map(|j| format!("c{}_{}", i, j)));
            parts.extend((0..*n_opt).map(|k| format!("d{}", k)));
            let base = format!("({},)", parts.join(", "));
            // the recursive step goes through an export; the same-named top-level variables are rebound
            s.push_str(&format!("export p{} = |{}| if n < 1 then {} else p{}(n - 1)\n", i, ps.join(", "), base, callee));
            for (j, _) in caps.iter().enumerate() {
                s.push_str(&format!("c{}_{} = 'changed'\n", i, j));
            }
        }
        if self.generator {
            s.push_str(&format!("g = || yield p{}({})\ng().next().get()\n", self.start, self.n));
        } else {
            s.push_str(&format!("p{}({})\n", self.start, self.n));
        }
        s
    }
    fn expected(&self) -> (String, Vec<String>) {
        let mut i = self.start;
        let mut n = self.n;
        while n >= 1 {
            i = self.fns[i].2;
            n -= 1;
        }
        let (n_opt, caps, _, tag) = &self.fns[i];
        let mut items = vec![format!("i{}", tag)];
        items.extend(caps.iter().map(|c| format!("i{}", c)));
        items.extend((0..*n_opt).map(|k| format!("i{}", 100 * (i + 1) + k)));
        let ticks: usize = self.fns.iter().map(|f| f.0).sum();
        (format!("(t {})", items.join(" ")), (0..ticks).map(|t| format!("t{}", t)).collect())
    }
}

fn gen_late(rng: &mut Rng) -> LateCase {
    let n_f = 2 + rng.below(3);
    let fns = (0..n_f)
        .map(|i| {
            let n_opt = rng.below(4);
            let caps = (0..rng.below(4)).map(|_| rng.range(0, 9)).collect();
            // mostly a function exported later (or itself / an earlier one)
            let callee = if rng.chance(3, 4) { (i + 1 + rng.below(n_f - 1)) % n_f } else { rng.below(n_f) };
            (n_opt, caps, callee, 10 + i as i64)
        })
        .collect();
    LateCase { fns, start: rng.below(n_f), n: rng.range(0, 5), generator: rng.chance(1, 5) }
}


// ------------------------------------------------------------------------------------------------
// family `pipe` — `a -> f` ≡ `f(a)` for every callee kind × every destination of the result
//
// callee: local function, harness prelude function, core prelude function, wildcard-imported function,
// function exported by another chunk, chain `m.f`, each also with an extra argument (`a -> f b` ≡ `f(a, b)`);
// destination: fresh variable, the piped variable itself, another live variable, unused, element of a
// tuple / list literal, argument of a call, operand. Oracle (D): the same script with the call written
// `f(a[, b])` gives the same result and trace.

fn gen_pipe(rng: &mut Rng) -> (String, String, String) {
    // (callee text, extra arg, value kind)
    let callees: &[(&str, Option<&str>, u8)] = &[
        ("lf", None, 0), ("lf2", Some("5"), 0),
        ("emit", None, 0),
        ("size", None, 1),
        ("to_uppercase", None, 2), ("contains", Some("'a'"), 2),
        ("ef", None, 0), ("ef2", Some("6"), 0),
        ("m.f", None, 0), ("m.f2", Some("7"), 0), ("a2.m.f", None, 0),
        ("string.to_uppercase", None, 2),
    ];
    let (callee, extra, vk) = callees[rng.below(callees.len())];
    let val = match vk {
        1 => ["(1, 2, 3)", "[4, 5]", "'abc'", "{ka: 1}"][rng.below(4)].to_string(),
        2 => ["'abc'", "'xay'", "''"][rng.below(3)].to_string(),
        _ => ["3", "'s'", "(1, 2)", "[9]", "null", "true"][rng.below(6)].to_string(),
    };
    let piped = match extra { Some(e) => format!("x -> {} {}", callee, e), None => format!("x -> {}", callee) };
    let direct = match extra { Some(e) => format!("{}(x, {})", callee, e), None => format!("{}(x)", callee) };
    let dest = rng.below(9);
    let body = |call: &str| -> String {
        match dest {
            0 => format!("r = {}\n(x, r)\n", call),
            1 => format!("x = {}\nx\n", call),
            2 => format!("y = 0\ny = {}\n(x, y)\n", call),
            3 => format!("{}\nx\n", call),
            4 => format!("t = (({}), 7)\n(x, t)\n", call),
            5 => format!("l = [0, ({})]\n(x, l)\n", call),
            6 => format!("r = lf(({}))\n(x, r)\n", call),
            7 => format!("y = 1\nx = {}\ny = {}\n(x, y)\n", call, call),
            _ => format!("r = (({}), ({}))\n(x, r)\n", call, call),
        }
    };
    let prefix = format!(
        "from string import *\nlf = |v| (v, 'lf')\nlf2 = |v, w| (v, w, 'lf2')\nm = {{f: |v| (v, 'm.f'), f2: |v, w| (v, w, 'm.f2')}}\na2 = {{m}}\nx = {}\n",
        val
    );
    (format!("{}{}", prefix, body(&piped)), format!("{}{}", prefix, body(&direct)), format!("callee={} dest={}", callee, dest))
}

// ------------------------------------------------------------------------------------------------
// family `share`

#[derive(Clone, Debug)]
enum BOp {
    Emit(u32),
    Push(u32, i64),
    Bump(u32, i64),
    Set(u32, i64),
}
#[derive(Clone, Debug)]
enum DefaultExpr {
    Tick(u32, i64),
    Var(u32),
    Fresh(Vec<i64>),
}
#[derive(Clone, Debug)]
enum SOp {
    Int(u32, i64),
    List(u32, Vec<i64>),
    Alias(u32, u32),
    Push(u32, i64),
    Fn(u32, Option<(u32, Option<DefaultExpr>)>, Vec<BOp>),
    Call(u32, Option<u32>),
    Emit(u32),
}

fn ints(xs: &[i64]) -> String {
    xs.iter().map(|x| format!(" {}", x)).collect()
}
fn sop_sexp(op: &SOp) -> String {
    match op {
        SOp::Int(x, n) => format!("(int {} {})", x, n),
        SOp::List(x, xs) => format!("(list {}{})", x, ints(xs)),
        SOp::Alias(x, y) => format!("(alias {} {})", x, y),
        SOp::Push(x, n) => format!("(push {} {})", x, n),
        SOp::Fn(f, p, body) => {
            let ps = match p {
                None => "-".to_string(),
                Some((p, None)) => format!("({})", p),
                Some((p, Some(DefaultExpr::Tick(t, n)))) => format!("({} tick {} {})", p, t, n),
                Some((p, Some(DefaultExpr::Var(y)))) => format!("({} var {})", p, y),
                Some((p, Some(DefaultExpr::Fresh(xs)))) => format!("({} fresh{})", p, ints(xs)),
            };
            let b: Vec<String> = body
                .iter()
                .map(|b| match b {
                    BOp::Emit(x) => format!("(emit {})", x),
                    BOp::Push(x, n) => format!("(push {} {})", x, n),
                    BOp::Bump(x, n) => format!("(bump {} {})", x, n),
                    BOp::Set(x, n) => format!("(set {} {})", x, n),
                })
                .collect();
            format!("(fn {} {} ({}))", f, ps, b.join(" "))
        }
        SOp::Call(f, None) => format!("(call {})", f),
        SOp::Call(f, Some(y)) => format!("(call {} {})", f, y),
        SOp::Emit(x) => format!("(emit {})", x),
    }
}
fn sop_koto(op: &SOp, out: &mut String) {
    let list = |xs: &[i64]| format!("[{}]", xs.iter().map(|x| x.to_string()).collect::<Vec<_>>().join(", "));
    match op {
        SOp::Int(x, n) => out.push_str(&format!("v{} = {}\n", x, n)),
        SOp::List(x, xs) => out.push_str(&format!("v{} = {}\n", x, list(xs))),
        SOp::Alias(x, y) => out.push_str(&format!("v{} = v{}\n", x, y)),
        SOp::Push(x, n) => out.push_str(&format!("v{}.push {}\n", x, n)),
        SOp::Fn(f, p, body) => {
            let ps = match p {
                None => String::new(),
                Some((p, None)) => format!("v{}", p),
                Some((p, Some(DefaultExpr::Tick(t, n)))) => format!("v{} = tick({}, {})", p, t, n),
                Some((p, Some(DefaultExpr::Var(y)))) => format!("v{} = v{}", p, y),
                Some((p, Some(DefaultExpr::Fresh(xs)))) => format!("v{} = {}", p, list(xs)),
            };
            out.push_str(&format!("v{} = |{}|\n", f, ps));
            for b in body {
                match b {
                    BOp::Emit(x) => out.push_str(&format!("  emit v{}\n", x)),
                    BOp::Push(x, n) => out.push_str(&format!("  v{}.push {}\n", x, n)),
                    BOp::Bump(x, n) => out.push_str(&format!("  v{} = v{} + {}\n", x, x, n)),
                    BOp::Set(x, n) => out.push_str(&format!("  v{} = {}\n", x, n)),
                }
            }
            out.push_str("  null\n");
        }
        SOp::Call(f, None) => out.push_str(&format!("v{}()\n", f)),
        SOp::Call(f, Some(y)) => out.push_str(&format!("v{}(v{})\n", f, y)),
        SOp::Emit(x) => out.push_str(&format!("emit v{}\n", x)),
    }
}

fn gen_share(rng: &mut Rng) -> Vec<SOp> {
    // variables 1..=4 : 1,2 ints ; 3,4 lists ; functions 10, 11 ; params 20, 21
    let mut ops = vec![SOp::Int(1, rng.range(0, 9)), SOp::List(3, (0..rng.below(3)).map(|_| rng.range(0, 9)).collect())];
    if rng.chance(1, 2) {
        ops.push(SOp::Int(2, rng.range(0, 9)));
    } else {
        ops.push(SOp::Alias(2, 1));
    }
    if rng.chance(1, 2) {
        ops.push(SOp::List(4, vec![rng.range(0, 9)]));
    } else {
        ops.push(SOp::Alias(4, 3));
    }
    let mut fns: Vec<(u32, Option<(u32, bool, bool)>)> = vec![]; // f, (param, has default, is list)
    let n = 6 + rng.below(10);
    let mut tick = 0;
    let mut is_list: BTreeMap<u32, bool> = BTreeMap::from([(1, false), (2, false), (3, true), (4, true)]);
    for _ in 0..n {
        match rng.weighted(&[12, 8, 8, 14, if fns.len() < 2 { 18 } else { 2 }, if fns.is_empty() { 0 } else { 30 }, 14]) {
            0 => {
                let x = 1 + rng.below(2) as u32;
                ops.push(SOp::Int(x, rng.range(10, 19)));
            }
            1 => {
                let x = 3 + rng.below(2) as u32;
                ops.push(SOp::List(x, (0..rng.below(3)).map(|_| rng.range(20, 29)).collect()));
            }
            2 => {
                // alias keeps kinds apart: int ↔ int, list ↔ list
                if rng.chance(1, 2) { ops.push(SOp::Alias(1, 2)) } else { ops.push(SOp::Alias(3, 4)) }
            }
            3 => ops.push(SOp::Push(3 + rng.below(2) as u32, rng.range(30, 39))),
            4 => {
                let f = 10 + fns.len() as u32;
                let pinfo = match rng.below(5) {
                    0 => None,
                    1 => Some((20 + fns.len() as u32, None, rng.chance(1, 2))),
                    2 => {
                        tick += 1;
                        Some((20 + fns.len() as u32, Some(DefaultExpr::Tick(tick, rng.range(40, 49))), false))
                    }
                    3 => {
                        let y = 1 + rng.below(4) as u32;
                        Some((20 + fns.len() as u32, Some(DefaultExpr::Var(y)), is_list[&y]))
                    }
                    _ => Some((20 + fns.len() as u32, Some(DefaultExpr::Fresh((0..rng.below(2)).map(|_| rng.range(50, 59)).collect())), true)),
                };
                let mut body = vec![];
                let mut local_int: BTreeMap<u32, bool> = is_list.clone();
                if let Some((p, _, l)) = &pinfo {
                    local_int.insert(*p, *l);
                }
                let names: Vec<u32> = local_int.keys().copied().collect();
                for _ in 0..1 + rng.below(5) {
                    let x = names[rng.below(names.len())];
                    let l = local_int[&x];
                    body.push(match (l, rng.below(4)) {
                        (_, 0) => BOp::Emit(x),
                        (true, _) => if rng.chance(1, 2) { BOp::Push(x, rng.range(60, 69)) } else { BOp::Emit(x) },
                        (false, 1) => BOp::Bump(x, rng.range(1, 3)),
                        (false, 2) => BOp::Set(x, rng.range(70, 79)),
                        (false, _) => BOp::Emit(x),
                    });
                    if let BOp::Set(x, _) = body.last().unwrap() {
                        local_int.insert(*x, false);
                    }
                }
                // every variable is emitted at the end of the body
                for x in names.iter() {
                    if rng.chance(1, 2) {
                        body.push(BOp::Emit(*x));
                    }
                }
                let param_is_list = pinfo.as_ref().map(|p| p.2).unwrap_or(false);
                fns.push((f, pinfo.as_ref().map(|p| (p.0, p.1.is_some(), param_is_list))));
                ops.push(SOp::Fn(f, pinfo.map(|p| (p.0, p.1)), body));
            }
            5 => {
                let (f, p) = fns[rng.below(fns.len())].clone();
                let arg = match p {
                    None => None,
                    Some((_, has_default, l)) => {
                        if has_default && rng.chance(1, 2) {
                            None
                        } else {
                            // an argument of the kind the body expects
                            Some(if l { 3 + rng.below(2) as u32 } else { 1 + rng.below(2) as u32 })
                        }
                    }
                };
                ops.push(SOp::Call(f, arg));
            }
            _ => ops.push(SOp::Emit(1 + rng.below(4) as u32)),
        }
        // keep kinds in sync for later choices
        if let Some(SOp::Alias(x, y)) = ops.last() {
            let k = is_list[y];
            is_list.insert(*x, k);
        }
    }
    for x in 1..=4 {
        ops.push(SOp::Emit(x));
    }
    ops
}

// ------------------------------------------------------------------------------------------------
// family `gen`

#[derive(Clone, Debug)]
enum GE {
    Lit(i64),
    Var(u32),
    Add(Box<GE>, Box<GE>),
    Sub(Box<GE>, Box<GE>),
    Mul(Box<GE>, Box<GE>),
}
#[derive(Clone, Debug)]
struct GC(&'static str, GE, GE);
#[derive(Clone, Debug)]
enum GS {
    Emit(GE),
    Asg(u32, GE),
    Yield(GE),
    If(GC, Vec<GS>, Vec<GS>),
    For(u32, GE, GE, Vec<GS>),
    While(GC, Vec<GS>),
    Ret,
}

fn ge_sexp(e: &GE) -> String {
    match e {
        GE::Lit(n) => format!("(lit {})", n),
        GE::Var(x) => format!("(var {})", x),
        GE::Add(a, b) => format!("(add {} {})", ge_sexp(a), ge_sexp(b)),
        GE::Sub(a, b) => format!("(sub {} {})", ge_sexp(a), ge_sexp(b)),
        GE::Mul(a, b) => format!("(mul {} {})", ge_sexp(a), ge_sexp(b)),
    }
}
fn ge_koto(e: &GE) -> String {
    match e {
        GE::Lit(n) => if *n < 0 { format!("({})", n) } else { n.to_string() },
        GE::Var(x) => format!("v{}", x),
        GE::Add(a, b) => format!("({} + {})", ge_koto(a), ge_koto(b)),
        GE::Sub(a, b) => format!("({} - {})", ge_koto(a), ge_koto(b)),
        GE::Mul(a, b) => format!("({} * {})", ge_koto(a), ge_koto(b)),
    }
}
fn gc_sexp(c: &GC) -> String {
    format!("({} {} {})", c.0, ge_sexp(&c.1), ge_sexp(&c.2))
}
fn gc_koto(c: &GC) -> String {
    let op = match c.0 {
        "lt" => "<",
        "le" => "<=",
        "eq" => "==",
        _ => "!=",
    };
    format!("{} {} {}", ge_koto(&c.1), op, ge_koto(&c.2))
}
fn gs_sexp(s: &GS) -> String {
    let blk = |b: &[GS]| format!("({})", b.iter().map(gs_sexp).collect::<Vec<_>>().join(" "));
    match s {
        GS::Emit(e) => format!("(emit {})", ge_sexp(e)),
        GS::Asg(x, e) => format!("(asg {} {})", x, ge_sexp(e)),
        GS::Yield(e) => format!("(yield {})", ge_sexp(e)),
        GS::If(c, t, e) => format!("(if {} {} {})", gc_sexp(c), blk(t), blk(e)),
        GS::For(i, lo, hi, b) => format!("(for {} {} {} {})", i, ge_sexp(lo), ge_sexp(hi), blk(b)),
        GS::While(c, b) => format!("(while {} {})", gc_sexp(c), blk(b)),
        GS::Ret => "(ret)".into(),
    }
}
fn gs_koto(b: &[GS], indent: usize, out: &mut String) {
    let pad = "  ".repeat(indent);
    for s in b {
        match s {
            GS::Emit(e) => out.push_str(&format!("{}gemit({})\n", pad, ge_koto(e))),
            GS::Asg(x, e) => out.push_str(&format!("{}v{} = {}\n", pad, x, ge_koto(e))),
            GS::Yield(e) => out.push_str(&format!("{}yield {}\n", pad, ge_koto(e))),
            GS::If(c, t, e) => {
                out.push_str(&format!("{}if {}\n", pad, gc_koto(c)));
                gs_koto(t, indent + 1, out);
                if !e.is_empty() {
                    out.push_str(&format!("{}else\n", pad));
                    gs_koto(e, indent + 1, out);
                }
            }
            GS::For(i, lo, hi, body) => {
                out.push_str(&format!("{}for v{} in {}..{}\n", pad, i, ge_koto(lo), ge_koto(hi)));
                gs_koto(body, indent + 1, out);
            }
            GS::While(c, body) => {
                out.push_str(&format!("{}while {}\n", pad, gc_koto(c)));
                gs_koto(body, indent + 1, out);
            }
            GS::Ret => out.push_str(&format!("{}return\n", pad)),
        }
    }
}

struct GenGen<'a> {
    rng: &'a mut Rng,
    next: u32,
    big: bool,
}
impl<'a> GenGen<'a> {
    fn expr(&mut self, live: &[u32], depth: u32) -> GE {
        if depth == 0 || self.rng.chance(2, 5) {
            if !live.is_empty() && self.rng.chance(3, 5) {
                return GE::Var(live[self.rng.below(live.len())]);
            }
            return GE::Lit(self.rng.range(0, 6));
        }
        let a = Box::new(self.expr(live, depth - 1));
        let b = Box::new(self.expr(live, depth - 1));
        match self.rng.below(5) {
            0 | 1 => GE::Add(a, b),
            2 | 3 => GE::Sub(a, b),
            _ => GE::Mul(a, Box::new(GE::Lit(self.rng.range(0, 3)))),
        }
    }
    fn cond(&mut self, live: &[u32]) -> GC {
        let op = ["lt", "le", "eq", "ne"][self.rng.below(4)];
        GC(op, self.expr(live, 1), self.expr(live, 1))
    }
    /// `frozen`: loop counters that must not be assigned inside
    fn block(&mut self, live: &mut Vec<u32>, frozen: &[u32], depth: u32, len: usize) -> Vec<GS> {
        let mut out = vec![];
        for _ in 0..len {
            let k = self.rng.weighted(&[18, 16, 26, if depth > 0 { 12 } else { 0 }, if depth > 0 { 12 } else { 0 }, if depth > 0 { 8 } else { 0 }, 3]);
            match k {
                0 => out.push(GS::Emit(self.expr(live, 2))),
                1 => {
                    let cands: Vec<u32> = live.iter().copied().filter(|x| !frozen.contains(x)).collect();
                    let x = if !cands.is_empty() && self.rng.chance(1, 2) {
                        cands[self.rng.below(cands.len())]
                    } else {
                        self.next += 1;
                        self.next
                    };
                    let e = self.expr(live, 2);
                    out.push(GS::Asg(x, e));
                    if !live.contains(&x) {
                        live.push(x);
                    }
                }
                2 => out.push(GS::Yield(self.expr(live, 2))),
                3 => {
                    let c = self.cond(live);
                    let mut l1 = live.clone();
                    let n1 = 1 + self.rng.below(3);
                    let t = self.block(&mut l1, frozen, depth - 1, n1);
                    let mut l2 = live.clone();
                    let e = if self.rng.chance(1, 2) {
                        let n2 = 1 + self.rng.below(2);
                        self.block(&mut l2, frozen, depth - 1, n2)
                    } else {
                        vec![]
                    };
                    out.push(GS::If(c, t, e));
                }
                4 => {
                    self.next += 1;
                    let i = self.next;
                    let lo = self.expr(live, 1);
                    let big = self.big && depth == 2 && self.rng.chance(1, 3);
                    let hi = if big {
                        self.big = false;
                        GE::Add(Box::new(lo.clone()), Box::new(GE::Lit(1000)))
                    } else {
                        GE::Add(Box::new(lo.clone()), Box::new(GE::Lit(self.rng.range(0, 4))))
                    };
                    let mut l = live.clone();
                    l.push(i);
                    let mut fr = frozen.to_vec();
                    fr.push(i);
                    let n = 1 + self.rng.below(3);
                    let mut body = self.block(&mut l, &fr, if big { 0 } else { depth - 1 }, n);
                    if big {
                        body.insert(0, GS::Yield(GE::Var(i)));
                    }
                    out.push(GS::For(i, lo, hi, body));
                }
                5 => {
                    // counter-controlled while: v = 0; while v < N: body; v = v + 1
                    self.next += 1;
                    let v = self.next;
                    out.push(GS::Asg(v, GE::Lit(0)));
                    live.push(v);
                    let big = self.big && depth == 2 && self.rng.chance(1, 3);
                    if big {
                        self.big = false;
                    }
                    let bound = if big { 1000 } else { self.rng.range(0, 4) };
                    let mut l = live.clone();
                    let mut fr = frozen.to_vec();
                    fr.push(v);
                    let n = 1 + self.rng.below(3);
                    let mut body = self.block(&mut l, &fr, if big { 0 } else { depth - 1 }, n);
                    if big {
                        body.insert(0, GS::Yield(GE::Var(v)));
                    }
                    body.push(GS::Asg(v, GE::Add(Box::new(GE::Var(v)), Box::new(GE::Lit(1)))));
                    out.push(GS::While(GC("lt", GE::Var(v), GE::Lit(bound)), body));
                }
                _ => out.push(GS::Ret),
            }
        }
        out
    }
}

fn has_yield(b: &[GS]) -> bool {
    b.iter().any(|s| match s {
        GS::Yield(_) => true,
        GS::If(_, t, e) => has_yield(t) || has_yield(e),
        GS::For(_, _, _, b) | GS::While(_, b) => has_yield(b),
        _ => false,
    })
}

#[derive(Clone, Debug)]
enum Consumer {
    For(Option<usize>),
    Nexts(usize),
    All,
    Take(usize),
}

#[derive(Clone, Debug)]
struct GenCase {
    params: Vec<(u32, i64)>,
    caps: Vec<(u32, i64)>,
    body: Vec<GS>,
    consumer: Consumer,
}

impl GenCase {
    fn request(&self) -> String {
        let env: Vec<String> = self.caps.iter().chain(self.params.iter()).map(|(x, v)| format!("({} {})", x, v)).collect();
        let cons = match &self.consumer {
            Consumer::For(None) => "(for)".to_string(),
            Consumer::For(Some(k)) => format!("(for {})", k),
            Consumer::Nexts(k) => format!("(nexts {})", k),
            Consumer::All => "(all)".to_string(),
            Consumer::Take(k) => format!("(take {})", k),
        };
        format!("gen ({}) ({}) {}", env.join(" "), self.body.iter().map(gs_sexp).collect::<Vec<_>>().join(" "), cons)
    }
    fn koto(&self) -> String {
        let mut s = String::new();
        for (x, v) in &self.caps {
            s.push_str(&format!("v{} = {}\n", x, v));
        }
        s.push_str(&format!("gf = |{}|\n", self.params.iter().map(|(x, _)| format!("v{}", x)).collect::<Vec<_>>().join(", ")));
        gs_koto(&self.body, 1, &mut s);
        for (x, _) in &self.caps {
            s.push_str(&format!("v{} = 777\n", x));
        }
        let call = format!("gf({})", self.params.iter().map(|(_, v)| v.to_string()).collect::<Vec<_>>().join(", "));
        match &self.consumer {
            Consumer::For(None) => s.push_str(&format!("for x in {}\n  cemit x\nnull\n", call)),
            Consumer::For(Some(k)) => s.push_str(&format!(
                "n = 0\nfor x in {}\n  cemit x\n  n = n + 1\n  if n >= {}\n    break\nnull\n",
                call, k
            )),
            Consumer::Nexts(k) => {
                s.push_str(&format!("it = {}\n", call));
                for _ in 0..*k {
                    s.push_str("r = it.next()\nif r == null\n  cfin()\nelse\n  cemit r.get()\n");
                }
                s.push_str("null\n");
            }
            Consumer::All => s.push_str(&format!("{}.to_tuple()\n", call)),
            Consumer::Take(k) => s.push_str(&format!("{}.take({}).to_tuple()\n", call, k)),
        }
        s
    }
}

fn gen_gen_case(rng: &mut Rng) -> GenCase {
    let n_params = rng.below(3);
    let n_caps = rng.below(3);
    let mut next = 0u32;
    let mut params = vec![];
    let mut caps = vec![];
    for _ in 0..n_params {
        next += 1;
        params.push((next, rng.range(0, 5)));
    }
    for _ in 0..n_caps {
        next += 1;
        caps.push((next, rng.range(0, 5)));
    }
    let consumer = match rng.below(8) {
        0 | 1 => Consumer::For(None),
        2 => Consumer::For(Some(1 + rng.below(3))),
        3 | 4 => Consumer::Nexts(1 + rng.below(6)),
        5 => Consumer::All,
        _ => Consumer::Take(rng.below(4)),
    };
    let lazy = matches!(consumer, Consumer::For(Some(_)) | Consumer::Nexts(_) | Consumer::Take(_));
    let mut live: Vec<u32> = params.iter().chain(caps.iter()).map(|p| p.0).collect();
    // captured variables are never assigned inside the generator body: a variable assigned anywhere
    // earlier in the text is local from there on even if that assignment did not execute (it then
    // reads as null), which the coroutine model does not cover; parameters are assigned freely.
    // Generators that assign captured variables (in block bodies, after header reads, …) are
    // exercised by the capx family
    let frozen: Vec<u32> = caps.iter().map(|c| c.0).collect();
    let mut g = GenGen { rng, next, big: lazy };
    let len = 2 + g.rng.below(5);
    let mut body = g.block(&mut live, &frozen, 2, len);
    if !has_yield(&body) {
        let e = g.expr(&live, 1);
        body.push(GS::Yield(e));
    }
    GenCase { params, caps, body, consumer }
}

// ------------------------------------------------------------------------------------------------
// the check

struct Pending {
    family: &'static str,
    request: String,
    script: String,
    nontrivial: bool,
    expect_trace: Option<Vec<String>>, // bind: ticks at creation
    ast: Option<CaseAst>,
    capx: Option<CapxCase>,
    /// model-free cases: the expected canonical result and trace (the guide's answer)
    expect_result: Option<(String, Vec<String>)>,
    /// how the function is reached when it is not called by the script's last line
    route: Option<Route>,
}

/// calling routes other than a call expression in the script
#[derive(Clone, Debug)]
enum Route {
    /// called back by a core-library function that passes a pair (ValuePair -> CallArgs::AsTuple, a
    /// temporary tuple when the function's only argument is an unpacked tuple); the body emits
    Callback(&'static str),
    /// host API after the script ran: `Koto::call_function` with CallArgs 0 Single, 1 Separate, 2 AsTuple
    Host(u8, Vec<V>),
}

/// the abstract case a script was rendered from (what the shrinker works on)
#[derive(Clone, Debug)]
enum CaseAst {
    Bind(Def, Call),
    Cap(Vec<Ex>),
    Share(Vec<SOp>),
    Gen(GenCase),
}

impl CaseAst {
    fn pending(&self) -> Pending {
        match self {
            CaseAst::Bind(d, c) => bind_case(d, c),
            CaseAst::Cap(s) => cap_case(s),
            CaseAst::Share(o) => share_case(o),
            CaseAst::Gen(g) => gen_case(g),
        }
    }

    /// strictly smaller variants, most aggressive first
    fn candidates(&self) -> Vec<CaseAst> {
        let mut out = vec![];
        match self {
            CaseAst::Bind(d, c) => {
                // call side
                for i in 0..c.args.len() {
                    if !(c.form.is_piped() && c.args.len() == 1) {
                        let mut c2 = c.clone();
                        c2.args.remove(i);
                        if !(c2.form.is_piped() && (c2.args.is_empty() || c2.args[0].1)) {
                            out.push(CaseAst::Bind(d.clone(), c2));
                        }
                    }
                    if c.args[i].1 && !(c.form.is_piped() && i == 0) {
                        // a packed container loses its last element
                        if let Some(mut es) = c.args[i].0.elems() {
                            if es.pop().is_some() {
                                let mut c2 = c.clone();
                                c2.args[i].0 = V::T(es);
                                out.push(CaseAst::Bind(d.clone(), c2));
                            }
                        }
                    }
                    if c.args[i].0 != V::I(0) && !c.args[i].1 {
                        let mut c2 = c.clone();
                        c2.args[i].0 = V::I(0);
                        out.push(CaseAst::Bind(d.clone(), c2));
                    }
                }
                if c.pre > 0 {
                    let mut c2 = c.clone();
                    c2.pre = 0;
                    out.push(CaseAst::Bind(d.clone(), c2));
                }
                if let Form::PipedInst = c.form {
                    out.push(CaseAst::Bind(d.clone(), Call { pre: 0, depth: c.depth, form: Form::Inst(false), args: c.args.clone() }));
                }
                if c.depth > 1 {
                    out.push(CaseAst::Bind(d.clone(), Call { pre: 0, depth: c.depth - 1, form: c.form.clone(), args: c.args.clone() }));
                }
                if d.self_ref.is_some() {
                    let mut d2 = d.clone();
                    d2.self_ref = None;
                    out.push(CaseAst::Bind(d2, c.clone()));
                }
                for i in 0..d.lates.len() {
                    let mut d2 = d.clone();
                    d2.lates.remove(i);
                    out.push(CaseAst::Bind(d2, c.clone()));
                }
                if !matches!(c.form, Form::Paren) && !c.form.is_piped() {
                    out.push(CaseAst::Bind(d.clone(), Call { pre: 0, depth: 1, form: Form::Paren, args: c.args.clone() }));
                }
                if let Form::Piped(_) = c.form {
                    out.push(CaseAst::Bind(d.clone(), Call { pre: 0, depth: 1, form: Form::Paren, args: c.args.clone() }));
                }
                // definition side
                if d.generator {
                    let mut d2 = d.clone();
                    d2.generator = false;
                    out.push(CaseAst::Bind(d2, c.clone()));
                }
                for i in 0..d.caps.len() {
                    let mut d2 = d.clone();
                    d2.caps.remove(i);
                    out.push(CaseAst::Bind(d2, c.clone()));
                }
                for i in 0..d.params.len() {
                    let mut d2 = d.clone();
                    d2.params.remove(i);
                    if d.variadic && i == d.params.len() - 1 {
                        d2.variadic = false;
                    }
                    out.push(CaseAst::Bind(d2, c.clone()));
                    if !matches!(d.params[i].pat, Pat::Id(_) | Pat::Ign) {
                        let mut d3 = d.clone();
                        d3.params[i].pat = Pat::Ign;
                        out.push(CaseAst::Bind(d3, c.clone()));
                        // drop one element of a nested pattern
                        if let Pat::Tup(ps) = &d.params[i].pat {
                            for j in 0..ps.len() {
                                if ps.len() > 1 {
                                    let mut q = ps.clone();
                                    q.remove(j);
                                    let mut d4 = d.clone();
                                    d4.params[i].pat = Pat::Tup(q);
                                    out.push(CaseAst::Bind(d4, c.clone()));
                                }
                                if !matches!(ps[j], Pat::Id(_) | Pat::Ign | Pat::Pk(_)) {
                                    let mut q = ps.clone();
                                    q[j] = Pat::Ign;
                                    let mut d4 = d.clone();
                                    d4.params[i].pat = Pat::Tup(q);
                                    out.push(CaseAst::Bind(d4, c.clone()));
                                }
                            }
                        }
                    }
                }
                // the first optional parameter becomes required
                if let Some(i) = d.params.iter().position(|p| p.default.is_some()) {
                    let mut d2 = d.clone();
                    d2.params[i].default = None;
                    out.push(CaseAst::Bind(d2, c.clone()));
                }
            }
            CaseAst::Cap(script) => {
                for b in shrink_block(script) {
                    out.push(CaseAst::Cap(b));
                }
            }
            CaseAst::Share(ops) => {
                for i in 0..ops.len() {
                    let mut o = ops.clone();
                    o.remove(i);
                    out.push(CaseAst::Share(o));
                }
                for i in 0..ops.len() {
                    if let SOp::Fn(f, p, body) = &ops[i] {
                        for j in 0..body.len() {
                            let mut b = body.clone();
                            b.remove(j);
                            let mut o = ops.clone();
                            o[i] = SOp::Fn(*f, p.clone(), b);
                            out.push(CaseAst::Share(o));
                        }
                    }
                }
            }
            CaseAst::Gen(g) => {
                for b in shrink_gs(&g.body) {
                    if has_yield(&b) {
                        out.push(CaseAst::Gen(GenCase { body: b, ..g.clone() }));
                    }
                }
                let smaller = match &g.consumer {
                    Consumer::For(Some(k)) if *k > 1 => Some(Consumer::For(Some(k - 1))),
                    Consumer::Nexts(k) if *k > 1 => Some(Consumer::Nexts(k - 1)),
                    Consumer::Take(k) if *k > 0 => Some(Consumer::Take(k - 1)),
                    _ => None,
                };
                if let Some(c) = smaller {
                    out.push(CaseAst::Gen(GenCase { consumer: c, ..g.clone() }));
                }
            }
        }
        out
    }
}

/// one-step reductions of an expression (sub-expressions, literals)
fn shrink_ex(e: &Ex) -> Vec<Ex> {
    let mut out = vec![];
    let bin = |a: &Ex, b: &Ex, mk: &dyn Fn(Ex, Ex) -> Ex, out: &mut Vec<Ex>| {
        out.push(a.clone());
        out.push(b.clone());
        for a2 in shrink_ex(a) {
            out.push(mk(a2, b.clone()));
        }
        for b2 in shrink_ex(b) {
            out.push(mk(a.clone(), b2));
        }
    };
    match e {
        Ex::Lit(n) => {
            if *n != 0 {
                out.push(Ex::Lit(0));
            }
        }
        Ex::Var(_) => out.push(Ex::Lit(0)),
        Ex::Add(a, b) => bin(a, b, &|x, y| Ex::Add(Box::new(x), Box::new(y)), &mut out),
        Ex::Sub(a, b) => bin(a, b, &|x, y| Ex::Sub(Box::new(x), Box::new(y)), &mut out),
        Ex::Lt(a, b) => {
            for a2 in shrink_ex(a) {
                out.push(Ex::Lt(Box::new(a2), b.clone()));
            }
            for b2 in shrink_ex(b) {
                out.push(Ex::Lt(a.clone(), Box::new(b2)));
            }
        }
        Ex::Par(a) => {
            if matches!(**a, Ex::Lit(_) | Ex::Var(_) | Ex::Call(..) | Ex::Par(_)) {
                out.push((**a).clone());
            }
            for a2 in shrink_ex(a) {
                out.push(Ex::Par(Box::new(a2)));
            }
        }
        Ex::Ite(c, t, f) => {
            out.push(Ex::Par(t.clone()));
            out.push(Ex::Par(f.clone()));
            for c2 in shrink_ex(c) {
                out.push(Ex::Ite(Box::new(c2), t.clone(), f.clone()));
            }
            for t2 in shrink_ex(t) {
                out.push(Ex::Ite(c.clone(), Box::new(t2), f.clone()));
            }
            for f2 in shrink_ex(f) {
                out.push(Ex::Ite(c.clone(), t.clone(), Box::new(f2)));
            }
        }
        Ex::Asg(x, a) => {
            if let Ex::Fn(ps, body) = &**a {
                for b in shrink_block(body) {
                    out.push(Ex::Asg(*x, Box::new(Ex::Fn(ps.clone(), b))));
                }
            } else {
                for a2 in shrink_ex(a) {
                    out.push(Ex::Asg(*x, Box::new(a2)));
                }
            }
        }
        Ex::Fn(..) => {}
        Ex::Call(f, args) => {
            out.push(Ex::Lit(0));
            for i in 0..args.len() {
                for a2 in shrink_ex(&args[i]) {
                    let mut v = args.clone();
                    v[i] = a2;
                    out.push(Ex::Call(*f, v));
                }
            }
        }
    }
    out
}

/// remove a line (blocks stay non-empty), or reduce one line
fn shrink_block(b: &[Ex]) -> Vec<Vec<Ex>> {
    let mut out = vec![];
    if b.len() > 1 {
        for i in 0..b.len() {
            let mut v = b.to_vec();
            v.remove(i);
            out.push(v);
        }
    }
    for i in 0..b.len() {
        for e2 in shrink_ex(&b[i]) {
            let mut v = b.to_vec();
            v[i] = e2;
            out.push(v);
        }
    }
    out
}

/// remove a statement, replace a compound statement by one of its blocks, or reduce inside
fn shrink_gs(b: &[GS]) -> Vec<Vec<GS>> {
    let mut out = vec![];
    for i in 0..b.len() {
        let mut v = b.to_vec();
        v.remove(i);
        out.push(v);
    }
    for i in 0..b.len() {
        let splice = |inner: &[GS], out: &mut Vec<Vec<GS>>| {
            let mut v = b[..i].to_vec();
            v.extend_from_slice(inner);
            v.extend_from_slice(&b[i + 1..]);
            out.push(v);
        };
        let rebuild = |s: GS, out: &mut Vec<Vec<GS>>| {
            let mut v = b.to_vec();
            v[i] = s;
            out.push(v);
        };
        match &b[i] {
            GS::If(c, t, e) => {
                splice(t, &mut out);
                splice(e, &mut out);
                for t2 in shrink_gs(t) {
                    if !t2.is_empty() {
                        rebuild(GS::If(c.clone(), t2, e.clone()), &mut out);
                    }
                }
                for e2 in shrink_gs(e) {
                    rebuild(GS::If(c.clone(), t.clone(), e2), &mut out);
                }
            }
            GS::For(v, lo, hi, body) => {
                for b2 in shrink_gs(body) {
                    if !b2.is_empty() {
                        rebuild(GS::For(*v, lo.clone(), hi.clone(), b2), &mut out);
                    }
                }
            }
            GS::While(c, body) => {
                // the trailing counter increment must stay (termination)
                if body.len() > 1 {
                    for b2 in shrink_gs(&body[..body.len() - 1]) {
                        let mut b3 = b2;
                        b3.push(body[body.len() - 1].clone());
                        rebuild(GS::While(c.clone(), b3), &mut out);
                    }
                }
            }
            GS::Emit(e) | GS::Yield(e) => {
                if !matches!(e, GE::Lit(0)) {
                    let s = if matches!(b[i], GS::Emit(_)) { GS::Emit(GE::Lit(0)) } else { GS::Yield(GE::Lit(0)) };
                    rebuild(s, &mut out);
                }
            }
            _ => {}
        }
    }
    out
}

struct Ctx {
    rt: Runtime,
    drv: Option<Driver>,
    rep: Report,
    pending: Vec<Pending>,
}

impl Ctx {
    fn push(&mut self, p: Pending) {
        self.pending.push(p);
        if self.pending.len() >= 512 {
            self.flush();
        }
    }

    fn flush(&mut self) {
        let cases = std::mem::take(&mut self.pending);
        if cases.is_empty() {
            return;
        }
        let reqs: Vec<String> = cases.iter().map(|c| c.request.clone()).collect();
        let resps: Vec<String> = match &mut self.drv {
            Some(d) => d.batch(&reqs),
            None => vec![String::new(); reqs.len()],
        };
        for (c, model) in cases.iter().zip(resps.iter()) {
            if let Some((want, want_trace)) = &c.expect_result {
                self.rep.case(&c.request, c.nontrivial);
                self.rep.bump(&format!("family={}", c.family));
                let (res, trace) = self.rt.run(&c.script);
                if &res != want || &trace != want_trace {
                    self.rep.violation(
                        "D",
                        &format!("D:C02:{}", c.family),
                        json!({
                            "family": c.family,
                            "program": c.script,
                            "request": c.request,
                            "implementation": format!("{} | {}", trace.join(" "), res),
                            "expected": format!("{} | {}", want_trace.join(" "), want),
                            "why": "functions that reach each other through the module's exports (late-bound non-locals are resolved when the function runs; default values are evaluated once at creation; captures by copy)",
                        }),
                    );
                }
                continue;
            }
            if let Some(cx) = &c.capx {
                self.rep.case(&c.request, c.nontrivial);
                self.rep.bump("family=capx");
                if self.drv.is_none() {
                    continue;
                }
                if let Err((why, impl_text, m)) = capx_check(&mut self.rt, cx, model) {
                    // shrink: drop body lines (outermost first) while the same kind of failure stays
                    let kind = why.split(':').next().unwrap_or("").to_string();
                    let mut cur = cx.clone();
                    let mut best = (why, impl_text, m);
                    let mut budget = 300;
                    'shrink: loop {
                        for cand in capx_candidates(&cur) {
                            if budget == 0 {
                                break 'shrink;
                            }
                            budget -= 1;
                            let m2 = self.drv.as_mut().unwrap().ask(&cand.request());
                            if let Err((w2, i2, mm2)) = capx_check(&mut self.rt, &cand, &m2) {
                                if w2.split(':').next().unwrap_or("") == kind {
                                    best = (w2, i2, mm2);
                                    cur = cand;
                                    continue 'shrink;
                                }
                            }
                        }
                        break;
                    }
                    self.rep.violation(
                        "D",
                        "K:C02:capx",
                        json!({
                            "family": "capx",
                            "program": cur.koto(None),
                            "request": cur.request(),
                            "implementation": best.1,
                            "model": best.2,
                            "why": best.0,
                            "original_program": c.script,
                            "original_request": c.request,
                            "note": "capture analysis on the wider syntax: accessed_non_locals of the real parser vs Model/CaptureX.lean, completeness against the declarative free variables, closure vs parameter run",
                        }),
                    );
                } else {
                    self.rep.sample(json!({"family": "capx", "request": c.request, "script": c.script, "model": model}));
                }
                continue;
            }
            let (res, trace) = match &c.route {
                Some(Route::Host(kind, vals)) => self.rt.run_host(&c.script, *kind, vals),
                _ => self.rt.run(&c.script),
            };
            self.rep.case(&c.request, c.nontrivial);
            self.rep.bump(&format!("family={}", c.family));
            let outcome_kind = if res.starts_with("E:") || res.starts_with("PANIC") {
                res.split(':').take(2).collect::<Vec<_>>().join(":")
            } else {
                "value".to_string()
            };
            self.rep.bump(&format!("{}:outcome={}", c.family, outcome_kind));
            if self.drv.is_none() {
                continue;
            }
            if model.contains("FUEL") || model.contains("E:fuel") {
                // the model ran out of its step budget: outside the envelope, nothing to compare
                self.rep.bump(&format!("{}:skipped-model-fuel", c.family));
                continue;
            }
            let (ok, impl_text, detail) = compare(c, &res, &trace, model);
            if !ok {
                let name = format!("K:C02:{}", c.family);
                // AST-level shrinking: greedily take the first smaller case that still disagrees
                // with the same kind of implementation outcome (value / same error class)
                let mut best = (c.script.clone(), c.request.clone(), impl_text.clone(), model.clone(), detail.clone());
                let mut steps = 0u32;
                if let Some(ast0) = &c.ast {
                    let kind0 = outcome_kind.clone();
                    let mut cur = ast0.clone();
                    let mut budget = 600u32;
                    'outer: loop {
                        for cand in cur.candidates() {
                            if budget == 0 {
                                break 'outer;
                            }
                            budget -= 1;
                            let p = cand.pending();
                            let m = self.drv.as_mut().unwrap().ask(&p.request);
                            if m.contains("FUEL") || m.contains("E:fuel") || m == "bad-request" {
                                continue;
                            }
                            let (r2, t2) = self.rt.run(&p.script);
                            let k2 = if r2.starts_with("E:") || r2.starts_with("PANIC") { r2.split(':').take(2).collect::<Vec<_>>().join(":") } else { "value".to_string() };
                            if k2 != kind0 {
                                continue;
                            }
                            let (ok2, i2, d2) = compare(&p, &r2, &t2, &m);
                            if !ok2 {
                                best = (p.script.clone(), p.request.clone(), i2, m, d2);
                                cur = cand;
                                steps += 1;
                                continue 'outer;
                            }
                        }
                        break;
                    }
                }
                self.rep.violation(
                    "D",
                    &name,
                    json!({
                        "family": c.family,
                        "program": best.0,
                        "request": best.1,
                        "implementation": best.2,
                        "model": best.3,
                        "why": best.4,
                        "shrink_steps": steps,
                        "original_program": c.script,
                        "original_request": c.request,
                        "original_implementation": impl_text,
                        "original_model": model,
                        "note": "the model is the formalised guide (DESIGN §3): a disagreement on a well-formed case is a property violation; replay = the (shrunk) script",
                    }),
                );
            } else {
                self.rep.sample(json!({"family": c.family, "request": c.request, "script": c.script, "implementation": impl_text, "model": model}));
            }
        }
    }
}

/// returns (agree, implementation text, why not)
fn compare(c: &Pending, res: &str, trace: &[String], model: &str) -> (bool, String, String) {
    match c.family {
        "bind" if matches!(c.route, Some(Route::Callback(_))) => {
            // the body emits its tuple; the caller's own result is not compared
            let impl_text = format!("{} | {}", trace.join(" "), res);
            let mut want: Vec<String> = c.expect_trace.clone().unwrap_or_default();
            if model.starts_with("(t") {
                want.push(model.to_string());
                let ok = trace == want.as_slice() && !(res.starts_with("E:") || res.starts_with("PANIC"));
                (ok, impl_text, format!("called back with a pair by the core library ({:?}): the function must bind exactly as when it is called directly with that pair as a tuple; expected trace {:?}", c.route, want))
            } else {
                let ok = trace == want.as_slice() && res == model;
                (ok, impl_text, format!("called back with a pair by the core library ({:?}): expected the error class {} of the direct call", c.route, model))
            }
        }
        "bind" => {
            let impl_text = format!("{} | {}", trace.join(" "), res);
            if let Some(t) = &c.expect_trace {
                if trace != t.as_slice() {
                    return (false, impl_text, format!("default values must be evaluated exactly once, in order, when the function is created: expected trace {:?}", t));
                }
            }
            if model == "E:compile" {
                // not well-formed (duplicated argument name): must be rejected, with that message
                let ok = res.starts_with("E:compile:") && res.contains("only be used once");
                return (ok, impl_text, "an argument list that uses a name more than once must be a compile error (DuplicateArgumentName), not a panic or a silently chosen binding".into());
            }
            (res == model, impl_text, "result / error class differs from Model/Bind.lean".into())
        }
        "cap" => {
            // model: impl=<r> spec=<r> shaped=<b>
            let mut im = "";
            let mut sp = "";
            let mut shaped = false;
            for part in model.split(' ') {
                if let Some(x) = part.strip_prefix("impl=") { im = x; }
                if let Some(x) = part.strip_prefix("spec=") { sp = x; }
                if let Some(x) = part.strip_prefix("shaped=") { shaped = x == "1"; }
            }
            if res != im {
                return (false, res.to_string(), "differs from the evaluator run with the parser's capture analysis (Model/Capture.lean, impl)".into());
            }
            if shaped && res != sp {
                return (false, res.to_string(), "well-shaped script: differs from the declarative capture semantics (spec)".into());
            }
            (true, res.to_string(), String::new())
        }
        "share" => {
            let mut t: Vec<String> = trace.to_vec();
            if res.starts_with("E:") || res.starts_with("PANIC") {
                let r = if res.starts_with("E:args") { "E:args".to_string() } else { res.to_string() };
                t.push(r);
            }
            let impl_text = t.join(" ");
            (impl_text == model, impl_text, "trace differs from Model/Capture.lean part D".into())
        }
        "gen" => {
            let mut impl_text = trace.join(" ");
            if res.starts_with("(t") {
                let inner = res.trim_start_matches("(t").trim_end_matches(')').trim();
                impl_text = format!("{} | {}", impl_text, inner);
            } else if res != "null" {
                impl_text = format!("{} !! {}", impl_text, res);
            }
            (impl_text == model, impl_text, "interleaved trace / collected values differ from Model/Gen.lean".into())
        }
        _ => (false, String::new(), "unknown family".into()),
    }
}

fn capx_case(c: &CapxCase) -> Pending {
    Pending { family: "capx", request: c.request(), script: c.koto(None), nontrivial: true, expect_trace: None, ast: None, capx: Some(c.clone()), expect_result: None, route: None }
}

/// smaller capx cases: a line removed anywhere in the body (blocks stay non-empty), a compound line
/// replaced by one of its blocks, an outer variable or parameter dropped
fn capx_candidates(c: &CapxCase) -> Vec<CapxCase> {
    fn shrink_lines(b: &[XN]) -> Vec<Vec<XN>> {
        let mut out = vec![];
        if b.len() > 1 {
            for i in 0..b.len() {
                let mut v = b.to_vec();
                v.remove(i);
                out.push(v);
            }
        }
        for i in 0..b.len() {
            let mut subs: Vec<XN> = vec![];
            let mut splices: Vec<Vec<XN>> = vec![];
            match &b[i] {
                XN::If(c, t, f) => {
                    splices.push(t.clone());
                    if !f.is_empty() {
                        splices.push(f.clone());
                    }
                    for t2 in shrink_lines(t) {
                        subs.push(XN::If(c.clone(), t2, f.clone()));
                    }
                    for f2 in shrink_lines(f) {
                        subs.push(XN::If(c.clone(), t.clone(), f2));
                    }
                    if !f.is_empty() {
                        subs.push(XN::If(c.clone(), t.clone(), vec![]));
                    }
                }
                XN::For(v, hi, body) => {
                    for b2 in shrink_lines(body) {
                        subs.push(XN::For(*v, hi.clone(), b2));
                    }
                }
                XN::While(u, c, body) => {
                    if body.len() > 1 {
                        for b2 in shrink_lines(&body[..body.len() - 1]) {
                            let mut b3 = b2;
                            b3.push(body[body.len() - 1].clone());
                            subs.push(XN::While(*u, c.clone(), b3));
                        }
                    }
                }
                XN::Asg(x, e) => {
                    if let XN::Fn(ps, body) = &**e {
                        for b2 in shrink_lines(body) {
                            subs.push(XN::Asg(*x, Box::new(XN::Fn(ps.clone(), b2))));
                        }
                    } else if !matches!(**e, XN::Lit(_)) {
                        subs.push(XN::Asg(*x, Box::new(XN::Lit(0))));
                    }
                }
                _ => {}
            }
            for sp in splices {
                let mut v = b[..i].to_vec();
                v.extend(sp);
                v.extend_from_slice(&b[i + 1..]);
                out.push(v);
            }
            for sub in subs {
                let mut v = b.to_vec();
                v[i] = sub;
                out.push(v);
            }
        }
        out
    }
    let mut out = vec![];
    for b in shrink_lines(&c.body) {
        if c.generator && !format!("{:?}", b).contains("Yield") {
            continue;
        }
        out.push(CapxCase { body: b, ..c.clone() });
    }
    for i in 0..c.outer.len() {
        let mut c2 = c.clone();
        c2.outer.remove(i);
        out.push(c2);
    }
    out
}


const CALLBACKS: &[&str] = &["map.each", "map.keep", "map.any", "map.find", "map.all", "enumerate.each", "enumerate.keep", "zip.each", "zip.keep"];

/// the function reached as a callback that receives the pair (a, b)
fn callback_case(d: &Def, kind: &'static str, a: &V, b: &V) -> Pending {
    let ticks: Vec<String> = (0..d.n_opt()).map(|i| format!("t{}", i)).collect();
    let key = if let V::S(k) = a { k.clone() } else { "k".to_string() };
    let tail = match kind {
        "map.each" => format!("xm = {{'{}': {}}}\nxm.each(f).consume()\n", key, b.koto()),
        "map.keep" => format!("xm = {{'{}': {}}}\nxm.keep(f).count()\n", key, b.koto()),
        "map.any" => format!("xm = {{'{}': {}}}\nxm.any(f)\n", key, b.koto()),
        "map.find" => format!("xm = {{'{}': {}}}\nxm.find(f)\nnull\n", key, b.koto()),
        "map.all" => format!("xm = {{'{}': {}}}\nxm.all(f)\n", key, b.koto()),
        "enumerate.each" => format!("({},).enumerate().each(f).consume()\n", b.koto()),
        "enumerate.keep" => format!("({},).enumerate().keep(f).count()\n", b.koto()),
        "zip.each" => format!("({},).zip(({},)).each(f).consume()\n", a.koto(), b.koto()),
        _ => format!("({},).zip(({},)).keep(f).count()\n", a.koto(), b.koto()),
    };
    let a_model = match kind {
        k if k.starts_with("map.") => V::S(key),
        k if k.starts_with("enumerate.") => V::I(0),
        _ => a.clone(),
    };
    let pair = V::T(vec![a_model, b.clone()]);
    Pending {
        family: "bind",
        request: format!("bind {} (plain 0 - (args ({} 0)))", d.sexp(), pair.canon()),
        script: format!("{}{}", d.koto_opts(if kind.ends_with(".each") { 1 } else { 2 }), tail),
        nontrivial: true,
        expect_trace: Some(ticks),
        ast: None,
        capx: None,
        expect_result: None,
        route: Some(Route::Callback(kind)),
    }
}

/// the function reached through the host API
fn host_case(d: &Def, kind: u8, vals: &[V]) -> Pending {
    let ticks: Vec<String> = (0..d.n_opt()).map(|i| format!("t{}", i)).collect();
    let args: Vec<V> = match kind {
        0 => vec![vals[0].clone()],
        1 => vals.to_vec(),
        _ => vec![V::T(vals.to_vec())],
    };
    Pending {
        family: "bind",
        request: format!("bind {} (plain 0 - (args{}))", d.sexp(), args.iter().map(|v| format!(" ({} 0)", v.canon())).collect::<String>()),
        script: format!("{}export fx = f\n", d.koto()),
        nontrivial: true,
        expect_trace: Some(ticks),
        ast: None,
        capx: None,
        expect_result: None,
        route: Some(Route::Host(kind, vals.to_vec())),
    }
}

fn fixed_len(p: &Pat) -> usize {
    match p {
        Pat::Tup(ps) => ps.iter().filter(|q| !matches!(q, Pat::Pk(_))).count(),
        _ => 2,
    }
}

/// every calling route other than a call expression, for one definition: core-library callbacks
/// with a pair, host API with Single / Separate / AsTuple and container sizes around the fixed
/// part of the first parameter's pattern
fn route_cases(ctx: &mut Ctx, rng: &mut Rng, d: &Def, all_callbacks: bool) {
    let mut d = d.clone();
    d.generator = false;
    if d.params.is_empty() {
        return;
    }
    let k = fixed_len(&d.params[0].pat);
    let key = ["ka", "kb", "key"][rng.below(3)].to_string();
    let a = if rng.chance(1, 2) { V::S(key) } else { small_val(rng, 0) };
    let b = small_val(rng, 1);
    for (i, kind) in CALLBACKS.iter().enumerate() {
        if all_callbacks || rng.below(CALLBACKS.len()) < 3 || i == 0 {
            ctx.rep.bump(&format!("bind:route=callback:{}", kind));
            ctx.push(callback_case(&d, kind, &a, &b));
        }
    }
    // host API
    for size in [k.saturating_sub(1), k, k + 1] {
        let vals: Vec<V> = (0..size).map(|_| small_val(rng, 0)).collect();
        ctx.rep.bump("bind:route=host:AsTuple");
        ctx.push(host_case(&d, 2, &vals));
    }
    let first = matching_val(rng, &d.params[0].pat, 1);
    ctx.rep.bump("bind:route=host:Single");
    ctx.push(host_case(&d, 0, &[first.clone()]));
    let arity = d.arity();
    for count in [arity.saturating_sub(1), arity, arity + 1] {
        let vals: Vec<V> = (0..count).map(|i| if i < arity { matching_val(rng, &d.params[i].pat, 1) } else { small_val(rng, 0) }).collect();
        ctx.rep.bump("bind:route=host:Separate");
        ctx.push(host_case(&d, 1, &vals));
    }
}

/// single unpacked-tuple parameter (the runtime's temporary-tuple fast path) and neighbours:
/// fixed part 1-3 x ellipsis none / first / last, named or not x an optional or variadic extra
fn directed_route_defs() -> Vec<Def> {
    let mut out = vec![];
    for k in 1..=3usize {
        for ell in 0..5 {
            for extra in 0..3 {
                let mut ng = 0u32;
                let mut next = || {
                    ng += 1;
                    ng
                };
                let mut ps: Vec<Pat> = (0..k).map(|i| if i == 1 && k == 3 { Pat::Ign } else { Pat::Id(next()) }).collect();
                match ell {
                    1 => ps.insert(0, Pat::Pk(Some(next()))),
                    2 => ps.insert(0, Pat::Pk(None)),
                    3 => ps.push(Pat::Pk(Some(next()))),
                    4 => ps.push(Pat::Pk(None)),
                    _ => {}
                }
                let mut params = vec![Param { pat: Pat::Tup(ps), default: None }];
                let mut variadic = false;
                match extra {
                    1 => params.push(Param { pat: Pat::Id(next()), default: Some(V::I(77)) }),
                    2 => {
                        params.push(Param { pat: Pat::Id(next()), default: None });
                        variadic = true;
                    }
                    _ => {}
                }
                out.push(Def { params, variadic, caps: vec![(next(), V::I(5))], generator: false, self_ref: None, lates: vec![] });
            }
        }
    }
    out
}

fn bind_case(d: &Def, c: &Call) -> Pending {
    let ticks: Vec<String> = (0..d.n_opt()).map(|i| format!("t{}", i)).collect();
    Pending {
        family: "bind",
        request: format!("bind {} {}", d.sexp(), c.sexp(d.generator)),
        script: format!("{}{}", d.koto(), c.koto(d.generator)),
        nontrivial: d.params.len() + d.caps.len() >= 1,
        expect_trace: Some(ticks),
        ast: Some(CaseAst::Bind(d.clone(), c.clone())),
        capx: None,
        expect_result: None,
        route: None,
    }
}

fn cap_case(script: &[Ex]) -> Pending {
    let mut s = String::new();
    block_koto(script, 0, &mut s);
    Pending {
        family: "cap",
        request: format!("cap {}", script.iter().map(ex_sexp).collect::<Vec<_>>().join(" ")),
        script: s,
        nontrivial: script.iter().any(|e| matches!(e, Ex::Asg(_, b) if matches!(**b, Ex::Fn(..)))),
        expect_trace: None,
        ast: Some(CaseAst::Cap(script.to_vec())),
        capx: None,
        expect_result: None,
        route: None,
    }
}

fn share_case(ops: &[SOp]) -> Pending {
    let mut s = String::new();
    for op in ops {
        sop_koto(op, &mut s);
    }
    s.push_str("null\n");
    Pending {
        family: "share",
        request: format!("share {}", ops.iter().map(sop_sexp).collect::<Vec<_>>().join(" ")),
        script: s,
        nontrivial: ops.iter().any(|o| matches!(o, SOp::Call(..))),
        expect_trace: None,
        ast: Some(CaseAst::Share(ops.to_vec())),
        capx: None,
        expect_result: None,
        route: None,
    }
}

fn gen_case(g: &GenCase) -> Pending {
    Pending { family: "gen", request: g.request(), script: g.koto(), nontrivial: true, expect_trace: None, ast: Some(CaseAst::Gen(g.clone())), capx: None, expect_result: None, route: None }
}

/// hand-written cases that pin the mutation classes of DESIGN §11 and the guide's own examples
fn fixed_cases(ctx: &mut Ctx) {
    let id = |n| Param { pat: Pat::Id(n), default: None };
    let opt = |n, v| Param { pat: Pat::Id(n), default: Some(v) };
    // 2 of 3 optionals supplied + variadic + 2 captures + nested unpack (the property's own example)
    let d = Def {
        params: vec![
            Param { pat: Pat::Tup(vec![Pat::Id(1), Pat::Tup(vec![Pat::Id(2), Pat::Pk(Some(3))])]), default: None },
            opt(4, V::I(40)),
            opt(5, V::I(50)),
            opt(6, V::I(60)),
            id(7),
        ],
        variadic: true,
        caps: vec![(8, V::I(80)), (9, V::L(vec![V::I(9)]))],
        generator: false,
        self_ref: None,
        lates: vec![],
    };
    let container = V::T(vec![V::I(1), V::L(vec![V::I(2), V::I(3), V::I(4)])]);
    for n_extra in 0..6usize {
        let mut args = vec![(container.clone(), false)];
        for i in 0..n_extra {
            args.push((V::I(100 + i as i64), false));
        }
        for form in [Form::Paren, Form::Free, Form::Inst(false), Form::Piped(false), Form::PipedInst] {
            ctx.push(bind_case(&d, &Call { pre: 0, depth: 1 + (n_extra % 3) as u8, form, args: args.clone() }));
        }
    }
    // self reference x defaults x ordinary captures x generator: the function's own capture slot
    // comes after the default-value slots (slot = optional_arg_count + capture index), also when
    // its `Capture` is deferred until the assignment is committed
    for n_opt in 0..=3usize {
        for n_caps in 0..=2usize {
            for self_pos in 0..=n_caps {
                for generator in [false, true] {
                    let mut params = vec![id(1)];
                    for k in 0..n_opt {
                        params.push(opt(2 + k as u32, V::I(20 + k as i64)));
                    }
                    let caps: Vec<(u32, V)> = (0..n_caps).map(|k| (10 + k as u32, V::I(70 + k as i64))).collect();
                    let ds = Def { params, variadic: false, caps, generator, self_ref: Some(self_pos), lates: vec![] };
                    for count in 1..=1 + n_opt {
                        let args: Vec<(V, bool)> = (0..count).map(|k| (V::I(100 + k as i64), false)).collect();
                        let form = [Form::Paren, Form::Free, Form::Inst(false), Form::PipedInst, Form::Piped(false)][(n_opt + n_caps + self_pos + count) % 5].clone();
                        ctx.push(bind_case(&ds, &Call { pre: 0, depth: 1 + ((count + self_pos) % 3) as u8, form, args }));
                    }
                }
            }
        }
    }
    // piped into a method through a chain of containers, 1-3 levels, with/without extra arguments,
    // packed extras, function and generator method: must equal the direct call m.f(x, ...)
    for generator in [false, true] {
        let dm = Def { params: vec![id(1), opt(2, V::I(20)), id(3)], variadic: true, caps: vec![(4, V::I(40))], generator, self_ref: None, lates: vec![] };
        for depth in 1..=3u8 {
            for extra in 0..3usize {
                let mut args = vec![(V::I(1), false)];
                for k in 0..extra {
                    args.push((V::I(5 + k as i64), false));
                }
                ctx.push(bind_case(&dm, &Call { pre: 0, depth, form: Form::PipedInst, args: args.clone() }));
                ctx.push(bind_case(&dm, &Call { pre: 0, depth, form: Form::Inst(extra % 2 == 0), args: args.clone() }));
                args.push((V::T(vec![V::I(8), V::I(9)]), true));
                ctx.push(bind_case(&dm, &Call { pre: 0, depth, form: Form::PipedInst, args }));
            }
        }
    }
    // packed arguments: empty pack before a non-empty one (negative offset), with and without pipe
    let d3 = Def { params: vec![id(1), id(2), id(3)], variadic: false, caps: vec![], generator: false, self_ref: None, lates: vec![] };
    let e = || (V::L(vec![]), true);
    let p = |xs: Vec<i64>| (V::T(xs.into_iter().map(V::I).collect()), true);
    let packs: Vec<Vec<(V, bool)>> = vec![
        vec![e(), p(vec![1, 2, 3])],
        vec![e(), e(), p(vec![1, 2, 3])],
        vec![e(), (V::I(1), false), p(vec![2, 3])],
        vec![p(vec![1, 2]), e(), p(vec![3])],
        vec![p(vec![1]), p(vec![2]), p(vec![3])],
        vec![p(vec![1, 2, 3]), e()],
        vec![(V::I(1), false), e(), (V::I(2), false), e(), (V::I(3), false)],
        vec![(V::R(1, 4), true)],
        vec![(V::S("abc".into()), true)],
        vec![(V::M(vec![("k0".into(), V::I(1)), ("k1".into(), V::I(2)), ("k2".into(), V::I(3))]), true)],
        vec![(V::I(5), true), (V::I(1), false), (V::I(2), false)],
    ];
    for args in packs {
        for form in [Form::Paren, Form::Free, Form::Inst(false)] {
            ctx.push(bind_case(&d3, &Call { pre: 0, depth: 1, form, args: args.clone() }));
        }
        let mut piped = vec![(V::I(0), false)];
        piped.extend(args.clone());
        let d4 = Def { params: vec![id(1), id(2), id(3), id(4)], variadic: false, caps: vec![], generator: false, self_ref: None, lates: vec![] };
        ctx.push(bind_case(&d4, &Call { pre: 0, depth: 1, form: Form::Piped(false), args: piped }));
    }
    // F-C02-3 / F-C02-4 (fixed): sole ellipsis patterns; generator calls with empty/short packs
    for pk in [Pat::Pk(Some(1)), Pat::Pk(None)] {
        let ds = Def { params: vec![Param { pat: Pat::Tup(vec![pk.clone()]), default: None }, id(2)], variadic: false, caps: vec![], generator: false, self_ref: None, lates: vec![] };
        for c in [V::T(vec![V::I(1), V::I(2), V::I(3)]), V::L(vec![V::I(1)]), V::T(vec![]), V::S("ab".into()), V::I(3)] {
            ctx.push(bind_case(&ds, &Call { pre: 0, depth: 1, form: Form::Paren, args: vec![(c.clone(), false), (V::I(9), false)] }));
        }
    }
    let dg = Def { params: vec![id(1), opt(2, V::I(20))], variadic: false, caps: vec![(3, V::I(30))], generator: true, self_ref: None, lates: vec![] };
    for args in [vec![e(), (V::I(1), false)], vec![(V::I(1), false), e()], vec![e(), e(), p(vec![1])], vec![p(vec![1]), e()], vec![p(vec![1, 2])]] {
        for form in [Form::Paren, Form::Free, Form::Inst(false)] {
            ctx.push(bind_case(&dg, &Call { pre: 0, depth: 1, form, args: args.clone() }));
        }
    }
    fixed_cases2(ctx);
}

fn fixed_cases2(ctx: &mut Ctx) {
    // recursion / self reference (deferred capture), nested capture through an intermediate frame
    use Ex::*;
    let b = |e: Ex| Box::new(e);
    let fact = vec![
        Asg(1, b(Fn(vec![2], vec![Ite(b(Lt(b(Var(2)), b(Lit(1)))), b(Lit(0)), b(Add(b(Var(2)), b(Call(1, vec![Sub(b(Var(2)), b(Lit(1)))])))))]))),
        Call(1, vec![Lit(5)]),
    ];
    ctx.push(cap_case(&fact));
    let nested = vec![
        Asg(1, b(Lit(3))),
        Asg(2, b(Fn(vec![], vec![Asg(3, b(Fn(vec![], vec![Add(b(Var(1)), b(Lit(1)))]))), Call(3, vec![])]))),
        Asg(1, b(Lit(50))),
        Call(2, vec![]),
    ];
    ctx.push(cap_case(&nested));
    // a name that already has a value: `f = 1; f = || f` captures the old value
    let old = vec![Asg(1, b(Lit(1))), Asg(1, b(Fn(vec![], vec![Var(1)]))), Call(1, vec![])];
    ctx.push(cap_case(&old));
    // variable assigned after creation is not seen
    let late = vec![Asg(2, b(Fn(vec![], vec![Var(1)]))), Asg(1, b(Lit(1))), Call(2, vec![])];
    ctx.push(cap_case(&late));
    // guide: `x = 99; f = || x += 1; f(), f(), f()` (same starting value each call)
    let same = vec![
        Asg(1, b(Lit(99))),
        Asg(2, b(Fn(vec![], vec![Asg(1, b(Add(b(Var(1)), b(Lit(1)))))]))),
        Add(b(Call(2, vec![])), b(Add(b(Call(2, vec![])), b(Call(2, vec![]))))),
    ];
    ctx.push(cap_case(&same));
    // guide: mutable default shared between calls; default from a named variable
    ctx.push(share_case(&[
        SOp::Fn(10, Some((20, Some(DefaultExpr::Fresh(vec![])))), vec![BOp::Push(20, 1), BOp::Emit(20)]),
        SOp::Call(10, None),
        SOp::Call(10, None),
    ]));
    ctx.push(share_case(&[
        SOp::List(3, vec![1, 2]),
        SOp::Fn(10, Some((20, Some(DefaultExpr::Var(3)))), vec![BOp::Push(20, 3)]),
        SOp::Call(10, None),
        SOp::Call(10, None),
        SOp::Emit(3),
    ]));
    // guide: my_first_generator
    ctx.push(gen_case(&GenCase {
        params: vec![],
        caps: vec![],
        body: vec![GS::Yield(GE::Lit(1)), GS::Yield(GE::Lit(2))],
        consumer: Consumer::Nexts(3),
    }));
}

fn corpus_cases(ctx: &mut Ctx, dir: &std::path::Path) {
    // corpus files: one request line + the script, separated by a line `---`; family = first word
    let Ok(rd) = std::fs::read_dir(dir) else { return };
    let mut files: Vec<_> = rd.filter_map(|e| e.ok()).map(|e| e.path()).filter(|p| p.extension().map(|x| x == "case").unwrap_or(false)).collect();
    files.sort();
    for f in files {
        let Ok(txt) = std::fs::read_to_string(&f) else { continue };
        let Some((req, script)) = txt.split_once("\n---\n") else { continue };
        let req = req.lines().filter(|l| !l.starts_with('#')).collect::<Vec<_>>().join(" ");
        let family: &'static str = match req.split(' ').next() {
            Some("bind") => "bind",
            Some("cap") => "cap",
            Some("share") => "share",
            Some("gen") => "gen",
            _ => continue,
        };
        let expect_trace = None;
        ctx.rep.bump("corpus");
        ctx.push(Pending { family, request: req, script: script.to_string(), nontrivial: true, expect_trace, ast: None, capx: None, expect_result: None, route: None });
    }
}

/// known findings: replay each witness; still failing ⇒ KNOWN-FINDING, passing ⇒ note
fn replay_known(ctx: &mut Ctx) {
    for e in ctx.rep.known_entries() {
        let id = e.get("id").and_then(|x| x.as_str()).unwrap_or("").to_string();
        let status = e.get("status").and_then(|x| x.as_str()).unwrap_or("");
        let what = e.get("what").and_then(|x| x.as_str()).unwrap_or("").to_string();
        let Some(w) = e.get("witness").and_then(|x| x.as_str()) else { continue };
        let expected = e.get("expected_canonical").and_then(|x| x.as_str()).unwrap_or("");
        let (res, _) = ctx.rt.run(w);
        let fails = res != expected;
        ctx.rep.bump("known-replay");
        match (status, fails) {
            ("known", true) => {
                // the model of the code must reproduce it (the theorem side states the negation)
                let mut model_ok = true;
                if let (Some(req), Some(d)) = (e.get("model_request").and_then(|x| x.as_str()), ctx.drv.as_mut()) {
                    let m = d.ask(req);
                    let want = e.get("model_response").and_then(|x| x.as_str()).unwrap_or("");
                    model_ok = m == want;
                    if !model_ok {
                        ctx.rep.violation("K", &format!("K:C02:known:{}", id), json!({"finding": id, "request": req, "model": m, "expected_model": want,
                            "note": "the model no longer reproduces the recorded defect"}));
                    }
                }
                if model_ok {
                    ctx.rep.known(&id, &what);
                }
                if let Some(ws) = e.get("other_witnesses").and_then(|x| x.as_array()) {
                    for w2 in ws.iter().filter_map(|x| x.as_str()) {
                        let (r2, _) = ctx.rt.run(w2);
                        ctx.rep.bump("known-replay-other");
                        if !(r2.starts_with("E:") || r2.starts_with("PANIC")) {
                            ctx.rep.note(format!("known finding {}: an additional witness now runs without error ({})", id, r2));
                        }
                    }
                }
            }
            ("known", false) => ctx.rep.note(format!("known finding {} no longer reproduces (witness passes): candidate for status=fixed", id)),
            ("fixed", true) => ctx.rep.violation("D", &format!("fixed-finding-regressed:{}", id), json!({"finding": id, "program": w, "implementation": res, "expected": expected})),
            _ => {}
        }
    }
}

fn main() {
    kvh::quiet_panics();
    let args = Args::parse();
    let mut rep = Report::new("C02", &args);
    rep.rule = "case = one script + the same abstract case for the model. bind: function definition (0-3 required, 0-3 optional with tick()-wrapped defaults, variadic?, 0-3 captures reassigned after creation, 0-3 ids exported after the function was created and read by the body directly or through a thunk call (late-bound through the module's exports), self reference, `_`, nested tuple patterns depth<=2 with leading/trailing ellipsis, map patterns {k}, {k as v}, {k as _}) x call form (paren, paren-free, piped, instance, generator call) x argument count arity-2..arity+2 x 0-2 (thorough 0-3) packed arguments of length 0-3 at any position (count grid enumerated exhaustively for plain parameters, random for rich ones); cap: random scripts with nested (1-3 deep)/recursive closures, assignment targets read anywhere in the right-hand side; capx: random function and generator bodies over the wider syntax (block if/for/while/until, switch, match with binding patterns and guards, inline if, string interpolation, tuples, assignments nested in expressions, multi-assignment with {x} and {k as x} targets reading same-named outer variables, nested closures 1-3 deep): accessed_non_locals of the real parser = Model/CaptureX.lean, declaratively free names are captured, closure run = parameter run; routes: every definition is also reached as a callback of core-library functions that pass a pair (map.each/keep/any/find/all, enumerate.each/keep, zip.each/keep; temporary-tuple fast path for a single unpacked-tuple parameter) and through the host API (call_function with CallArgs::Single/Separate/AsTuple, container sizes fixed part -1/0/+1), directed single-tuple-parameter definitions with fixed part 1-3 x ellipsis none/first/last; dup: argument lists in which one name is used twice, every pair of positions (top level, nested tuple, rest..., {x}, {k as x}, variadic, with defaults) -> compile error; repeated `_q` accepted; pipe: `a -> f [b]` against `f(a[, b])` for callees local / harness prelude / core prelude / wildcard-imported / exported by another chunk / chain m.f / module path x 9 destinations of the result (fresh variable, the piped variable itself, another live variable, unused, tuple and list element, call argument, twice in a row, twice in one expression); late: 2-4 exported functions with 0-3 default arguments and 0-3 captures each that call functions exported later than themselves (mutually recursive countdowns, also consumed by a generator), result and tick trace computed directly from the guide; share: random histories over int/list variables, closures, defaults; gen: random generator bodies x 5 consumers. distinct = distinct request lines; non-trivial = bind: at least one parameter or capture, cap: defines a closure, share: calls a closure, gen: all".into();
    let drv = if args.driver.is_empty() || args.has_flag("--no-driver") { None } else { Some(Driver::spawn(&args.driver)) };
    let mut ctx = Ctx { rt: Runtime::new(), drv, rep, pending: vec![] };
    if args.extra.windows(2).any(|w| w[0] == "--plant" && w[1] == "swap-free-args") {
        PLANT.store(true, std::sync::atomic::Ordering::Relaxed);
        ctx.rep.note("SELF-TEST: planted renderer fault swap-free-args is active; violations are expected");
    }

    if let Some(path) = args.replay.clone() {
        // re-run one recorded failure: the replay file holds request + program
        let txt = std::fs::read_to_string(&path).expect("replay file");
        let v: serde_json::Value = serde_json::from_str(&txt).expect("replay json");
        let d = &v["detail"];
        let fam: &'static str = match d["family"].as_str().unwrap_or("") {
            "bind" => "bind",
            "cap" => "cap",
            "share" => "share",
            _ => "gen",
        };
        ctx.push(Pending {
            family: fam,
            request: d["request"].as_str().unwrap_or("").to_string(),
            script: d["program"].as_str().unwrap_or("").to_string(),
            nontrivial: true,
            expect_trace: None,
            ast: None,
            capx: None,
        expect_result: None,
        route: None,
        });
        ctx.flush();
        std::process::exit(ctx.rep.finish());
    }

    replay_known(&mut ctx);
    if let Some(c) = args.corpus.clone() {
        corpus_cases(&mut ctx, &c);
    }
    fixed_cases(&mut ctx);

    let thorough = args.thorough();
    let mut rng = Rng::new(args.seed);

    // ---- bind: the count grid, exhaustively, for plain parameters ---------------------------
    let forms = 6;
    let mut grid = 0u64;
    for n_req in 0..=3usize {
        for n_opt in 0..=3usize {
            for variadic in [false, true] {
                for n_caps in 0..=3usize {
                    if !thorough && n_caps == 2 {
                        continue;
                    }
                    let arity = n_req + n_opt;
                    let lo = arity.saturating_sub(2);
                    let mut d = gen_def(&mut rng, n_req, n_opt, variadic, n_caps, false);
                    d.self_ref = if (n_req + n_opt + n_caps + variadic as usize) % 2 == 0 { Some((n_req + n_opt) % (n_caps + 1)) } else { None };
                    // 0-3 late-bound exports, independent of the number of defaults and captures
                    d.lates.truncate((n_req + 2 * n_opt + 3 * n_caps + variadic as usize) % 4);
                    while d.lates.len() < (n_req + 2 * n_opt + 3 * n_caps + variadic as usize) % 4 {
                        let n = 900 + d.lates.len() as u32;
                        d.lates.push((n, V::I(n as i64), d.lates.len() % 2 == 1));
                    }
                    for count in lo..=arity + 2 {
                        for form in 0..forms {
                            for n_packs in 0..=(if thorough { 2 } else { 1 }) {
                                if !thorough && n_packs == 1 && (form + count + n_caps) % 2 == 1 {
                                    continue;
                                }
                                d.generator = (n_req + n_opt + n_caps + count + form) % 5 == 0;
                                let c = gen_call(&mut rng, &d, count, n_packs, form);
                                if d.generator && shrinking_packs(&c) {
                                    ctx.rep.bump("bind:generator-call-with-short-packs");
                                }
                                ctx.push(bind_case(&d, &c));
                                grid += 1;
                            }
                        }
                    }
                }
            }
        }
    }
    ctx.rep.extra.insert("bind_grid_cases".into(), json!(grid));

    // ---- bind: random rich definitions ------------------------------------------------------
    let n_defs = if thorough { 60000 } else { 2500 };
    for _ in 0..n_defs {
        let n_req = rng.below(4);
        let n_opt = rng.below(4);
        let variadic = rng.chance(1, 3);
        let n_caps = rng.below(4);
        let d = gen_def(&mut rng, n_req, n_opt, variadic, n_caps, true);
        let arity = d.arity();
        for _ in 0..4 {
            let count = (arity as i64 + rng.range(-2, 2)).max(0) as usize;
            let n_packs = [0, 0, 1, 2, if thorough { 3 } else { 1 }][rng.below(5)];
            let form = rng.below(7);
            let c = gen_call(&mut rng, &d, count, n_packs, form);
            if d.generator && shrinking_packs(&c) {
                ctx.rep.bump("bind:generator-call-with-short-packs");
            }
            let depth = d.params.iter().map(|p| pat_depth(&p.pat)).max().unwrap_or(0);
            ctx.rep.bump(&format!("bind:pattern-depth={}", depth));
            ctx.rep.bump(&format!("bind:packs={}", c.args.iter().filter(|a| a.1).count()));
            if d.self_ref.is_some() {
                ctx.rep.bump(&format!("bind:self-ref,defaults={},caps={},generator={}", d.n_opt().min(1), d.caps.len().min(1), d.generator as u8));
            }
            if matches!(c.form, Form::PipedInst) {
                ctx.rep.bump(&format!("bind:piped-into-method,depth={}", c.depth));
            }
            if c.pre > 0 {
                ctx.rep.bump("bind:chained-pipe");
            }
            if !d.lates.is_empty() {
                ctx.rep.bump(&format!("bind:late-bound-exports={},defaults={},caps={}", d.lates.len(), d.n_opt().min(3), d.caps.len().min(3)));
            }
            ctx.push(bind_case(&d, &c));
        }
    }

    // ---- bind: every calling route ----------------------------------------------------------
    for d in directed_route_defs() {
        route_cases(&mut ctx, &mut rng, &d, true);
    }
    let n_route_defs = if thorough { 6000 } else { 400 };
    for _ in 0..n_route_defs {
        let (n_req, n_opt, variadic, n_caps) = (1 + rng.below(2), rng.below(3), rng.chance(1, 3), rng.below(3));
        let n_req = if rng.chance(1, 2) { 1 } else { n_req };
        let n_opt = if rng.chance(1, 2) { 0 } else { n_opt };
        let variadic = variadic && rng.chance(1, 2);
        let d = gen_def(&mut rng, n_req, n_opt, variadic, n_caps, true);
        route_cases(&mut ctx, &mut rng, &d, false);
    }
    // ---- bind: duplicated argument names, every pair of positions ---------------------------
    let n_dup = if thorough { 20000 } else { 1500 };
    let mut made = 0;
    let mut tries = 0;
    while made < n_dup && tries < 20 * n_dup {
        tries += 1;
        let n_req = rng.below(4);
        let n_opt = rng.below(3);
        let variadic = rng.chance(1, 3);
        let n_caps_d = rng.below(2);
        let d = gen_def(&mut rng, n_req, n_opt, variadic, n_caps_d, true);
        let mut n_pos = vec![];
        for p in &d.params {
            pat_positions(&p.pat, true, &mut n_pos);
        }
        if n_pos.len() < 2 {
            continue;
        }
        let i = rng.below(n_pos.len());
        let j = (i + 1 + rng.below(n_pos.len() - 1)) % n_pos.len();
        let Some((d2, kinds)) = duplicate_names(&d, i, j) else { continue };
        let count = d2.arity();
        let form_d = rng.below(7);
        let c = gen_call(&mut rng, &d, count, 0, form_d);
        ctx.rep.bump(&format!("bind:dup-arg-names:{}", kinds));
        let mut p = bind_case(&d2, &c);
        p.expect_trace = None;
        p.ast = None;
        ctx.push(p);
        made += 1;
        // the accepted counterpart: ignored ids may repeat (`_q` twice or more)
        if d.params.iter().filter(|p| matches!(p.pat, Pat::Ign)).count() >= 2 {
            let mut p = bind_case(&d, &c);
            p.script = p.script.replace("|_,", "|_q,").replace(", _,", ", _q,").replace(", _|", ", _q|").replace(", _ =", ", _q =").replace("|_ =", "|_q =").replace("|_|", "|_q|");
            p.ast = None;
            ctx.rep.bump("bind:repeated-ignored-ids");
            ctx.push(p);
        }
    }
    // ---- cap --------------------------------------------------------------------------------
    let n_cap = if thorough { 200000 } else { 10000 };
    for _ in 0..n_cap {
        let s = gen_cap_script(&mut rng);
        let (nf, nr, depth) = cap_stats(&s);
        if count_f27(&s) > 0 {
            ctx.rep.bump("cap:target-read-after-nested-list(F-C02-1 shape)");
        }
        ctx.rep.bump(&format!("cap:closures={}", nf.min(4)));
        ctx.rep.bump(&format!("cap:closure-nesting={}", depth));
        if nr > 0 {
            ctx.rep.bump("cap:recursive");
        }
        ctx.push(cap_case(&s));
    }
    // ---- capx -------------------------------------------------------------------------------
    let n_capx = if thorough { 150000 } else { 8000 };
    for _ in 0..n_capx {
        let c = gen_capx(&mut rng);
        if c.generator {
            ctx.rep.bump("capx:generator");
        }
        ctx.push(capx_case(&c));
    }
    // ---- pipe -------------------------------------------------------------------------------
    let n_pipe = if thorough { 30000 } else { 3000 };
    for _ in 0..n_pipe {
        let (piped, direct, kind) = gen_pipe(&mut rng);
        let reference = ctx.rt.run(&direct);
        ctx.rep.bump(&format!("pipe:{}", kind.split(' ').next().unwrap_or("")));
        ctx.rep.bump(&format!("pipe:reference-outcome={}", if reference.0.starts_with("E:") || reference.0.starts_with("PANIC") { reference.0.split(':').take(2).collect::<Vec<_>>().join(":") } else { "value".to_string() }));
        ctx.push(Pending {
            family: "pipe",
            request: format!("pipe {} {}", kind, kvh::hex(piped.as_bytes())),
            script: piped,
            nontrivial: true,
            expect_trace: None,
            ast: None,
            capx: None,
            expect_result: Some(reference),
            route: None,
        });
    }
    // ---- late -------------------------------------------------------------------------------
    let n_late = if thorough { 40000 } else { 3000 };
    for _ in 0..n_late {
        let c = gen_late(&mut rng);
        let script = c.koto();
        ctx.push(Pending {
            family: "late",
            request: format!("late {:?}", c),
            script,
            nontrivial: true,
            expect_trace: None,
            ast: None,
            capx: None,
            expect_result: Some(c.expected()),
            route: None,
        });
    }
    // ---- share ------------------------------------------------------------------------------
    let n_share = if thorough { 150000 } else { 8000 };
    for _ in 0..n_share {
        let ops = gen_share(&mut rng);
        ctx.push(share_case(&ops));
    }
    // ---- gen --------------------------------------------------------------------------------
    let n_gen = if thorough { 200000 } else { 10000 };
    for _ in 0..n_gen {
        let g = gen_gen_case(&mut rng);
        ctx.rep.bump(&format!("gen:consumer={}", match g.consumer { Consumer::For(None) => "for", Consumer::For(Some(_)) => "for-break", Consumer::Nexts(_) => "nexts", Consumer::All => "to_tuple", Consumer::Take(_) => "take" }));
        ctx.push(gen_case(&g));
    }
    ctx.flush();
    let runs = ctx.rt.runs;
    ctx.rep.extra.insert("scripts_run".into(), json!(runs));
    if ctx.drv.is_none() {
        ctx.rep.note("model driver not available: implementation ran, nothing was compared");
    }
    std::process::exit(ctx.rep.finish());
}

/// the shape of F-C02-4 (fixed): a *generator* function called with packed arguments that expand to
/// fewer than 2 values per pack on average (the caller's register file used to be left shorter than
/// its frame needs); generated like any other call, only counted
fn shrinking_packs(c: &Call) -> bool {
    let packs = c.args.iter().filter(|a| a.1).count();
    let total: usize = c.args.iter().filter(|a| a.1).map(|a| a.0.elems().map(|e| e.len()).unwrap_or(0)).sum();
    packs > 0 && total < 2 * packs
}

fn pat_depth(p: &Pat) -> usize {
    match p {
        Pat::Tup(ps) => 1 + ps.iter().map(pat_depth).max().unwrap_or(0),
        Pat::Map(_) => 1,
        _ => 0,
    }
}
