//! C10 — layout and alternative spellings never change a program's meaning; cut-off programs are
//! classified as indentation errors exactly after a header line / `=` / binary operator.
//!
//! (K)  hook H2: every call of the parser's token-cursor primitives during a real parse is replayed
//!      on `Model/Cursor.lean` over `Model/Lexer.lean`'s token list (same cursor, same result);
//! (TV) translation validation: seeded block-structured programs × layout variants — identical
//!      canonical `Ast` (spans erased) for trivia-only and line-breaking variants, identical
//!      erased `Ast` + identical behaviour (result + captured stdout) for spelling variants;
//! (D)  cut-off sweep: every line-prefix of generated programs (roles known to the generator) and
//!      of /repo/koto/tests/*.koto.
use koto::prelude::*;
use koto::runtime::{KotoFile, KotoRead, KotoWrite, Result as RtResult};
use koto_runtime::PtrMut;
use kvh::{Args, Driver, Report, Rng};
use serde_json::json;
use unicode_segmentation::UnicodeSegmentation;
use unicode_width::UnicodeWidthChar;
use unicode_xid::UnicodeXID;

include!("c10_parts/gen.rs");
include!("c10_parts/render.rs");
include!("c10_parts/shrink.rs");
include!("c10_parts/run.rs");
include!("c10_parts/sweep.rs");
include!("c10_parts/binop.rs");
include!("c10_parts/layout.rs");
include!("c10_parts/layout2.rs");

// ---- hook H2 switch -------------------------------------------------------------------------------
// `on`: /repo contains the H2 hook (koto_parser::verif, commit "verif hook H2"); `off`: the (K)
// cursor-trace leg is skipped (translation validation and theorems only).
macro_rules! h2_switch {
    (on) => {
        mod h2 {
            pub const ON: bool = true;
            pub fn enable(on: bool) {
                koto_parser::verif::enable_cursor_trace(on)
            }
            pub fn take() -> Vec<String> {
                koto_parser::verif::take_cursor_trace()
            }
        }
    };
    (off) => {
        mod h2 {
            pub const ON: bool = false;
            pub fn enable(_on: bool) {}
            pub fn take() -> Vec<String> {
                vec![]
            }
        }
    };
}
h2_switch!(on);

fn main() {
    kvh::quiet_panics();
    let args = Args::parse();
    let mut rep = Report::new("C10", &args);
    rep.rule = "cases: (program, layout variant) pairs validated against the base layout, line-prefix cuts, and cursor-trace replays; key = source text (+ kind); non-trivial = source with at least 3 lines".into();
    let drv = if args.driver.is_empty() { None } else { Some(Driver::spawn(&args.driver)) };
    let mut cx = Ctx::new(rep, drv);

    if let Some(i) = args.extra.iter().position(|x| x == "--probe") {
        // development aid: `--probe FILE` — snippets separated by a line `---`
        let src = std::fs::read_to_string(&args.extra[i + 1]).unwrap();
        for part in src.split("\n---\n") {
            println!("=== source:\n{}", part);
            println!("--- parser: {:?}", cut_parser(part));
            if let Ok(Ok(p)) = parse_real(part) {
                println!("--- ast: {}", p.strict);
            }
            println!("--- {}", behaviour(part));
        }
        return;
    }
    if args.has_flag("--layout-matrix") {
        let mut rng = Rng::new(args.seed);
        cx.layout_stream(&mut rng, 3, true);
        return;
    }
    if args.has_flag("--binop-matrix") {
        // development aid: which broken binary-operator layouts does the linked parser accept?
        let mut rng = Rng::new(args.seed);
        cx.binop_stream(&mut rng, 6000, true);
        return;
    }
    if let Some(p) = &args.replay {
        let v: serde_json::Value = serde_json::from_str(&std::fs::read_to_string(p).expect("replay file")).unwrap();
        cx.replay(&v);
        std::process::exit(cx.finish());
    }

    // 0. structural tie, witnesses of listed findings, regression corpus
    cx.interface_check();
    cx.parse_term_table_check();
    cx.known_findings();
    if let Some(dir) = &args.corpus {
        cx.corpus(dir);
    }

    // 1. generated programs × layout variants, cut-off sweeps, cursor traces
    let thorough = args.thorough();
    let n_prog = if thorough { 800 } else { 220 };
    let mut rng = Rng::new(args.seed);
    for i in 0..n_prog {
        let mut prng = rng.fork();
        cx.program(&mut prng, i, thorough);
    }

    // 1b. match/switch arms at every indentation relative to their header, with trivia before them
    cx.arm_indent_stream(&mut rng, if thorough { 3000 } else { 400 });

    // 1c. binary-operator chains broken over 2..5 lines in every bracketed context and outside brackets
    cx.binop_stream(&mut rng, if thorough { 8000 } else { 1500 }, false);

    // 1d. closers on their own line, paren-free argument lists over several lines, keyword values
    cx.layout_stream(&mut rng, if thorough { 12 } else { 2 }, false);

    // 2. repository sources: cursor traces, trivia invariance, cut-off sweep
    cx.repo_sources(&mut rng, thorough);

    std::process::exit(cx.finish());
}
