//! C15 — strings stay valid text; indexing, splitting and formatting are exact.
//!
//! Every case is one request line of the model protocol (see lean/Drivers/C15.lean). The same line
//! is (a) executed against the real runtime in-process (`exec`: the string is built in the requested
//! storage form — literal from a compiled script's constant pool, `Full` by run-time concatenation,
//! sub-slice with 16-bit or large bounds — and the operation is called through exported Koto
//! functions), (b) sent to the Lean model driver.
//!   (K) the two canonical result lines must be equal;
//!   (D) the property is evaluated directly on the implementation's result with an oracle built on
//!       Rust `std::str` + `unicode-segmentation`; every string coming out of the runtime is
//!       re-validated as UTF-8; a panic is a violation.
use koto::prelude::*;
use koto_lexer::{Lexer, Token};
use koto_parser::{Node, Parser, StringAlignment, StringContents, StringFormatOptions, StringNode};
use kvh::{hex, unhex, Args, Driver, Report, Rng};
use serde_json::json;
use std::collections::{BTreeMap, HashMap};
use unicode_segmentation::UnicodeSegmentation;

const ALPHABET: &[&str] = &["a", ",", "é", "字", "😀", "\u{301}", "\r", "\n", " ", "ß"];
const EXTRA: &[&str] = &[
    "\u{a0}", "\u{3000}", "İ", "ǅ", "\u{200d}", "\u{1F1E6}", "\u{1F1FA}", "x", "A", "\t", "0", "'", "{", "\\", "한",
    "\u{feff}", "\u{1F468}", "\u{1F469}", "e", "\u{308}", "ſ", "ﬁ", "Σ", "\u{85}", "\u{2028}",
];
const PATTERNS: &[&str] = &["", "a", ",", "é", "字", "😀", "\u{301}", "\r", "\n", " ", "ß", "\r\n", ",,", "a,", "é\u{301}", "aa"];
const NUM_ALPHABET: &[&str] = &["0", "1", "9", "x", "b", "o", "f", "e", "+", "-", ".", "_", " ", "i", "n", "a", "é"];
const ESC_ALPHABET: &[&str] = &[
    "\\", "n", "r", "t", "x", "u", "{", "}", "4", "1", "f", "\"", "\n", "\r\n", " ", "é", "a", "g", "d", "8", "0", "'", "\t",
];
const OPT_ALPHABET: &[&str] = &["<", "^", ">", "0", "5", ".", "?", "x", "e", "*", "é", "\u{301}", "a", "1", " "];

// ------------------------------------------------------------------------------------------------
// descriptors

#[derive(Clone, Debug, PartialEq)]
enum Desc {
    Full(String),
    Lit(String),
    Slice { pre: usize, s: String, post: String },
}

impl Desc {
    fn s(&self) -> &str {
        match self {
            Desc::Full(s) | Desc::Lit(s) => s,
            Desc::Slice { s, .. } => s,
        }
    }
    fn text(&self) -> String {
        match self {
            Desc::Full(s) => format!("F:{}", hex(s.as_bytes())),
            Desc::Lit(s) => format!("L:{}", hex(s.as_bytes())),
            Desc::Slice { pre, s, post } => format!("S:{}:{}:{}", pre, hex(s.as_bytes()), hex(post.as_bytes())),
        }
    }
    fn parse(t: &str) -> Option<Desc> {
        let p: Vec<&str> = t.split(':').collect();
        let st = |h: &str| String::from_utf8(unhex(h)?).ok();
        match p.as_slice() {
            ["F", h] => Some(Desc::Full(st(h)?)),
            ["L", h] => Some(Desc::Lit(st(h)?)),
            ["S", pre, h, post] => Some(Desc::Slice { pre: pre.parse().ok()?, s: st(h)?, post: st(post)? }),
            _ => None,
        }
    }
    fn is_full(&self) -> bool {
        matches!(self, Desc::Full(_))
    }
}

/// first-cluster lengths obtained the way `pop_front` obtains them: segment the remaining suffix afresh
fn seg_table(s: &str) -> Vec<usize> {
    let mut out = vec![];
    let mut off = 0;
    while off < s.len() {
        let g = s[off..].graphemes(true).next().map(|g| g.len()).unwrap_or(1);
        out.push(g);
        off += g;
    }
    out
}

fn seg_consistent(s: &str) -> bool {
    let whole: Vec<usize> = s.graphemes(true).map(|g| g.len()).collect();
    if whole != seg_table(s) {
        return false;
    }
    // and from the back (pop_back segments the remaining prefix afresh)
    let mut end = s.len();
    let mut back = vec![];
    while end > 0 {
        let g = s[..end].graphemes(true).next_back().map(|g| g.len()).unwrap_or(1);
        back.push(g);
        end -= g;
    }
    back.reverse();
    back == whole
}

fn gtab(s: &str) -> String {
    let mut t = format!("(G {}", hex(s.as_bytes()));
    for g in seg_table(s) {
        t.push_str(&format!(" {}", g));
    }
    t.push(')');
    t
}

// ------------------------------------------------------------------------------------------------
// the runtime side

fn ops_script() -> String {
    let mut s = String::new();
    s.push_str(
        r#"
export cat = |a, b| a + b
export sub = |s, a, b| s[a..b]
export idx = |s, lo, hi|
  r = []
  for i in lo..=hi
    try
      r.push((0, s[i]))
    catch e
      r.push((1, '{e}'))
  r
export rng = |s, lo, hi|
  r = []
  for a in lo..=hi
    for b in lo..=hi
      try
        r.push((0, s[a..b]))
      catch e
        r.push((1, '{e}'))
  for a in lo..=hi
    for b in lo..=hi
      try
        r.push((0, s[a..=b]))
      catch e
        r.push((1, '{e}'))
  for a in lo..=hi
    try
      r.push((0, s[a..]))
    catch e
      r.push((1, '{e}'))
  for b in lo..=hi
    try
      r.push((0, s[..b]))
    catch e
      r.push((1, '{e}'))
  for b in lo..=hi
    try
      r.push((0, s[..=b]))
    catch e
      r.push((1, '{e}'))
  r
export chars = |s| s.chars().to_tuple()
export rchars = |s| s.chars().reversed().to_tuple()
export iter_default = |s|
  r = []
  for c in s
    r.push c
  r
export cidx = |s| s.char_indices().to_tuple()
export bytes = |s| s.bytes().to_tuple()
export lines = |s| s.lines().to_tuple()
export trim = |s| (s.trim(), s.trim_start(), s.trim_end())
export trimp = |s, p| (s.trim(p), s.trim_start(p), s.trim_end(p))
export split = |s, p| s.split(p).take((size s) + 4).to_tuple()
export splitw = |s, p| s.split(|c| c == p).take((size s) + 4).to_tuple()
export stripp = |s, p| s.strip_prefix p
export strips = |s, p| s.strip_suffix p
export contains = |s, p| s.contains p
export starts = |s, p| s.starts_with p
export ends = |s, p| s.ends_with p
export replace = |s, p, t| s.replace p, t
export repeat = |s, n|
  try
    (0, s.repeat n)
  catch e
    (1, '{e}')
export lower = |s| s.to_lowercase()
export upper = |s| s.to_uppercase()
export tonum = |s| s.to_number()
export tonumb = |s, b|
  try
    (0, s.to_number b)
  catch e
    (1, '{e}')
export size_of = |s| size s
export mkobj1 = |d| {@display: || d}
export mkobj2 = |d, g| {@display: || d, @debug: || g}
"#,
    );
    for n in 2..=16 {
        let ids: Vec<String> = (0..n).map(|i| format!("a{}", i)).collect();
        s.push_str(&format!("unx{}_ = |({})| ({})\n", n, ids.join(", "), ids.join(", ")));
        s.push_str(&format!(
            "export unx{} = |s|\n  try\n    (0, unx{}_(s))\n  catch e\n    (1, '{{e}}')\n",
            n, n
        ));
    }
    for k in 1..=2 {
        let ids: Vec<String> = (0..k).map(|i| format!("a{}", i)).collect();
        s.push_str(&format!("unh{}_ = |({}, rest...)| ({}, rest)\n", k, ids.join(", "), ids.join(", ")));
        s.push_str(&format!("unt{}_ = |(first..., {})| (first, {})\n", k, ids.join(", "), ids.join(", ")));
        for w in ["unh", "unt"] {
            s.push_str(&format!(
                "export {w}{k} = |s|\n  try\n    (0, {w}{k}_(s))\n  catch e\n    (1, '{{e}}')\n"
            ));
        }
    }
    // the same through `match`
    s.push_str(
        r#"
export match2 = |s|
  match s
    (a, b) then (a, b)
    else 'nomatch'
"#,
    );
    s
}

fn escape_literal(s: &str) -> String {
    let mut o = String::new();
    for c in s.chars() {
        match c {
            '\\' => o.push_str("\\\\"),
            '\'' => o.push_str("\\'"),
            '{' => o.push_str("\\{"),
            '\r' => o.push_str("\\r"),
            '\n' => o.push_str("\\n"),
            '\t' => o.push_str("\\t"),
            c => o.push(c),
        }
    }
    o
}

struct Rt {
    koto: Koto,
    fns: HashMap<String, KValue>,
    lit_cache: HashMap<String, KValue>,
    fmt_cache: HashMap<String, Result<KValue, String>>,
    pads: HashMap<usize, KValue>,
    calls: u64,
}

#[derive(Default)]
struct Out {
    line: String,
    /// strings that came out of the runtime and are not valid UTF-8
    invalid: Vec<Vec<u8>>,
    panic: Option<String>,
    /// (clause, detail) of (D) failures
    d_fail: Vec<(String, String)>,
    /// failures attributed to a listed finding by its cause rule: (id, detail)
    attributed: Vec<(String, String)>,
    nontrivial: bool,
}

fn classify_err(msg: &str) -> String {
    if msg.contains("too large") {
        "E:toolarge".into()
    } else if msg.contains("only supported for integers") {
        "E:repr".into()
    } else if msg.contains("invalid UTF-8") {
        "E:utf8".into()
    } else if msg.contains("negative indices") {
        "E:neg".into()
    } else if msg.contains("index out of bounds") {
        "E:index".into()
    } else if msg.contains("has a size of") {
        "E:size".into()
    } else if msg.contains("non-negative") {
        "E:negative".into()
    } else if msg.contains("number base") {
        "E:base".into()
    } else {
        format!("E:other:{}", msg.replace([' ', '\n', '(', ')'], "_"))
    }
}

impl Rt {
    fn new() -> Rt {
        let mut koto = Koto::new();
        koto.compile_and_run(ops_script().as_str()).expect("ops script");
        let mut fns = HashMap::new();
        for (k, v) in koto.exports().data().iter() {
            if let KValue::Str(name) = k.value() {
                fns.insert(name.as_str().to_string(), v.clone());
            }
        }
        Rt { koto, fns, lit_cache: HashMap::new(), fmt_cache: HashMap::new(), pads: HashMap::new(), calls: 0 }
    }

    fn call(&mut self, name: &str, args: &[KValue]) -> Result<KValue, String> {
        let f = self.fns.get(name).unwrap_or_else(|| panic!("no function {}", name)).clone();
        self.callv(f, args)
    }

    fn callv(&mut self, f: KValue, args: &[KValue]) -> Result<KValue, String> {
        self.calls += 1;
        let koto = &mut self.koto;
        match kvh::catch(|| koto.call_function(f, args)) {
            Ok(Ok(v)) => Ok(v),
            Ok(Err(e)) => Err(format!("ERR:{}", e)),
            Err(p) => Err(format!("PANIC:{}", p)),
        }
    }

    fn kstr(s: &str) -> KValue {
        KValue::Str(KString::from(s))
    }

    fn compile_lits(&mut self, strs: &[String]) {
        for chunk in strs.chunks(1500) {
            let mut src = String::from("export lits = (\n");
            for s in chunk {
                src.push_str(&format!("  '{}',\n", escape_literal(s)));
            }
            src.push_str(")\n");
            self.koto.compile_and_run(src.as_str()).expect("literal script");
            let t = self.koto.exports().get("lits").expect("lits");
            if let KValue::Tuple(t) = t {
                assert_eq!(t.len(), chunk.len());
                for (s, v) in chunk.iter().zip(t.iter()) {
                    self.lit_cache.insert(s.clone(), v.clone());
                }
            } else {
                panic!("lits is not a tuple");
            }
        }
    }

    /// the string in the requested storage form
    fn mk(&mut self, d: &Desc) -> Result<KValue, String> {
        match d {
            Desc::Full(s) => {
                let cut = s.chars().next().map(|c| c.len_utf8()).unwrap_or(0);
                self.call("cat", &[Self::kstr(&s[..cut]), Self::kstr(&s[cut..])])
            }
            Desc::Lit(s) => {
                if !self.lit_cache.contains_key(s) {
                    self.compile_lits(&[s.clone()]);
                }
                Ok(self.lit_cache.get(s).unwrap().clone())
            }
            Desc::Slice { pre, s, post } => {
                let pad = self.pads.entry(*pre).or_insert_with(|| Self::kstr(&"x".repeat(*pre))).clone();
                let tail = format!("{}{}", s, post);
                let big = self.call("cat", &[pad, Self::kstr(&tail)])?;
                self.call("sub", &[big, (*pre as i64).into(), ((*pre + s.len()) as i64).into()])
            }
        }
    }

    fn fmt_fn(&mut self, opts: &str) -> Result<KValue, String> {
        if let Some(r) = self.fmt_cache.get(opts) {
            return r.clone();
        }
        let src = format!("export ff = |x| '{{x:{}}}'\n", opts);
        let koto = &mut self.koto;
        let r = match kvh::catch(|| koto.compile_and_run(src.as_str())) {
            Ok(Ok(_)) => Ok(self.koto.exports().get("ff").expect("ff")),
            Ok(Err(e)) => Err(format!("ERR:{}", e)),
            Err(p) => Err(format!("PANIC:{}", p)),
        };
        self.fmt_cache.insert(opts.to_string(), r.clone());
        r
    }
}

fn canon(v: &KValue, invalid: &mut Vec<Vec<u8>>) -> String {
    match v {
        KValue::Null => "null".into(),
        KValue::Bool(b) => if *b { "b1".into() } else { "b0".into() },
        KValue::Number(KNumber::I64(i)) => format!("i{}", i),
        KValue::Number(KNumber::F64(_)) => "F".into(),
        KValue::Str(s) => {
            let b = s.as_str().as_bytes();
            if std::str::from_utf8(b).is_err() {
                invalid.push(b.to_vec());
            }
            format!("s{}", hex(b))
        }
        KValue::Range(r) => match (r.start(), r.end()) {
            (Some(a), Some((b, false))) => format!("(r {} {} 0)", a, b),
            _ => "(r ?)".into(),
        },
        KValue::Tuple(t) => {
            let mut o = String::from("(t");
            for x in t.iter() {
                o.push(' ');
                o.push_str(&canon(x, invalid));
            }
            o.push(')');
            o
        }
        KValue::List(l) => {
            let mut o = String::from("(t");
            for x in l.data().iter() {
                o.push(' ');
                o.push_str(&canon(x, invalid));
            }
            o.push(')');
            o
        }
        other => format!("<{}>", other.type_as_string()),
    }
}

/// `(0, v)` → canonical v, `(1, msg)` → error class
fn unwrap_res(v: &KValue, invalid: &mut Vec<Vec<u8>>) -> String {
    if let KValue::Tuple(t) = v {
        if t.len() == 2 {
            if let (KValue::Number(n), x) = (&t[0], &t[1]) {
                if i64::from(n) == 0 {
                    return canon(x, invalid);
                } else if let KValue::Str(m) = x {
                    return classify_err(m.as_str());
                }
            }
        }
    }
    format!("<unwrapped:{}>", canon(v, invalid))
}

fn items(v: &KValue) -> Vec<KValue> {
    match v {
        KValue::Tuple(t) => t.iter().cloned().collect(),
        KValue::List(l) => l.data().iter().cloned().collect(),
        _ => vec![],
    }
}

fn str_bytes(v: &KValue) -> Option<Vec<u8>> {
    match v {
        KValue::Str(s) => Some(s.as_str().as_bytes().to_vec()),
        _ => None,
    }
}

fn fail_line(e: &str) -> String {
    if let Some(p) = e.strip_prefix("PANIC:") {
        let _ = p;
        "PANIC".into()
    } else {
        classify_err(e)
    }
}

/// `KRange::indices` recomputed independently (clamping) — the (D) oracle for range indexing
fn oracle_range(kind: usize, a: i64, b: i64, len: usize) -> (usize, usize) {
    let len = len as i64;
    let (st, en) = match kind {
        0 => (a, b),
        1 => (a, b + 1),
        2 => (a, i64::MAX),
        3 => (i64::MIN, b),
        _ => (i64::MIN, b + 1),
    };
    let en = en.max(st);
    let s = st.clamp(0, len);
    let e = en.clamp(s, len);
    (s as usize, e as usize)
}

#[derive(Clone, Debug, PartialEq)]
enum Expect {
    Text(String),
    Error,
    Unknown,
}

fn atom_is_number(a: &str) -> bool {
    a.starts_with('i') || (a.starts_with('f') && a.contains('/'))
}

fn atom_f64(a: &str) -> Option<f64> {
    if a.starts_with('f') && a.contains('/') {
        Some(f64::from_bits(u64::from_str_radix(&a[1..17], 16).ok()?))
    } else {
        None
    }
}

fn f64_is_i64(v: f64) -> bool {
    v.is_finite() && v.fract() == 0.0 && v >= -9223372036854775808.0 && v < 9223372036854775808.0
}

fn int_in_f64_range(n: i64) -> bool {
    (n as f64 as i64) == n
}

/// display text of a float as KNumber prints it
fn float_display(v: f64) -> String {
    if v.fract() == 0.0 { format!("{v:.1}") } else { format!("{v}") }
}

fn simple_text(e: &str, dbg: bool) -> String {
    if e == "null" {
        "null".into()
    } else if e == "b0" {
        "false".into()
    } else if e == "b1" {
        "true".into()
    } else if let Some(i) = e.strip_prefix('i') {
        i.to_string()
    } else if let Some(h) = e.strip_prefix('s') {
        format!("'{}'", String::from_utf8(unhex(h).unwrap()).unwrap())
    } else if let Some(o) = e.strip_prefix('o') {
        let (d, g) = o.split_once(';').unwrap();
        String::from_utf8(unhex(if dbg { g } else { d }).unwrap()).unwrap()
    } else {
        panic!("bad element {}", e)
    }
}

/// Display / Debug text of a non-number value atom (the language's rules, written down independently)
fn xval_text(a: &str, dbg: bool) -> String {
    let list = |s: &str| -> Vec<String> { s.split(',').filter(|x| !x.is_empty()).map(|x| x.to_string()).collect() };
    if let Some(r) = a.strip_prefix("T[") {
        format!("({})", list(&r[..r.len() - 1]).iter().map(|e| simple_text(e, dbg)).collect::<Vec<_>>().join(", "))
    } else if let Some(r) = a.strip_prefix("L[") {
        format!("[{}]", list(&r[..r.len() - 1]).iter().map(|e| simple_text(e, dbg)).collect::<Vec<_>>().join(", "))
    } else if let Some(r) = a.strip_prefix("M[") {
        let es: Vec<String> = list(&r[..r.len() - 1])
            .iter()
            .map(|kv| {
                let (k, e) = kv.split_once('=').unwrap();
                format!("{}: {}", String::from_utf8(unhex(k).unwrap()).unwrap(), simple_text(e, dbg))
            })
            .collect();
        format!("{{{}}}", es.join(", "))
    } else if let Some(r) = a.strip_prefix("O[") {
        let (d, g) = r[..r.len() - 1].split_once(',').unwrap();
        String::from_utf8(unhex(if dbg { g } else { d }).unwrap()).unwrap()
    } else if let Some(h) = a.strip_prefix('s') {
        let s = String::from_utf8(unhex(h).unwrap()).unwrap();
        if dbg { format!("'{}'", s) } else { s }
    } else {
        simple_text(a, dbg)
    }
}

/// what the value rendered with precision + representation (no width) must be
fn expected_rendered(a: &str, fo: &StringFormatOptions) -> Expect {
    use koto_parser::StringFormatRepresentation::*;
    let p = fo.precision.map(|p| p as usize);
    if let Some(v) = atom_f64(a) {
        return match fo.representation {
            None | Some(Debug) => Expect::Text(match p {
                Some(p) => format!("{v:.p$}"),
                None => float_display(v),
            }),
            Some(ExpLower) => Expect::Text(match p {
                Some(p) => format!("{v:.p$e}"),
                None => format!("{v:e}"),
            }),
            Some(ExpUpper) => Expect::Text(match p {
                Some(p) => format!("{v:.p$E}"),
                None => format!("{v:E}"),
            }),
            Some(r) => {
                if f64_is_i64(v) {
                    let i = v as i64;
                    Expect::Text(match r {
                        HexLower => format!("{i:x}"),
                        HexUpper => format!("{i:X}"),
                        Binary => format!("{i:b}"),
                        _ => format!("{i:o}"),
                    })
                } else {
                    Expect::Error
                }
            }
        };
    }
    if let Some(i) = a.strip_prefix('i') {
        let n: i64 = i.parse().unwrap();
        let via_f64 = int_in_f64_range(n);
        return Expect::Text(match (fo.representation, p) {
            (None | Some(Debug), Some(p)) if via_f64 => format!("{:.p$}", n as f64),
            (None | Some(Debug), _) => n.to_string(),
            (Some(ExpLower), Some(p)) if via_f64 => format!("{:.p$e}", n as f64),
            (Some(ExpUpper), Some(p)) if via_f64 => format!("{:.p$E}", n as f64),
            (Some(ExpLower), _) => format!("{n:e}"),
            (Some(ExpUpper), _) => format!("{n:E}"),
            (Some(HexLower), _) => format!("{n:x}"),
            (Some(HexUpper), _) => format!("{n:X}"),
            (Some(Binary), _) => format!("{n:b}"),
            (Some(Octal), _) => format!("{n:o}"),
        });
    }
    // every other kind: Display (Debug for `?`), cut to `precision` grapheme clusters
    let text = xval_text(a, fo.representation == Some(Debug));
    Expect::Text(match p {
        Some(p) => text.graphemes(true).take(p).collect::<String>(),
        None => text,
    })
}

fn radix_of_truncated(a: &str, fo: &StringFormatOptions) -> Option<String> {
    use koto_parser::StringFormatRepresentation::*;
    let i = atom_f64(a)? as i64;
    Some(match fo.representation? {
        HexLower => format!("{i:x}"),
        HexUpper => format!("{i:X}"),
        Binary => format!("{i:b}"),
        Octal => format!("{i:o}"),
        _ => return None,
    })
}

fn float_atom(v: f64) -> String {
    let (digits, exp) = if v.is_finite() {
        let s = format!("{:e}", v.abs());
        let (m, e) = s.split_once('e').unwrap();
        (m.replace('.', ""), e.parse::<i64>().unwrap())
    } else {
        (String::new(), 0)
    };
    format!("f{:016x}/{}/{}", v.to_bits(), hex(digits.as_bytes()), exp)
}

struct Ctx {
    rt: Rt,
    rep: Report,
    drv: Option<Driver>,
    pending: Vec<String>,
    open: Vec<String>,
    known_counts: BTreeMap<String, u64>,
    k_fail: u64,
    d_fail: u64,
    facts_line: String,
    samples_by_op: BTreeMap<String, u32>,
    seg_inconsistent: u64,
    cur_atom: String,
    t_phase: std::time::Instant,
    t_exec: f64,
    t_model: f64,
}

/// per-element (D) check for a byte cut `[a, b)` of `s`: the implementation must return exactly that
/// sub-string when both ends are character boundaries and must not return a string otherwise.
fn check_cut(out: &mut Out, d: &Desc, what: &str, a: usize, b: usize, got: &str, allow_null: bool) {
    let s = d.s();
    let expect = if a <= b { s.get(a..b) } else { None };
    match expect {
        Some(x) => {
            let want = format!("s{}", hex(x.as_bytes()));
            if got != want {
                out.d_fail.push((format!("{}:wrong-slice", what), format!("[{},{}) expected {} got {}", a, b, want, got)));
            }
        }
        None => {
            if allow_null && got == "null" {
                // the unpacking instructions turn the refused cut into null instead of raising the error
                out.attributed.push(("F-C15-9".into(), format!("{} [{},{}) cuts a character: null instead of an error", what, a, b)));
                return;
            }
            let is_err = got == "E:utf8";
            if !is_err {
                let raw = if a <= b && b <= s.len() { Some(format!("s{}", hex(&s.as_bytes()[a..b]))) } else { None };
                if d.is_full() && raw.as_deref() == Some(got) {
                    out.attributed.push(("F-C15-1".into(), format!("{} [{},{}) of a Full-form string returned the raw bytes {}", what, a, b, got)));
                } else {
                    out.d_fail.push((format!("{}:cut-accepted", what), format!("[{},{}) cuts a character; expected an error, got {}", a, b, got)));
                }
            }
        }
    }
}

impl Ctx {
    fn exec(&mut self, req: &str) -> Out {
        let mut out = Out::default();
        let toks: Vec<&str> = req.split(' ').take_while(|t| !t.starts_with('(')).collect();
        let op = toks[0];
        let line = match op {
            "idx" | "rng" | "unpx" | "unph" | "unpt" | "chars" | "rchars" | "cidx" | "bytes" | "lines" | "trim"
            | "trimp" | "pat" | "replace" | "repeat" | "case" => {
                let d = Desc::parse(toks[1]).expect("desc");
                out.nontrivial = d.s().chars().count() >= 2;
                match self.rt.mk(&d) {
                    Err(e) => {
                        out.panic = Some(format!("building the input string failed: {}", e));
                        "PANIC".to_string()
                    }
                    Ok(sv) => {
                        // the runtime's view of the input must be the input
                        if str_bytes(&sv).as_deref() != Some(d.s().as_bytes()) {
                            out.d_fail.push(("input-form".into(), format!("constructed string differs: {:?}", str_bytes(&sv))));
                        }
                        self.exec_str_op(op, &toks, &d, sv, &mut out)
                    }
                }
            }
            "apiwb" => {
                // the public Rust API: KString::from(buffer).with_bounds(pre..pre+len) re-sliced with every a..b
                let d = Desc::parse(toks[1]).expect("desc");
                let hi: usize = toks[2].parse().unwrap();
                out.nontrivial = d.s().chars().count() >= 1;
                if let Desc::Slice { pre, s, post } = &d {
                    let buf = format!("{}{}{}", "x".repeat(*pre), s, post);
                    let base = KString::from(buf.as_str()).with_bounds(*pre..*pre + s.len());
                    match base {
                        None => "E:base".to_string(),
                        Some(base) => {
                            let mut rs = vec![];
                            for a in 0..=hi {
                                for b in 0..=hi {
                                    let r = kvh::catch(|| base.with_bounds(a..b));
                                    match r {
                                        Err(p) => {
                                            out.panic = Some(format!("with_bounds({}..{}): {}", a, b, p));
                                            rs.push("PANIC".to_string());
                                        }
                                        Ok(None) => {
                                            if a <= b && s.get(a..b).is_some() {
                                                out.d_fail.push(("api:with_bounds-refused".into(), format!("{}..{} is a sub-string but was refused", a, b)));
                                            }
                                            rs.push("none".into());
                                        }
                                        Ok(Some(t)) => {
                                            let bytes = t.as_str().as_bytes().to_vec();
                                            if std::str::from_utf8(&bytes).is_err() {
                                                out.invalid.push(bytes.clone());
                                            }
                                            let want = if a <= b { s.get(a..b) } else { None };
                                            if want.map(|w| w.as_bytes()) != Some(bytes.as_slice()) {
                                                if b > s.len() && a <= b && buf.get(*pre + a..*pre + b).map(|w| w.as_bytes()) == Some(bytes.as_slice()) {
                                                    out.attributed.push(("F-C15-10".into(), format!("with_bounds({}..{}) beyond the string's own end ({}) returned bytes of the shared buffer", a, b, s.len())));
                                                } else {
                                                    out.d_fail.push(("api:with_bounds".into(), format!("{}..{} returned {}", a, b, hex(&bytes))));
                                                }
                                            }
                                            rs.push(format!("s{}", hex(&bytes)));
                                        }
                                    }
                                }
                            }
                            rs.join(" ")
                        }
                    }
                } else {
                    "SKIP".to_string()
                }
            }
            "apisp" => {
                // the public Rust API: StringSlice::<usize>::from(buffer).with_bounds(pre..pre+len).split(off)
                let d = Desc::parse(toks[1]).expect("desc");
                let hi: usize = toks[2].parse().unwrap();
                out.nontrivial = d.s().chars().count() >= 1;
                if let Desc::Slice { pre, s, post } = &d {
                    let buf = format!("{}{}{}", "x".repeat(*pre), s, post);
                    match koto_parser::StringSlice::<usize>::from(buf.as_str()).with_bounds(*pre..*pre + s.len()) {
                        None => "E:base".to_string(),
                        Some(base) => {
                            let mut rs = vec![];
                            for off in 0..=hi {
                                match kvh::catch(|| base.split(off)) {
                                    Err(p) => {
                                        out.panic = Some(format!("split({}): {}", off, p));
                                        rs.push("PANIC".to_string());
                                    }
                                    Ok(None) => {
                                        if off <= s.len() && s.is_char_boundary(off) {
                                            out.d_fail.push(("api:split-refused".into(), format!("offset {} is a boundary inside the slice", off)));
                                        }
                                        rs.push("none".into());
                                    }
                                    Ok(Some((p, r))) => {
                                        if off <= s.len() {
                                            let (pb, rb) = (p.as_str().as_bytes(), r.as_str().as_bytes());
                                            if !s.is_char_boundary(off) || pb != s[..off].as_bytes() || rb != s[off..].as_bytes() {
                                                out.d_fail.push(("api:split".into(), format!("offset {}: ({}, {})", off, hex(pb), hex(rb))));
                                            }
                                            rs.push(format!("({} {})", hex(pb), hex(rb)));
                                        } else {
                                            // beyond the slice's own end: only the first half can be looked at
                                            // (the second has start > end; as_str on it is undefined behaviour)
                                            let pb = p.as_str().as_bytes();
                                            if buf.as_bytes().get(*pre..*pre + off) == Some(pb) {
                                                out.attributed.push(("F-C15-12".into(), format!("split({}) beyond the slice's own end ({}) succeeded; the first half reads {} bytes of the shared buffer", off, s.len(), off)));
                                            } else {
                                                out.d_fail.push(("api:split".into(), format!("offset {} beyond the end returned {}", off, hex(pb))));
                                            }
                                            rs.push(format!("({} !)", hex(pb)));
                                        }
                                    }
                                }
                            }
                            rs.join(" ")
                        }
                    }
                } else {
                    "SKIP".to_string()
                }
            }
            "fmtf" => {
                // old corpus syntax: `fmtf <xopts> f<bits>` — now an ordinary fmt case with a float value
                let opts = String::from_utf8(unhex(toks[1]).unwrap()).unwrap();
                out.nontrivial = !opts.is_empty();
                let bits = u64::from_str_radix(toks[2].trim_start_matches('f'), 16).unwrap();
                let atom = float_atom(f64::from_bits(bits));
                self.exec_fmt(&opts, &atom, &mut out)
            }
            "tonum" | "tonumb" => {
                let s = String::from_utf8(unhex(toks[1]).unwrap()).unwrap();
                out.nontrivial = s.len() >= 2;
                let sv = Rt::kstr(&s);
                if op == "tonum" {
                    match self.rt.call("tonum", &[sv]) {
                        Ok(v) => {
                            let l = canon(&v, &mut out.invalid);
                            // (D): integer forms parse exactly
                            let expect = {
                                let mi = if let Some(h) = s.strip_prefix("0x") {
                                    i64::from_str_radix(h, 16)
                                } else if let Some(o) = s.strip_prefix("0o") {
                                    i64::from_str_radix(o, 8)
                                } else if let Some(b) = s.strip_prefix("0b") {
                                    i64::from_str_radix(b, 2)
                                } else {
                                    s.parse::<i64>()
                                };
                                match mi {
                                    Ok(i) => format!("i{}", i),
                                    Err(_) => if s.parse::<f64>().is_ok() { "F".into() } else { "null".into() },
                                }
                            };
                            if l != expect {
                                out.d_fail.push(("to_number".into(), format!("expected {} got {}", expect, l)));
                            }
                            l
                        }
                        Err(e) => {
                            if e.starts_with("PANIC") {
                                out.panic = Some(e.clone());
                            }
                            fail_line(&e)
                        }
                    }
                } else {
                    let base: i64 = toks[2].parse().unwrap();
                    match self.rt.call("tonumb", &[sv, base.into()]) {
                        Ok(v) => {
                            let l = unwrap_res(&v, &mut out.invalid);
                            let expect = if !(2..=36).contains(&base) {
                                "E:base".to_string()
                            } else {
                                match i64::from_str_radix(&s, base as u32) {
                                    Ok(i) => format!("i{}", i),
                                    Err(_) => "null".into(),
                                }
                            };
                            if l != expect {
                                out.d_fail.push(("to_number_base".into(), format!("expected {} got {}", expect, l)));
                            }
                            l
                        }
                        Err(e) => {
                            if e.starts_with("PANIC") {
                                out.panic = Some(e.clone());
                            }
                            fail_line(&e)
                        }
                    }
                }
            }
            "lit" => {
                let body = String::from_utf8(unhex(toks[1]).unwrap()).unwrap();
                out.nontrivial = body.contains('\\');
                self.exec_lit(&body, &mut out)
            }
            "fparse" => {
                let opts = String::from_utf8(unhex(toks[1]).unwrap()).unwrap();
                out.nontrivial = opts.chars().count() >= 2;
                self.exec_fparse(&opts, &mut out)
            }
            "fmt" => {
                let opts = String::from_utf8(unhex(toks[1]).unwrap()).unwrap();
                out.nontrivial = !opts.is_empty();
                self.exec_fmt(&opts, toks[2], &mut out)
            }
            _ => panic!("unknown op in request {:?}", req),
        };
        out.line = line;
        out
    }

    fn exec_str_op(&mut self, op: &str, toks: &[&str], d: &Desc, sv: KValue, out: &mut Out) -> String {
        let s = d.s().to_string();
        let call = |rt: &mut Rt, name: &str, args: &[KValue], out: &mut Out| -> Result<KValue, String> {
            let r = rt.call(name, args);
            if let Err(e) = &r {
                if e.starts_with("PANIC") {
                    out.panic = Some(format!("{}: {}", name, e));
                }
            }
            r
        };
        match op {
            "idx" => {
                let (lo, hi): (i64, i64) = (toks[2].parse().unwrap(), toks[3].parse().unwrap());
                match call(&mut self.rt, "idx", &[sv, lo.into(), hi.into()], out) {
                    Err(e) => fail_line(&e),
                    Ok(v) => {
                        let rs: Vec<String> = items(&v).iter().map(|x| unwrap_res(x, &mut out.invalid)).collect();
                        for (k, i) in (lo..=hi).enumerate() {
                            let got = rs.get(k).map(|x| x.as_str()).unwrap_or("<missing>");
                            if i < 0 {
                                if got != "E:neg" {
                                    out.d_fail.push(("index:negative".into(), format!("s[{}] gave {}", i, got)));
                                }
                            } else if i as usize >= s.len() {
                                if got != "E:index" {
                                    out.d_fail.push(("index:out-of-bounds".into(), format!("s[{}] gave {}", i, got)));
                                }
                            } else {
                                check_cut(out, d, "index", i as usize, i as usize + 1, got, false);
                            }
                        }
                        rs.join(" ")
                    }
                }
            }
            "rng" => {
                let (lo, hi): (i64, i64) = (toks[2].parse().unwrap(), toks[3].parse().unwrap());
                match call(&mut self.rt, "rng", &[sv, lo.into(), hi.into()], out) {
                    Err(e) => fail_line(&e),
                    Ok(v) => {
                        let rs: Vec<String> = items(&v).iter().map(|x| unwrap_res(x, &mut out.invalid)).collect();
                        let mut k = 0;
                        for kind in 0..5 {
                            let two = kind < 2;
                            for a in lo..=hi {
                                let bs: Vec<i64> = if two { (lo..=hi).collect() } else { vec![a] };
                                for b in bs {
                                    let (x, y) = oracle_range(kind, a, b, s.len());
                                    let got = rs.get(k).map(|x| x.as_str()).unwrap_or("<missing>");
                                    check_cut(out, d, "range", x, y, got, false);
                                    k += 1;
                                }
                            }
                        }
                        if k != rs.len() {
                            out.d_fail.push(("range:count".into(), format!("{} results for {} requests", rs.len(), k)));
                        }
                        rs.join(" ")
                    }
                }
            }
            "unpx" | "unph" | "unpt" => {
                let n = s.len();
                let (name, k) = match op {
                    "unpx" => (format!("unx{}", n), n),
                    "unph" => (format!("unh{}", toks[2]), toks[2].parse::<usize>().unwrap()),
                    _ => (format!("unt{}", toks[2]), toks[2].parse::<usize>().unwrap()),
                };
                match call(&mut self.rt, &name, &[sv], out) {
                    Err(e) => fail_line(&e),
                    Ok(v) => {
                        let l = unwrap_res(&v, &mut out.invalid);
                        // (D) element-wise
                        let inner = items(&v);
                        if inner.len() == 2 && l.starts_with("(t") {
                            let es: Vec<String> = items(&inner[1]).iter().map(|x| canon(x, &mut vec![])).collect();
                            match op {
                                "unpx" => {
                                    for (i, e) in es.iter().enumerate() {
                                        check_cut(out, d, "unpack", i, i + 1, e, true);
                                    }
                                }
                                "unph" => {
                                    for (i, e) in es.iter().enumerate() {
                                        if i < k {
                                            check_cut(out, d, "unpack", i, i + 1, e, true);
                                        } else {
                                            check_cut(out, d, "unpack-rest", k, n, e, true);
                                        }
                                    }
                                }
                                _ => {
                                    for (i, e) in es.iter().enumerate() {
                                        if i == 0 {
                                            check_cut(out, d, "unpack-first", 0, n - k, e, true);
                                        } else {
                                            check_cut(out, d, "unpack", n - k + i - 1, n - k + i, e, true);
                                        }
                                    }
                                }
                            }
                        } else if l == "E:utf8" {
                            // (repaired code) the whole call fails: right iff some requested cut is not a sub-string
                            let cuts: Vec<(usize, usize)> = match op {
                                "unpx" => (0..n).map(|i| (i, i + 1)).collect(),
                                "unph" => (0..k.min(n)).map(|i| (i, i + 1)).chain(std::iter::once((k.min(n), n))).collect(),
                                _ => std::iter::once((0, n.saturating_sub(k))).chain((n.saturating_sub(k)..n).map(|i| (i, i + 1))).collect(),
                            };
                            if cuts.iter().all(|(a, b)| s.get(*a..*b).is_some()) {
                                out.d_fail.push(("unpack:error".into(), "UTF-8 error although every requested cut is a sub-string".into()));
                            }
                        } else if l == "E:size" {
                            let ok = match op {
                                "unpx" => false,
                                _ => n < k,
                            };
                            if !ok {
                                out.d_fail.push(("unpack:size".into(), format!("size error for length {} with {} ids", n, k)));
                            }
                        }
                        l
                    }
                }
            }
            "chars" | "rchars" => {
                match call(&mut self.rt, op, &[sv.clone()], out) {
                    Err(e) => fail_line(&e),
                    Ok(v) => {
                        let l = canon(&v, &mut out.invalid);
                        let pieces: Vec<Vec<u8>> = items(&v).iter().filter_map(str_bytes).collect();
                        let mut gs: Vec<Vec<u8>> = s.graphemes(true).map(|g| g.as_bytes().to_vec()).collect();
                        if op == "rchars" {
                            gs.reverse();
                        }
                        if pieces != gs {
                            out.d_fail.push((format!("{}:clusters", op), "pieces are not the grapheme clusters".into()));
                        }
                        let mut joined: Vec<Vec<u8>> = pieces.clone();
                        if op == "rchars" {
                            joined.reverse();
                        }
                        if joined.concat() != s.as_bytes() {
                            out.d_fail.push(("chars_join".into(), "joining chars() does not reproduce the string".into()));
                        }
                        if op == "chars" {
                            // default iteration is documented to be the same
                            if let Ok(v2) = call(&mut self.rt, "iter_default", &[sv], out) {
                                if canon(&v2, &mut out.invalid) != l {
                                    out.d_fail.push(("chars:default-iteration".into(), "for c in s differs from s.chars()".into()));
                                }
                            }
                        }
                        l
                    }
                }
            }
            "cidx" => match call(&mut self.rt, "cidx", &[sv], out) {
                Err(e) => fail_line(&e),
                Ok(v) => {
                    let l = canon(&v, &mut out.invalid);
                    let mut at = 0usize;
                    let mut ok = true;
                    let gs: Vec<&str> = s.graphemes(true).collect();
                    let its = items(&v);
                    if its.len() != gs.len() {
                        ok = false;
                    }
                    for (x, g) in its.iter().zip(gs.iter()) {
                        if let KValue::Range(r) = x {
                            if r.start() != Some(at as i64) || r.end() != Some(((at + g.len()) as i64, false)) {
                                ok = false;
                            }
                        } else {
                            ok = false;
                        }
                        at += g.len();
                    }
                    if !ok || at != s.len() {
                        out.d_fail.push(("char_indices_cover".into(), "ranges do not tile the string by grapheme clusters".into()));
                    }
                    l
                }
            },
            "bytes" => match call(&mut self.rt, "bytes", &[sv.clone()], out) {
                Err(e) => fail_line(&e),
                Ok(v) => {
                    let l = canon(&v, &mut out.invalid);
                    let want = format!("(t{})", s.bytes().map(|b| format!(" i{}", b)).collect::<String>());
                    if l != want {
                        out.d_fail.push(("bytes_spec".into(), format!("expected {} got {}", want, l)));
                    }
                    if let Ok(KValue::Number(n)) = call(&mut self.rt, "size_of", &[sv], out) {
                        if i64::from(&n) != s.len() as i64 {
                            out.d_fail.push(("size".into(), format!("size {} for {} bytes", n, s.len())));
                        }
                    }
                    l
                }
            },
            "lines" => match call(&mut self.rt, "lines", &[sv], out) {
                Err(e) => fail_line(&e),
                Ok(v) => {
                    let l = canon(&v, &mut out.invalid);
                    let pieces: Vec<Vec<u8>> = items(&v).iter().filter_map(str_bytes).collect();
                    let want: Vec<Vec<u8>> = s.lines().map(|x| x.as_bytes().to_vec()).collect();
                    if pieces != want {
                        out.d_fail.push(("lines_spec".into(), format!("std lines gives {:?}", s.lines().collect::<Vec<_>>())));
                    }
                    if pieces.iter().any(|p| p.contains(&b'\n')) {
                        out.d_fail.push(("lines_spec:newline".into(), "a line contains a line feed".into()));
                    }
                    l
                }
            },
            "trim" | "trimp" => {
                let pat = if op == "trimp" { Some(String::from_utf8(unhex(toks[2]).unwrap()).unwrap()) } else { None };
                let args: Vec<KValue> = match &pat {
                    Some(p) => vec![sv, Rt::kstr(p)],
                    None => vec![sv],
                };
                match call(&mut self.rt, op, &args, out) {
                    Err(e) => fail_line(&e),
                    Ok(v) => {
                        let rs: Vec<String> = items(&v).iter().map(|x| canon(x, &mut out.invalid)).collect();
                        let want: Vec<&str> = match &pat {
                            None => vec![s.trim(), s.trim_start(), s.trim_end()],
                            Some(p) => vec![
                                s.trim_start_matches(p.as_str()).trim_end_matches(p.as_str()),
                                s.trim_start_matches(p.as_str()),
                                s.trim_end_matches(p.as_str()),
                            ],
                        };
                        for (i, w) in want.iter().enumerate() {
                            let w = format!("s{}", hex(w.as_bytes()));
                            if rs.get(i) != Some(&w) {
                                out.d_fail.push(("trim_spec".into(), format!("variant {} expected {} got {:?}", i, w, rs.get(i))));
                            }
                        }
                        if pat.is_none() {
                            // law: what was removed is white space, what remains has none at the ends
                            if let Some(KValue::Str(t)) = items(&v).first() {
                                let t = t.as_str();
                                if let Some(pos) = s.find(t) {
                                    let (pre, post) = (&s[..pos], &s[pos + t.len()..]);
                                    let ok = pre.chars().all(char::is_whitespace)
                                        && post.chars().all(char::is_whitespace)
                                        && !t.chars().next().is_some_and(char::is_whitespace)
                                        && !t.chars().next_back().is_some_and(char::is_whitespace);
                                    if !ok && !t.is_empty() {
                                        out.d_fail.push(("trim_spec:law".into(), "trim removed non-white space or left white space".into()));
                                    }
                                }
                            }
                        }
                        rs.join(" ")
                    }
                }
            }
            "pat" => {
                let p = String::from_utf8(unhex(toks[2]).unwrap()).unwrap();
                let pv = Rt::kstr(&p);
                let mut rs = vec![];
                // split
                match call(&mut self.rt, "split", &[sv.clone(), pv.clone()], out) {
                    Err(e) => rs.push(fail_line(&e)),
                    Ok(v) => {
                        rs.push(canon(&v, &mut out.invalid));
                        let pieces: Vec<Vec<u8>> = items(&v).iter().filter_map(str_bytes).collect();
                        let want: Vec<Vec<u8>> = s.split(p.as_str()).map(|x| x.as_bytes().to_vec()).collect();
                        if pieces != want {
                            out.d_fail.push(("split:pieces".into(), format!("std split gives {:?}", s.split(p.as_str()).collect::<Vec<_>>())));
                        }
                        if pieces.join(p.as_bytes()) != s.as_bytes() {
                            out.d_fail.push(("split_join".into(), "pieces re-joined with the pattern do not reproduce the string".into()));
                        }
                        // collected through take(len + 4): a legitimate split has at most chars + 2 pieces
                        if pieces.len() >= s.len() + 4 {
                            out.d_fail.push(("split:nontermination".into(), format!("{} pieces from a {}-byte string: the iterator does not end", pieces.len(), s.len())));
                        }
                    }
                }
                // split with predicate (cluster == p)
                match call(&mut self.rt, "splitw", &[sv.clone(), pv.clone()], out) {
                    Err(e) => rs.push(fail_line(&e)),
                    Ok(v) => {
                        rs.push(canon(&v, &mut out.invalid));
                        let pieces: Vec<Vec<u8>> = items(&v).iter().filter_map(str_bytes).collect();
                        let mut want: Vec<Vec<u8>> = vec![vec![]];
                        for g in s.graphemes(true) {
                            if g == p {
                                want.push(vec![]);
                            } else {
                                want.last_mut().unwrap().extend_from_slice(g.as_bytes());
                            }
                        }
                        // `want` = split at every cluster for which the predicate holds (a separator at the
                        // very end is followed by an empty piece, as for `split(pattern)`)
                        if pieces != want {
                            let mut short = want.clone();
                            if short.last().is_some_and(|x| x.is_empty()) {
                                short.pop();
                            }
                            if pieces == short {
                                out.attributed.push((
                                    "F-C15-6".into(),
                                    format!("split with a predicate dropped the empty piece after the last separator: {} pieces, expected {}", pieces.len(), want.len()),
                                ));
                            } else {
                                out.d_fail.push(("split_with:pieces".into(), format!("expected {:?}", want)));
                            }
                        }
                        if pieces.len() >= s.len() + 4 {
                            out.d_fail.push(("split_with:nontermination".into(), format!("{} pieces from a {}-byte string", pieces.len(), s.len())));
                        }
                    }
                }
                for (name, want) in [
                    ("stripp", s.strip_prefix(p.as_str()).map(|x| x.to_string())),
                    ("strips", s.strip_suffix(p.as_str()).map(|x| x.to_string())),
                ] {
                    match call(&mut self.rt, name, &[sv.clone(), pv.clone()], out) {
                        Err(e) => rs.push(fail_line(&e)),
                        Ok(v) => {
                            let l = canon(&v, &mut out.invalid);
                            let w = match &want {
                                Some(x) => format!("s{}", hex(x.as_bytes())),
                                None => "null".into(),
                            };
                            if l != w {
                                out.d_fail.push((format!("{}:spec", name), format!("expected {} got {}", w, l)));
                            }
                            rs.push(l);
                        }
                    }
                }
                for (name, want) in [
                    ("contains", s.contains(p.as_str())),
                    ("starts", s.starts_with(p.as_str())),
                    ("ends", s.ends_with(p.as_str())),
                ] {
                    match call(&mut self.rt, name, &[sv.clone(), pv.clone()], out) {
                        Err(e) => rs.push(fail_line(&e)),
                        Ok(v) => {
                            let l = canon(&v, &mut out.invalid);
                            if l != if want { "b1" } else { "b0" } {
                                out.d_fail.push((format!("{}:spec", name), format!("expected {} got {}", want, l)));
                            }
                            rs.push(l);
                        }
                    }
                }
                rs.join(" ")
            }
            "replace" => {
                let p = String::from_utf8(unhex(toks[2]).unwrap()).unwrap();
                let t = String::from_utf8(unhex(toks[3]).unwrap()).unwrap();
                match call(&mut self.rt, "replace", &[sv, Rt::kstr(&p), Rt::kstr(&t)], out) {
                    Err(e) => fail_line(&e),
                    Ok(v) => {
                        let l = canon(&v, &mut out.invalid);
                        let w = format!("s{}", hex(s.replace(p.as_str(), &t).as_bytes()));
                        if l != w {
                            out.d_fail.push(("replace:spec".into(), format!("expected {} got {}", w, l)));
                        }
                        l
                    }
                }
            }
            "repeat" => {
                let n: i64 = toks[2].parse().unwrap();
                // sizes above isize::MAX cannot be a String at all: a runtime error is expected; sizes that
                // merely cannot be allocated are never generated (allocation failure is out of scope)
                let too_large = n >= 0 && (s.len() as u128) * (n as u128) > isize::MAX as u128;
                assert!(n < 0 || too_large || s.is_empty() || (s.len() as u128) * (n as u128) < (1 << 24), "repeat request too big to run");
                let r = self.rt.call("repeat", &[sv, n.into()]);
                match r {
                    Err(e) => {
                        if e.starts_with("PANIC") {
                            if too_large && e.contains("capacity overflow") {
                                out.attributed.push(("F-C15-11".into(), format!("repeat {} x {} bytes: panic `capacity overflow` instead of a runtime error", n, s.len())));
                                "PANIC:capacity overflow".to_string()
                            } else {
                                out.panic = Some(format!("repeat: {}", e));
                                "PANIC".to_string()
                            }
                        } else {
                            fail_line(&e)
                        }
                    }
                    Ok(v) => {
                        let l = unwrap_res(&v, &mut out.invalid);
                        let w = if n < 0 {
                            "E:negative".to_string()
                        } else if s.is_empty() {
                            "sx".to_string()
                        } else if too_large {
                            "E:toolarge".to_string()
                        } else {
                            format!("s{}", hex(s.repeat(n as usize).as_bytes()))
                        };
                        if l != w {
                            out.d_fail.push(("repeat:spec".into(), format!("expected {} got {}", w, l)));
                        }
                        l
                    }
                }
            }
            "case" => {
                let mut rs = vec![];
                for (name, want) in [
                    ("lower", s.chars().flat_map(|c| c.to_lowercase()).collect::<String>()),
                    ("upper", s.chars().flat_map(|c| c.to_uppercase()).collect::<String>()),
                ] {
                    match call(&mut self.rt, name, &[sv.clone()], out) {
                        Err(e) => rs.push(fail_line(&e)),
                        Ok(v) => {
                            let l = canon(&v, &mut out.invalid);
                            let w = format!("s{}", hex(want.as_bytes()));
                            if l != w {
                                out.d_fail.push((format!("{}:spec", name), format!("expected {} got {}", w, l)));
                            }
                            rs.push(l);
                        }
                    }
                }
                rs.join(" ")
            }
            _ => unreachable!(),
        }
    }

    /// literal `'<body>'` through the real lexer + parser. Outside the envelope (the body does not lex
    /// as one plain literal token) the answer is `SKIP` and the case is not compared.
    fn exec_lit(&mut self, body: &str, out: &mut Out) -> String {
        let src = format!("'{}'", body);
        let lexed = kvh::catch(|| {
            // the lexer keeps yielding after an Error token: stop there
            let mut v = vec![];
            for t in Lexer::new(&src) {
                let stop = t.token == Token::Error || v.len() > src.len() + 4;
                v.push(t.token);
                if stop {
                    break;
                }
            }
            v
        });
        let toks: Vec<Token> = match lexed {
            Ok(t) => t,
            Err(p) => {
                out.panic = Some(format!("lexer: {}", p));
                return "PANIC".into();
            }
        };
        let in_env = match toks.as_slice() {
            [Token::StringStart(_), Token::StringEnd] => body.is_empty(),
            [Token::StringStart(_), Token::StringLiteral, Token::StringEnd] => true,
            _ => false,
        };
        if !in_env {
            return "SKIP".into();
        }
        match kvh::catch(|| Parser::parse(&src)) {
            Err(p) => {
                // F-C15-3: `code *= 16` overflows for nine or more hex digits in \u{…}
                let long_u = {
                    let b = body.as_bytes();
                    let mut hit = false;
                    let mut i = 0;
                    while i + 2 < b.len() {
                        if b[i] == b'\\' && b[i + 1] == b'u' && b[i + 2] == b'{' {
                            let n = b[i + 3..].iter().take_while(|c| c.is_ascii_hexdigit()).count();
                            if n >= 9 {
                                hit = true;
                            }
                        }
                        i += 1;
                    }
                    hit
                };
                if long_u && p.contains("overflow") {
                    out.attributed.push(("F-C15-3".into(), format!("parser panic on a \\u{{…}} escape with nine or more hex digits: {}", p)));
                } else {
                    out.panic = Some(format!("parser: {}", p));
                }
                "PANIC:overflow".into()
            }
            Ok(Err(e)) => {
                let d = format!("{:?}", e.error);
                let name = d.trim_start_matches("SyntaxError(").trim_end_matches(')').to_string();
                format!("E:{}", name)
            }
            Ok(Ok(ast)) => {
                let mut found = None;
                for n in ast.nodes() {
                    if let Node::Str(st) = &n.node {
                        if let StringContents::Literal(c) = &st.contents {
                            found = Some(ast.constants().get_str(*c).to_string());
                        }
                    }
                }
                // (D) \u{…} takes one to six hex digits (language guide)
                {
                    let b = body.as_bytes();
                    let mut i = 0;
                    let mut esc = false;
                    while i < b.len() {
                        if esc {
                            esc = false;
                            if b[i] == b'u' && i + 1 < b.len() && b[i + 1] == b'{' {
                                let n = b[i + 2..].iter().take_while(|c| c.is_ascii_hexdigit()).count();
                                if b.get(i + 2 + n) == Some(&b'}') && (n == 0 || n > 6) {
                                    out.attributed.push(("F-C15-13".into(), format!("\\u{{…}} with {} hex digits is accepted", n)));
                                }
                            }
                        } else if b[i] == b'\\' {
                            esc = true;
                        }
                        i += 1;
                    }
                }
                match found {
                    Some(s) => {
                        if std::str::from_utf8(s.as_bytes()).is_err() {
                            out.invalid.push(s.as_bytes().to_vec());
                        }
                        format!("s{}", hex(s.as_bytes()))
                    }
                    None => "E:no-literal".into(),
                }
            }
        }
    }

    fn real_parse_opts(opts: &str) -> Result<Result<(StringFormatOptions, Option<String>), String>, String> {
        let src = format!("'{{x:{}}}'", opts);
        match kvh::catch(|| Parser::parse(&src)) {
            Err(p) => Err(p),
            Ok(Err(e)) => Ok(Err(format!("{:?}", e.error))),
            Ok(Ok(ast)) => {
                for n in ast.nodes() {
                    if let Node::Str(st) = &n.node {
                        if let StringContents::Interpolated(nodes) = &st.contents {
                            if let [StringNode::Expression { format, .. }] = nodes.as_slice() {
                                let fill = format.fill_character.map(|c| ast.constants().get_str(c).to_string());
                                return Ok(Ok((*format, fill)));
                            }
                        }
                    }
                }
                Ok(Err("SKIP".into()))
            }
        }
    }

    fn exec_fparse(&mut self, opts: &str, out: &mut Out) -> String {
        match Self::real_parse_opts(opts) {
            Err(p) => {
                out.panic = Some(format!("parser: {}", p));
                "PANIC".into()
            }
            Ok(Err(e)) => {
                if e.contains("FormatStringError") {
                    let kind = if e.contains("UnexpectedToken") {
                        "UnexpectedToken"
                    } else if e.contains("ExpectedNumber") {
                        "ExpectedNumber"
                    } else if e.contains("FormatNumberIsTooLarge") {
                        "FormatNumberIsTooLarge"
                    } else {
                        "Other"
                    };
                    // (D) a first grapheme cluster directly followed by an alignment character is a fill
                    // (language guide; the lexer delimits the options the same way)
                    let mut gs = opts.graphemes(true);
                    if let (Some(fill), Some("<" | "^" | ">")) = (gs.next(), gs.next()) {
                        let rest = &opts[fill.len() + 1..];
                        // the rest must be a width / precision / representation part on its own
                        let rest_ok = match Self::real_parse_opts(rest) {
                            Ok(Ok((f, fl))) => {
                                f.alignment == StringAlignment::Default
                                    && (fl.is_none() || (fl.as_deref() == Some("0") && rest.starts_with('0')))
                            }
                            _ => false,
                        };
                        if kind == "UnexpectedToken" && rest_ok {
                            if fill.chars().count() > 1 {
                                out.attributed.push(("F-C15-8".into(), format!("fill cluster {:?} followed by an alignment character is rejected", fill)));
                            } else {
                                out.d_fail.push(("fmtspec:fill-rejected".into(), format!("single-character fill {:?} + alignment rejected", fill)));
                            }
                        }
                    }
                    format!("E:fmt:{}", kind)
                } else {
                    "SKIP".into()
                }
            }
            Ok(Ok((f, fill))) => {
                let al = match f.alignment {
                    StringAlignment::Default => "D",
                    StringAlignment::Left => "L",
                    StringAlignment::Center => "C",
                    StringAlignment::Right => "R",
                };
                let o = |x: Option<u32>| x.map(|n| n.to_string()).unwrap_or("-".into());
                let fl = fill.as_ref().map(|s| hex(s.as_bytes())).unwrap_or("-".into());
                let rp = f.representation.map(|r| format!("{:?}", r)).unwrap_or("-".into());
                // (D): a fill is one grapheme cluster or one character
                if let Some(fs) = &fill {
                    if fs.graphemes(true).count() != 1 && fs.chars().count() != 1 {
                        out.d_fail.push(("fmtspec:fill".into(), format!("fill {:?} is neither one character nor one cluster", fs)));
                    }
                }
                format!("(o {} {} {} {} {})", al, o(f.min_width), o(f.precision), fl, rp)
            }
        }
    }

    fn simple_of(&mut self, v: &str) -> KValue {
        if v == "null" {
            KValue::Null
        } else if v == "b0" {
            false.into()
        } else if v == "b1" {
            true.into()
        } else if let Some(i) = v.strip_prefix('i') {
            i.parse::<i64>().unwrap().into()
        } else if let Some(h) = v.strip_prefix('s') {
            Rt::kstr(std::str::from_utf8(&unhex(h).unwrap()).unwrap())
        } else if let Some(o) = v.strip_prefix('o') {
            let (d, g) = o.split_once(';').expect("object element");
            self.obj_of(d, g)
        } else {
            panic!("bad value {}", v)
        }
    }

    /// a map with `@display` (and `@debug` when the two texts differ) that return the given texts
    fn obj_of(&mut self, d: &str, g: &str) -> KValue {
        let ds = String::from_utf8(unhex(d).unwrap()).unwrap();
        let gs = String::from_utf8(unhex(g).unwrap()).unwrap();
        let r = if ds == gs {
            self.rt.call("mkobj1", &[Rt::kstr(&ds)])
        } else {
            self.rt.call("mkobj2", &[Rt::kstr(&ds), Rt::kstr(&gs)])
        };
        r.expect("object value")
    }

    fn val_of(&mut self, v: &str) -> KValue {
        let list = |s: &str| -> Vec<String> { s.split(',').filter(|x| !x.is_empty()).map(|x| x.to_string()).collect() };
        if v.starts_with('f') && v.contains('/') {
            let bits = u64::from_str_radix(&v[1..17], 16).unwrap();
            f64::from_bits(bits).into()
        } else if let Some(r) = v.strip_prefix("T[") {
            let xs: Vec<KValue> = list(&r[..r.len() - 1]).iter().map(|e| self.simple_of(e)).collect();
            KValue::Tuple(KTuple::from(xs))
        } else if let Some(r) = v.strip_prefix("L[") {
            let xs: Vec<KValue> = list(&r[..r.len() - 1]).iter().map(|e| self.simple_of(e)).collect();
            KValue::List(KList::from_slice(&xs))
        } else if let Some(r) = v.strip_prefix("M[") {
            let m = KMap::new();
            for kv in list(&r[..r.len() - 1]) {
                let (k, e) = kv.split_once('=').expect("map entry");
                let key = String::from_utf8(unhex(k).unwrap()).unwrap();
                let val = self.simple_of(e);
                m.insert(key.as_str(), val);
            }
            KValue::Map(m)
        } else if let Some(r) = v.strip_prefix("O[") {
            let (d, g) = r[..r.len() - 1].split_once(',').expect("object");
            self.obj_of(d, g)
        } else {
            self.simple_of(v)
        }
    }

    fn exec_fmt(&mut self, opts: &str, v: &str, out: &mut Out) -> String {
        let f = match self.rt.fmt_fn(opts) {
            Ok(f) => f,
            Err(e) => {
                if e.starts_with("PANIC") {
                    out.panic = Some(e.clone());
                    return "PANIC".into();
                }
                let kind = if e.contains("unexpected token") {
                    "UnexpectedToken"
                } else if e.contains("expected a number") {
                    "ExpectedNumber"
                } else if e.contains("larger than the maximum") {
                    "FormatNumberIsTooLarge"
                } else {
                    return "SKIP".into();
                };
                return format!("E:fmt:{}", kind);
            }
        };
        let val = self.val_of(v);
        self.cur_atom = v.to_string();
        match self.rt.callv(f, &[val.clone()]) {
            Err(e) => {
                if e.starts_with("PANIC") {
                    out.panic = Some(e.clone());
                }
                let l = fail_line(&e);
                // (D) a runtime error is only right for a radix representation on a float that is not an i64
                let expect_err = match Self::real_parse_opts(opts) {
                    Ok(Ok((fo, _))) => matches!(expected_rendered(v, &fo), Expect::Error),
                    _ => false,
                };
                if !expect_err && !e.starts_with("PANIC") {
                    out.d_fail.push(("format:error".into(), format!("options {:?} value {}: unexpected error {}", opts, v, e)));
                }
                l
            }
            Ok(r) => {
                let l = canon(&r, &mut out.invalid);
                // (D) width / alignment, from the real parser's reading of the options
                if let (Ok(Ok((fo, fill))), Some(res)) = (Self::real_parse_opts(opts), str_bytes(&r)) {
                    if let Ok(res) = String::from_utf8(res) {
                        self.check_width(opts, &fo, fill.as_deref(), &val, &res, out);
                    }
                }
                l
            }
        }
    }

    /// (D) for formatting: the field is `fill^l ++ rendered ++ fill^r` with the counts the alignment
    /// demands, and has at least `min_width` grapheme clusters. `rendered` is obtained from the
    /// implementation itself with the width/fill/alignment removed from the options.
    fn check_width(&mut self, opts: &str, fo: &StringFormatOptions, fill: Option<&str>, val: &KValue, res: &str, out: &mut Out) {
        let min_width = fo.min_width.unwrap_or(0) as usize;
        let mut bare = String::new();
        if let Some(p) = fo.precision {
            bare.push_str(&format!(".{}", p));
        }
        if let Some(r) = fo.representation {
            use koto_parser::StringFormatRepresentation::*;
            bare.push(match r {
                Debug => '?',
                HexLower => 'x',
                HexUpper => 'X',
                Binary => 'b',
                Octal => 'o',
                ExpLower => 'e',
                ExpUpper => 'E',
            });
        }
        let rendered = match self.rt.fmt_fn(&bare).and_then(|f| self.rt.callv(f, &[val.clone()])) {
            Ok(KValue::Str(s)) => s.as_str().to_string(),
            _ => return,
        };
        // (D) the rendered value itself, from an oracle on Rust std that knows nothing of koto's dispatch
        {
            let atom = self.cur_atom.clone();
            match expected_rendered(&atom, fo) {
                Expect::Text(want) => {
                    if rendered != want {
                        let mut no_prec = *fo;
                        no_prec.precision = None;
                        let legacy = expected_rendered(&atom, &no_prec);
                        use koto_parser::StringFormatRepresentation::*;
                        let prec_and_repr = fo.precision.is_some() && matches!(fo.representation, Some(Debug | ExpLower | ExpUpper));
                        if prec_and_repr && atom_is_number(&atom) && legacy == Expect::Text(rendered.clone()) {
                            out.attributed.push(("F-C15-15".into(), format!("options {:?} value {}: {:?} — the precision is dropped, expected {:?}", opts, atom, rendered, want)));
                        } else {
                            out.d_fail.push(("format:rendered".into(), format!("options {:?} value {}: expected {:?} got {:?}", opts, atom, want, rendered)));
                        }
                    }
                }
                Expect::Error => {
                    // a radix representation on a float that is not an i64 value: the text of `value as i64`
                    let trunc = radix_of_truncated(&atom, fo);
                    if trunc.as_deref() == Some(rendered.as_str()) {
                        out.attributed.push(("F-C15-16".into(), format!("options {:?} value {}: {:?} is the truncated / saturated integer, not the value", opts, atom, rendered)));
                    } else {
                        out.d_fail.push(("format:rendered".into(), format!("options {:?} value {}: expected an error, got {:?}", opts, atom, rendered)));
                    }
                }
                Expect::Unknown => {}
            }
        }
        let glen = rendered.graphemes(true).count();
        let fill = fill.unwrap_or(" ");
        let missing = min_width.saturating_sub(glen);
        let is_num = matches!(val, KValue::Number(_));
        let (l, r) = match fo.alignment {
            StringAlignment::Default => if is_num { (missing, 0) } else { (0, missing) },
            StringAlignment::Left => (0, missing),
            StringAlignment::Right => (missing, 0),
            StringAlignment::Center => (missing / 2, missing - missing / 2),
        };
        let naive = format!("{}{}{}", fill.repeat(l), rendered, fill.repeat(r));
        // the `0` flag (fill "0" with Default alignment: only the flag produces that) pads a number after
        // its sign — the text must still be the number
        let zero_flag = is_num && fo.alignment == StringAlignment::Default && fill == "0" && rendered.starts_with('-') && missing > 0;
        let want = if zero_flag { format!("-{}{}", fill.repeat(l), &rendered[1..]) } else { naive.clone() };
        if zero_flag && res == naive {
            out.attributed.push(("F-C15-14".into(), format!("options {:?}: {:?} — the zeroes are in front of the sign", opts, res)));
        } else if res != want {
            out.d_fail.push(("align_spec".into(), format!("options {:?}: expected {:?} got {:?}", opts, want, res)));
            return;
        }
        let total = res.graphemes(true).count();
        if total < min_width {
            // the right number of fill clusters was added; clusters merged across the joints
            let parts = fill.graphemes(true).count() * (l + r) + glen;
            if parts >= min_width {
                out.attributed.push((
                    "F-C15-4".into(),
                    format!("options {:?}: field {:?} has {} clusters < {}; the pieces have {}", opts, res, total, min_width, parts),
                ));
            } else {
                out.d_fail.push(("width_at_least".into(), format!("options {:?}: field {:?} has {} clusters < {}", opts, res, total, min_width)));
            }
        }
    }

    // ---------------------------------------------------------------------------------------------

    fn phase(&mut self, name: &str) {
        self.flush();
        let msg = format!(
            "phase {}: {:.1}s (model driver {:.1}s, implementation+checks {:.1}s), cases so far {}",
            name,
            self.t_phase.elapsed().as_secs_f64(),
            self.t_model,
            self.t_exec,
            self.rep.evaluations
        );
        if std::env::var("C15_VERBOSE").is_ok() {
            eprintln!("{}", msg);
        }
        self.rep.note(msg);
        self.t_phase = std::time::Instant::now();
        self.t_model = 0.0;
        self.t_exec = 0.0;
    }

    fn push(&mut self, req: String) {
        self.pending.push(req);
        if self.pending.len() >= 4000 {
            self.flush();
        }
    }

    fn flush(&mut self) {
        let reqs = std::mem::take(&mut self.pending);
        if reqs.is_empty() {
            return;
        }
        let t0 = std::time::Instant::now();
        let resps: Vec<String> = match &mut self.drv {
            Some(d) => d.batch(&reqs),
            None => reqs.iter().map(|_| "NO-DRIVER".to_string()).collect(),
        };
        self.t_model += t0.elapsed().as_secs_f64();
        let t1 = std::time::Instant::now();
        for (req, model) in reqs.iter().zip(resps.iter()) {
            self.one(req, model);
        }
        self.t_exec += t1.elapsed().as_secs_f64();
    }

    fn one(&mut self, req: &str, model: &str) {
        let out = self.exec(req);
        let op = req.split(' ').next().unwrap().to_string();
        if out.line == "SKIP" {
            self.rep.bump(&format!("outside_envelope op={}", op));
            return;
        }
        self.rep.case(req, out.nontrivial);
        self.rep.bump(&format!("op={}", op));
        if let Some(d) = req.split(' ').nth(1) {
            if let Some(f) = d.split(':').next() {
                if ["F", "L", "S"].contains(&f) {
                    let f = if f == "S" && d.starts_with("S:65") { "S-large" } else { f };
                    self.rep.bump(&format!("form={}", f));
                }
            }
        }
        if out.line.contains("E:") {
            self.rep.bump("cases_with_error_result");
        }
        let n = self.samples_by_op.entry(op.clone()).or_insert(0);
        if *n < 1 && out.nontrivial && self.rep.evaluations % 7 == 3 {
            *n += 1;
            self.rep.max_samples = 24;
            let cut = |s: &str| if s.len() > 400 { format!("{}…", &s[..400]) } else { s.to_string() };
            self.rep.sample(json!({"request": cut(req), "impl": cut(&out.line), "model": cut(model)}));
        }
        let mut d_reported = false;
        for (id, detail) in &out.attributed {
            if self.open.iter().any(|x| x == id) {
                *self.known_counts.entry(id.clone()).or_insert(0) += 1;
            } else {
                // the finding is not (or no longer) listed as known: it is a violation
                self.d_fail += 1;
                d_reported = true;
                if self.d_fail <= 8 {
                    self.rep.violation("D", &format!("C15:{}", id), json!({"request": req, "impl": out.line, "detail": detail}));
                }
            }
        }
        if let Some(p) = &out.panic {
            self.d_fail += 1;
            d_reported = true;
            if self.d_fail <= 8 {
                self.rep.violation("D", "C15:no-panic", json!({"request": req, "panic": p, "impl": out.line}));
            }
        }
        // invalid UTF-8 not explained by an attributed cut
        if !out.invalid.is_empty() && out.attributed.iter().all(|(id, _)| id != "F-C15-1") {
            self.d_fail += 1;
            d_reported = true;
            if self.d_fail <= 8 {
                self.rep.violation(
                    "D",
                    "C15:utf8_closed",
                    json!({"request": req, "impl": out.line, "invalid_strings": out.invalid.iter().map(|b| hex(b)).collect::<Vec<_>>()}),
                );
            }
        }
        for (clause, detail) in &out.d_fail {
            self.d_fail += 1;
            d_reported = true;
            if self.d_fail <= 8 {
                self.rep.violation("D", &format!("C15:{}", clause), json!({"request": req, "impl": out.line, "model": model, "detail": detail}));
            }
        }
        if self.drv.is_some() && out.line != model {
            self.k_fail += 1;
            let spec_flag = model.contains("!spec");
            if self.k_fail <= 6 && (!d_reported || spec_flag) {
                let name = if spec_flag && model.split(" !spec").next() == Some(out.line.as_str()) {
                    "K:C15:refinement(code-level model vs byte-level definition)".to_string()
                } else {
                    format!("K:C15:Model.Str/{}", op)
                };
                self.rep.violation(
                    "K",
                    &name,
                    json!({"request": req, "impl": out.line, "model": model,
                           "note": "model and implementation disagree; the theorems of Props/C15.lean no longer speak about this code"}),
                );
            }
        }
    }
}

fn enumerate(alpha: &[&str], len: usize, f: &mut impl FnMut(String)) {
    let n = alpha.len();
    let mut idx = vec![0usize; len];
    loop {
        let mut s = String::new();
        for i in &idx {
            s.push_str(alpha[*i]);
        }
        f(s);
        let mut k = len;
        loop {
            if k == 0 {
                return;
            }
            k -= 1;
            idx[k] += 1;
            if idx[k] < n {
                break;
            }
            idx[k] = 0;
        }
    }
}

fn facts_line(chars: &[char]) -> String {
    let mut l = String::from("facts");
    for c in chars {
        let mut b = [0u8; 4];
        let cs = c.encode_utf8(&mut b);
        let lo: String = c.to_lowercase().collect();
        let up: String = c.to_uppercase().collect();
        l.push_str(&format!(" ({} {} {} {})", hex(cs.as_bytes()), c.is_whitespace() as u8, hex(lo.as_bytes()), hex(up.as_bytes())));
    }
    l
}

/// all requests for one subject string in one storage form
fn string_requests(d: &Desc, full_set: bool, out: &mut Vec<String>) {
    let s = d.s();
    let n = s.len() as i64;
    let dt = d.text();
    let g = gtab(s);
    out.push(format!("idx {} -1 {}", dt, n + 1));
    out.push(format!("rng {} -1 {}", dt, n + 1));
    if (2..=16).contains(&s.len()) {
        out.push(format!("unpx {}", dt));
    }
    for k in 1..=2 {
        out.push(format!("unph {} {}", dt, k));
        out.push(format!("unpt {} {}", dt, k));
    }
    if let Desc::Slice { post, .. } = d {
        out.push(format!("apiwb {} {}", dt, s.len() + post.len() + 1));
        out.push(format!("apisp {} {}", dt, s.len() + post.len() + 1));
    }
    out.push(format!("chars {} {}", dt, g));
    out.push(format!("rchars {} {}", dt, g));
    out.push(format!("cidx {} {}", dt, g));
    out.push(format!("lines {}", dt));
    out.push(format!("trim {}", dt));
    if full_set {
        out.push(format!("bytes {}", dt));
        out.push(format!("case {}", dt));
        for p in PATTERNS {
            out.push(format!("pat {} {} {}", dt, hex(p.as_bytes()), g));
            out.push(format!("trimp {} {}", dt, hex(p.as_bytes())));
        }
        out.push(format!("trimp {} x", dt));
        for (p, t) in [(",", "é"), ("é", ""), ("", "-"), ("\n", "\r\n"), ("a", "aa"), ("\u{301}", "x"), (" ", "")] {
            out.push(format!("replace {} {} {}", dt, hex(p.as_bytes()), hex(t.as_bytes())));
        }
        for k in [-1, 0, 1, 3] {
            out.push(format!("repeat {} {}", dt, k));
        }
        // a count that makes the result larger than isize::MAX (never one that is merely too big to allocate)
        if s.len() != 1 {
            out.push(format!("repeat {} {}", dt, i64::MAX));
        }
        if s.len() >= 4 {
            out.push(format!("repeat {} {}", dt, i64::MAX / 2));
        }
    } else {
        for p in [",", "é", "\r\n", ""] {
            out.push(format!("pat {} {} {}", dt, hex(p.as_bytes()), g));
        }
    }
}

fn fmt_grid(thorough: bool) -> Vec<String> {
    let fills = ["", "*", "é"];
    let aligns = ["", "<", "^", ">"];
    let widths = ["", "0", "1", "2", "3", "4", "5", "6", "05", "03"];
    let precs = ["", ".0", ".2"];
    let reps = ["", "?", "x", "X", "o", "b", "e", "E"];
    let mut v = vec![];
    for f in fills {
        for a in aligns {
            for w in widths {
                for p in precs {
                    for r in reps {
                        v.push(format!("{}{}{}{}{}", f, a, w, p, r));
                    }
                }
            }
        }
    }
    if thorough {
        for extra in ["X", "E", "x\u{304}^7", "e\u{301}<4", "5\u{304}^7", "?\u{301}>3", "\u{301}<4", "a\u{301}^5", "😀>3", "0<4", "<<4", "^^5", ">>3", ".<4", "07.1", "007", "12", "10", ">10.3?"] {
            v.push(extra.to_string());
        }
    }
    v
}

fn main() {
    kvh::quiet_panics();
    let args = Args::parse();
    // developer aid: `c15 --probe file.koto` runs a script against the linked runtime and prints its value
    if let Some(i) = args.extra.iter().position(|x| x == "--probe") {
        let src = std::fs::read_to_string(&args.extra[i + 1]).expect("probe file");
        let mut koto = Koto::with_settings(KotoSettings::default().inherit_io());
        match kvh::catch(|| koto.compile_and_run(src.as_str())) {
            Ok(Ok(v)) => println!("=> {}", koto.value_to_string(v).unwrap_or_default()),
            Ok(Err(e)) => println!("ERROR: {}", e),
            Err(p) => println!("PANIC: {}", p),
        }
        return;
    }
    let mut rep = Report::new("C15", &args);
    rep.rule = "each case is one model-protocol request: (operation, subject string in a storage form, arguments); subjects: exhaustive strings over a 10-symbol alphabet (1/2/3/4-byte characters, combining mark, CR, LF, space, pattern characters, a character with a multi-character case image) up to a length bound × storage forms × all byte indices -1..len+1 and all ranges over them × every modelled operation; a self-overlapping family for the pattern-taking functions (all subjects up to 6/7 letters over {a,b,é} × all patterns up to 3 letters, periodic patterns with subjects p^k plus proper prefixes/suffixes); literals over an escape alphabet; format-option strings over an option alphabet; the format grid × values; seeded random longer strings over an extended alphabet. distinct = distinct request lines; non-trivial = subject of at least 2 characters (escape cases: contains a backslash; format cases: non-empty options)".into();
    let open: Vec<String> = rep.known_open().iter().filter_map(|e| e.get("id").and_then(|x| x.as_str()).map(|s| s.to_string())).collect();
    let drv = if args.driver.is_empty() { None } else { Some(Driver::spawn(&args.driver)) };
    let mut all_chars: Vec<char> = vec![];
    for set in [ALPHABET, EXTRA, PATTERNS, NUM_ALPHABET, ESC_ALPHABET, OPT_ALPHABET] {
        for s in set {
            for c in s.chars() {
                if !all_chars.contains(&c) {
                    all_chars.push(c);
                }
            }
        }
    }
    for c in "xy'truefalsnl-+.0123456789bcdeghikmopqvwzABCDEFX".chars() {
        if !all_chars.contains(&c) {
            all_chars.push(c);
        }
    }
    let facts = facts_line(&all_chars);
    let mut cx = Ctx {
        rt: Rt::new(),
        rep,
        drv,
        pending: vec![],
        open,
        known_counts: Default::default(),
        k_fail: 0,
        d_fail: 0,
        facts_line: facts.clone(),
        samples_by_op: Default::default(),
        seg_inconsistent: 0,
        cur_atom: String::new(),
        t_phase: std::time::Instant::now(),
        t_exec: 0.0,
        t_model: 0.0,
    };
    // findings recorded as fixed: the model then describes the repaired code
    let fixed: Vec<String> = cx
        .rep
        .known_entries()
        .iter()
        .filter(|e| e.get("status").and_then(|s| s.as_str()) == Some("fixed"))
        .filter_map(|e| e.get("id").and_then(|x| x.as_str()).map(|s| s.to_string()))
        .collect();
    if let Some(d) = &mut cx.drv {
        let r = d.ask(&facts);
        assert_eq!(r, "ok", "driver did not accept the facts line");
        if !fixed.is_empty() {
            let r = d.ask(&format!("fixes {}", fixed.join(" ")));
            assert_eq!(r, "ok", "driver did not accept the fixes line");
        }
    }
    if !fixed.is_empty() {
        cx.rep.note(format!("findings recorded as fixed (model describes the repaired code): {}", fixed.join(" ")));
    }
    let _ = &cx.facts_line;

    // ---- replay of one recorded case --------------------------------------------------------------
    if let Some(p) = &args.replay {
        let v: serde_json::Value = serde_json::from_str(&std::fs::read_to_string(p).expect("replay file")).unwrap();
        let req = v["detail"]["request"].as_str().expect("detail.request").to_string();
        let model = match &mut cx.drv {
            Some(d) => d.ask(&req),
            None => "NO-DRIVER".into(),
        };
        let out = cx.exec(&req);
        println!("request: {}", req);
        println!("impl   : {}", out.line);
        println!("model  : {}", model);
        for (c, d) in &out.d_fail {
            println!("(D) {}: {}", c, d);
        }
        for (c, d) in &out.attributed {
            println!("known {}: {}", c, d);
        }
        cx.one(&req, &model);
        std::process::exit(cx.rep.finish());
    }

    // ---- 0. corpus + witnesses of listed findings ---------------------------------------------------
    let mut witnesses: Vec<(String, String)> = vec![];
    for e in cx.rep.known_entries() {
        if let (Some(id), Some(w)) = (e.get("id").and_then(|x| x.as_str()), e.get("witness_request").and_then(|x| x.as_str())) {
            witnesses.push((id.to_string(), w.to_string()));
        }
    }
    if let Some(dir) = &args.corpus {
        if let Ok(rd) = std::fs::read_dir(dir) {
            let mut ps: Vec<_> = rd.filter_map(|e| e.ok()).map(|e| e.path()).collect();
            ps.sort();
            for p in ps {
                if let Ok(txt) = std::fs::read_to_string(&p) {
                    for l in txt.lines() {
                        let l = l.trim_end();
                        if !l.is_empty() && !l.starts_with('#') {
                            cx.rep.bump("corpus_requests");
                            cx.push(l.to_string());
                        }
                    }
                }
            }
        }
    }
    cx.phase("corpus");

    let thorough = args.thorough();
    let max_len = if thorough { 4 } else { 3 };

    // ---- 1. exhaustive subjects × forms × operations -------------------------------------------------
    let mut subjects: Vec<String> = vec![];
    for len in 0..=max_len {
        enumerate(ALPHABET, len, &mut |s| subjects.push(s));
    }
    cx.rt.compile_lits(&subjects);
    let mut rng = Rng::new(args.seed);
    let mut reqs = vec![];
    for (i, s) in subjects.iter().enumerate() {
        if !seg_consistent(s) {
            cx.seg_inconsistent += 1;
            continue;
        }
        let short = s.chars().count() <= if thorough { 3 } else { 2 };
        reqs.clear();
        string_requests(&Desc::Lit(s.clone()), short || i % 7 == 0, &mut reqs);
        string_requests(&Desc::Full(s.clone()), short || i % 7 == 3, &mut reqs);
        // slices with an offset into a larger buffer (16-bit bounds), and with large bounds
        if short || rng.chance(1, 6) {
            string_requests(&Desc::Slice { pre: 1, s: s.clone(), post: "y".into() }, false, &mut reqs);
        }
        if rng.chance(1, if thorough { 12 } else { 20 }) {
            string_requests(&Desc::Slice { pre: 65536, s: s.clone(), post: "é".into() }, false, &mut reqs);
        }
        for r in reqs.drain(..) {
            cx.push(r);
        }
    }
    cx.phase("exhaustive-strings");
    cx.rep.exhaustive = true;
    cx.rep.extra.insert(
        "exhaustive_space".into(),
        json!({"alphabet": ALPHABET, "max_len_chars": max_len, "subjects": subjects.len(),
               "forms": ["L (literal: slice of the constant pool)", "F (Full: run-time concatenation)", "S:1 (sub-slice at offset 1, 16-bit bounds; sampled for long subjects)", "S:65536 (sub-slice with large bounds; sampled)"],
               "index_arguments": "every integer -1..=len+1; every range a..b, a..=b, a.., ..b, ..=b over them",
               "patterns": PATTERNS,
               "per_subject": "idx rng unpx unph unpt chars rchars cidx lines trim (+ bytes case pat×patterns trimp×patterns replace×7 repeat×4 for all subjects up to the short bound and every 7th longer one)"}),
    );

    // ---- 1b. self-overlapping subject/pattern family ----------------------------------------------------
    // Pattern-taking functions (trim*, split, strip_*, contains/starts/ends_with, replace) on subjects in
    // which occurrences of the pattern overlap each other and both ends: exhaustive subjects over a
    // 3-letter alphabet (one multi-byte) x all patterns up to 3 letters, plus periodic patterns with
    // subjects built from pattern repetitions and proper prefixes/suffixes (lengths k*|p| +- j).
    {
        const OV: &[&str] = &["a", "b", "é"];
        let ov_len = if thorough { 7 } else { 6 };
        let mut ov_subjects: Vec<String> = vec![];
        for len in 0..=ov_len {
            enumerate(OV, len, &mut |s| ov_subjects.push(s));
        }
        let mut ov_patterns: Vec<String> = vec![];
        for len in 0..=3 {
            enumerate(OV, len, &mut |s| ov_patterns.push(s));
        }
        let mut pairs: Vec<(String, String)> = vec![];
        for s in &ov_subjects {
            for p in &ov_patterns {
                pairs.push((s.clone(), p.clone()));
            }
        }
        for p in ["aa", "aba", "abab", "éé", "éaé", "aéa", "aaa", "abaab", "a,a", "\r\n\r", ",,", "字字"] {
            let p = p.to_string();
            let cs: Vec<char> = p.chars().collect();
            for k in 0..=4usize {
                let body = p.repeat(k);
                for i in 0..cs.len() {
                    let pre: String = cs[..i].iter().collect();
                    for j in 0..cs.len() {
                        let suf: String = cs[cs.len() - j..].iter().collect();
                        pairs.push((format!("{}{}{}", suf, body, pre), p.clone()));
                    }
                }
            }
        }
        let mut lits: Vec<String> = pairs.iter().map(|(s, _)| s.clone()).collect();
        lits.sort();
        lits.dedup();
        lits.retain(|s| !cx.rt.lit_cache.contains_key(s));
        cx.rt.compile_lits(&lits);
        let n_pairs = pairs.len();
        for (i, (s, p)) in pairs.into_iter().enumerate() {
            if !seg_consistent(&s) {
                cx.seg_inconsistent += 1;
                continue;
            }
            let d = if i % 2 == 0 { Desc::Lit(s.clone()) } else { Desc::Full(s.clone()) };
            let dt = d.text();
            let ph = hex(p.as_bytes());
            cx.push(format!("trimp {} {}", dt, ph));
            cx.push(format!("pat {} {} {}", dt, ph, gtab(&s)));
            cx.push(format!("replace {} {} {}", dt, ph, if i % 3 == 0 { "x" } else { "xc3a92d" }));
            cx.rep.bump("overlap_family_pairs");
        }
        cx.rep.extra.insert(
            "overlap_family".into(),
            json!({"alphabet": OV, "subject_max_len": ov_len, "pattern_max_len": 3, "pairs": n_pairs,
                   "periodic_patterns": "aa aba abab éé éaé aéa aaa abaab a,a CRLFCR ,, 字字 with subjects suffix(p)+p^k+prefix(p), k=0..4",
                   "ops": "trimp (trim/trim_start/trim_end with pattern), pat (split, split-with, strip_prefix/suffix, contains, starts_with, ends_with), replace"}),
        );
    }
    cx.phase("overlap-family");

    // ---- 2. to_number ----------------------------------------------------------------------------------
    let num_len = if thorough { 4 } else { 3 };
    for len in 0..=num_len {
        enumerate(NUM_ALPHABET, len, &mut |s| cx.push(format!("tonum {}", hex(s.as_bytes()))));
    }
    for s in [
        "9223372036854775807", "9223372036854775808", "-9223372036854775808", "-9223372036854775809", "0x7fffffffffffffff",
        "0x8000000000000000", "0x-8000000000000000", "0b-101", "0o777", "0o8", "0xFF", "0Xff", "1e5", "1E-5", "infinity", "-inf",
        "NaN", "+nan", "1_000", " 1", "1 ", "١", "0x", "0b", "+", "-", "", ".", "1.", ".5", "1e", "1e+", "0x1.8", "1.5e3x", "--1", "+-1",
    ] {
        cx.push(format!("tonum {}", hex(s.as_bytes())));
        for base in [1, 2, 8, 10, 16, 36, 37, -3] {
            cx.push(format!("tonumb {} {}", hex(s.as_bytes()), base));
        }
    }
    for len in 0..=2 {
        let mut v = vec![];
        enumerate(NUM_ALPHABET, len, &mut |s| v.push(s));
        for s in v {
            for base in [2, 16, 36] {
                cx.push(format!("tonumb {} {}", hex(s.as_bytes()), base));
            }
        }
    }
    cx.phase("to_number");

    // ---- 3. escape codes in literals ------------------------------------------------------------------
    let esc_len = if thorough { 4 } else { 3 };
    for len in 0..=esc_len {
        enumerate(ESC_ALPHABET, len, &mut |s| cx.push(format!("lit {}", hex(s.as_bytes()))));
    }
    for s in [
        "\\u{41}", "\\u{0}", "\\u{}", "\\u{d7ff}", "\\u{d800}", "\\u{dfff}", "\\u{e000}", "\\u{10ffff}", "\\u{110000}", "\\u{0000041}",
        "\\u{ffffffff}", "\\u{1F44B}", "\\u{1f44b", "\\u{41", "\\u41", "\\x41", "\\x7f", "\\x80", "\\xff", "\\x4", "\\x4g", "\\xg4",
        "a\\\n   b", "a\\\r\n \t b", "a\\\n\n b", "a\\\n\u{a0}b", "\\}", "\\$", "\\é", "\\", "\\\\", "\\'", "\\\"", "\\{x}", "\\n\\r\\t",
    ] {
        cx.push(format!("lit {}", hex(s.as_bytes())));
    }
    cx.phase("escapes");

    // ---- 4. format options: parsing -----------------------------------------------------------------
    let opt_len = if thorough { 4 } else { 3 };
    for len in 0..=opt_len {
        enumerate(OPT_ALPHABET, len, &mut |s| cx.push(format!("fparse {} {}", hex(s.as_bytes()), gtab(&s))));
    }
    for s in fmt_grid(true) {
        cx.push(format!("fparse {} {}", hex(s.as_bytes()), gtab(&s)));
    }
    for s in ["4294967295", "4294967296", ".4294967296", "99999999999", "🫶🏽>20.10", "𝜇<.9", "_^", "8^4", "'<5", "é́^3", "\u{1F1E6}\u{1F1FA}<3", "\u{1F1E6}<3"] {
        cx.push(format!("fparse {} {}", hex(s.as_bytes()), gtab(s)));
    }
    cx.phase("format-parse");

    // ---- 5. format options: application -------------------------------------------------------------
    // every value kind x every representation x width / fill / alignment / precision / zero flag
    let mut vals: Vec<String> = vec![];
    for i in [0i64, 5, -5, 255, -255, 1200, -1200, 1234567, 1250, 25, 995, i64::MAX, i64::MIN, (1 << 53) + 1, 1 << 62, 100] {
        vals.push(format!("i{}", i));
    }
    for v in [
        1.5f64, 2.75, -0.5, 1234.5, 0.1, 2.0, -3.0, 255.0, 1e21, -1e21, 1e-7, 123456789.125, 0.125, 2.5, 0.25, 1.23456, 9.99, 9.96e22,
        0.0, -0.0, 5e-324, f64::MAX, 9223372036854775808.0, -9223372036854775808.0, 0.1 + 0.2, 1e15, 1e16, 123456.0,
        f64::INFINITY, f64::NEG_INFINITY, f64::NAN,
    ] {
        vals.push(float_atom(v));
    }
    vals.push("b1".into());
    vals.push("b0".into());
    vals.push("null".into());
    let mut strs: Vec<String> = ["", "a", "é", "ab", "é\u{301}", "字", "😀a", "\u{301}", "a\r\n", "héllo", "\n", "a\u{301}b"].iter().map(|s| s.to_string()).collect();
    if thorough {
        for len in 1..=2 {
            enumerate(ALPHABET, len, &mut |s| {
                if !strs.contains(&s) {
                    strs.push(s)
                }
            });
        }
    }
    for s in &strs {
        vals.push(format!("s{}", hex(s.as_bytes())));
    }
    // containers and objects with @display / @debug
    let hx = |s: &str| hex(s.as_bytes());
    for v in [
        "T[]".to_string(),
        format!("T[i1,s{},null]", hx("a")),
        format!("T[s{},b1]", hx("é\u{301}")),
        format!("T[o{};{},i5]", hx("OBJ"), hx("DBG")),
        "L[]".to_string(),
        format!("L[i1,s{}]", hx("héllo")),
        "M[]".to_string(),
        format!("M[{}=i1,{}=s{}]", hx("a"), hx("b"), hx("x")),
        format!("O[{},{}]", hx("OBJ"), hx("DBG")),
        format!("O[{},{}]", hx("héllo"), hx("héllo")),
        format!("O[{},{}]", hx(""), hx("字字")),
    ] {
        vals.push(v);
    }
    let grid = fmt_grid(thorough);
    for o in &grid {
        for v in &vals {
            let mut tabs = gtab(o);
            if !atom_is_number(v) {
                let (d, g) = (xval_text(v, false), xval_text(v, true));
                if !seg_consistent(&d) || !seg_consistent(&g) {
                    continue;
                }
                tabs.push_str(&format!(" {}", gtab(&d)));
                if g != d {
                    tabs.push_str(&format!(" {}", gtab(&g)));
                }
            }
            cx.push(format!("fmt {} {} {}", hex(o.as_bytes()), v, tabs));
        }
    }
    cx.flush();
    cx.rep.extra.insert(
        "format_grid".into(),
        json!({"fill": ["", "*", "é"], "align": ["", "<", "^", ">"], "width": ["", "0", "1", "2", "3", "4", "5", "6", "05", "03"],
               "precision": ["", ".0", ".2"], "representation": ["", "?", "x", "X", "o", "b", "e", "E"], "option_strings": grid.len(), "values": vals.len(),
               "value_kinds": "integers (0, negative, i64 limits, 2^53+1), floats (fractional, large, small, negative, -0.0, subnormal, f64::MAX, +-2^63, non-finite), strings, booleans, null, tuples, lists, maps, objects with @display / @debug (also inside a tuple)"}),
    );
    cx.phase("format-apply");
    cx.rep.extra.insert(
        "format_grid".into(),
        json!({"fill": ["", "*", "é"], "align": ["", "<", "^", ">"], "width": ["", "0", "1", "2", "3", "4", "5", "6", "05"],
               "precision": ["", ".0", ".2"], "representation": ["", "?", "x", "o", "b", "e"], "option_strings": grid.len(), "values": vals.len()}),
    );

    // ---- 6. seeded random longer strings over the extended alphabet -----------------------------------
    let n_random = if thorough { 3000 } else { 400 };
    let all: Vec<&str> = ALPHABET.iter().chain(EXTRA.iter()).copied().collect();
    let mut n_rand = 0;
    while n_rand < n_random {
        let cap = if rng.chance(1, 8) { 24 } else { 9 };
        let len = 1 + rng.below(cap);
        let mut s = String::new();
        for _ in 0..len {
            if rng.chance(1, 2) {
                s.push_str(*rng.pick::<&str>(ALPHABET));
            } else {
                s.push_str(*rng.pick::<&str>(&all));
            }
        }
        if !seg_consistent(&s) {
            cx.seg_inconsistent += 1;
            continue;
        }
        n_rand += 1;
        let d = match rng.below(4) {
            0 => Desc::Lit(s.clone()),
            1 => Desc::Full(s.clone()),
            2 => Desc::Slice { pre: 1 + rng.below(5), s: s.clone(), post: (*rng.pick(&["", "y", "é", "\u{301}"])).to_string() },
            _ => Desc::Slice { pre: 65530 + rng.below(10), s: s.clone(), post: "z".into() },
        };
        let dt = d.text();
        let g = gtab(&s);
        let n = s.len() as i64;
        let mut reqs = vec![
            format!("idx {} -1 {}", dt, n + 1),
            format!("chars {} {}", dt, g),
            format!("rchars {} {}", dt, g),
            format!("cidx {} {}", dt, g),
            format!("lines {}", dt),
            format!("trim {}", dt),
            format!("case {}", dt),
            format!("bytes {}", dt),
        ];
        if s.len() <= 12 {
            reqs.push(format!("rng {} -1 {}", dt, n + 1));
        }
        if (2..=16).contains(&s.len()) {
            reqs.push(format!("unpx {}", dt));
        }
        reqs.push(format!("unph {} 2", dt));
        reqs.push(format!("unpt {} 1", dt));
        // patterns taken from the string itself
        let cs: Vec<&str> = s.graphemes(true).collect();
        for _ in 0..3 {
            let i = rng.below(cs.len());
            let j = (i + 1 + rng.below(2)).min(cs.len());
            let p: String = if rng.chance(1, 6) { String::new() } else { cs[i..j].concat() };
            reqs.push(format!("pat {} {} {}", dt, hex(p.as_bytes()), g));
            reqs.push(format!("trimp {} {}", dt, hex(p.as_bytes())));
            let t = (*rng.pick(&all)).to_string();
            reqs.push(format!("replace {} {} {}", dt, hex(p.as_bytes()), hex(t.as_bytes())));
        }
        reqs.push(format!("repeat {} {}", dt, rng.below(4)));
        // as a formatted value
        if seg_consistent(&format!("'{}'", s)) {
            let o = rng.pick(&grid).clone();
            reqs.push(format!("fmt {} s{} {} {} {}", hex(o.as_bytes()), hex(s.as_bytes()), gtab(&o), g, gtab(&format!("'{}'", s))));
        }
        for r in reqs {
            cx.push(r);
        }
    }
    cx.phase("random");

    // ---- 7. listed findings: replay the witnesses ----------------------------------------------------
    for (id, w) in &witnesses {
        let status_known = cx.open.iter().any(|x| x == id);
        let out = cx.exec(w);
        let still = out.attributed.iter().any(|(i, _)| i == id);
        let other_fail = out.panic.is_some() || !out.d_fail.is_empty() || (!out.invalid.is_empty() && !still);
        if status_known && still {
            let n = cx.known_counts.get(id).copied().unwrap_or(0);
            cx.rep.known(id, &format!("witness `{}` still fails ({} result elements of this run attributed to it by its cause rule)", w, n));
        } else if status_known && !still && !other_fail {
            cx.rep.note(format!("{}: the witness no longer fails — the entry can become status=fixed", id));
        } else if !status_known && (still || other_fail) {
            cx.d_fail += 1;
            cx.rep.violation("D", &format!("C15:regression:{}", id), json!({"request": w, "impl": out.line, "note": "a finding recorded as fixed fails again"}));
        }
        if status_known && other_fail {
            cx.d_fail += 1;
            cx.rep.violation("D", &format!("C15:witness:{}", id), json!({"request": w, "impl": out.line, "panic": out.panic, "d_fail": format!("{:?}", out.d_fail)}));
        }
    }
    // F-C15-2 (centre alignment through f32) needs a 16 MiB field: implementation side only
    if let Some(e) = cx.rep.known_entries().iter().find(|e| e.get("id").and_then(|x| x.as_str()) == Some("F-C15-2")) {
        let status_known = e.get("status").and_then(|x| x.as_str()) == Some("known");
        let width: usize = 16_777_219;
        let r = cx.rt.fmt_fn(&format!("^{}", width)).and_then(|f| cx.rt.callv(f, &[Rt::kstr("ab")]));
        let fails = match &r {
            Ok(KValue::Str(s)) => s.as_str().len() < width, // ASCII only: clusters = bytes
            _ => true,
        };
        if status_known && fails {
            cx.rep.known("F-C15-2", "witness '{x:^16777219}' with x = 'ab' yields 16777218 characters (centre alignment halves the fill count through f32)");
        } else if !status_known && fails {
            cx.d_fail += 1;
            cx.rep.violation("D", "C15:regression:F-C15-2", json!({"request": "fmt x5e3136373737323139 sx6162", "note": "a finding recorded as fixed fails again"}));
        } else if status_known {
            cx.rep.note("F-C15-2: the witness no longer fails — the entry can become status=fixed");
        }
    }

    let kc = cx.known_counts.clone();
    for (id, n) in kc {
        cx.rep.bump_by(&format!("attributed_to_{}", id), n);
    }
    let (k, d) = (cx.k_fail, cx.d_fail);
    cx.rep.extra.insert("k_disagreements".into(), json!(k));
    cx.rep.extra.insert("d_failures".into(), json!(d));
    cx.rep.extra.insert("runtime_calls".into(), json!(cx.rt.calls));
    cx.rep.extra.insert("segmentation_inconsistent_subjects_skipped".into(), json!(cx.seg_inconsistent));
    if let Some(dr) = &cx.drv {
        cx.rep.extra.insert("driver_requests".into(), json!(dr.requests));
    }
    if k > 0 && cx.rep.violations.is_empty() {
        cx.rep.violation("K", "K:C15:Model.Str", json!({"note": "disagreements counted but not reported individually", "count": k}));
    }
    std::process::exit(cx.rep.finish());
}
