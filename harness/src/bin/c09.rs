//! C09 — lexing is lossless and positions are exact.
//!
//! (K) token-for-token equality between `koto_lexer::Lexer` and the Lean model `Model/Lexer.lean`
//!     (kind, byte range, span, indent), up to and including the first Error token;
//! (D) the property's clauses evaluated directly on the real token stream.
use koto_lexer::{Lexer, StringQuote, StringType, Token};
use kvh::{Args, Driver, Report, Rng};
use serde_json::json;
use unicode_segmentation::UnicodeSegmentation;
use unicode_width::UnicodeWidthChar;
use unicode_xid::UnicodeXID;

const ALPHABET: &[&str] = &[
    "'", "\"", "{", "}", "\\", "#", "-", "r", "0", "1", ".", "e", "_", "a", " ", "\t", "\r", "\n", "é",
    "字",
];
const SUB_ALPHABET: &[&str] = &["'", "{", "}", "#", "-", "r", "1", ".", "e", " ", "\n", "a"];
/// characters on which Rust's Unicode-aware `char` predicates differ from their ASCII versions
/// (white space, digits, numerics, case), together with the ASCII symbols that give them context:
/// a scanner that classifies with one predicate and counts with another shows up here
const UNICODE_CLASSES: &[&str] = &[
    "\u{a0}", "\u{2003}", "\u{3000}", "\u{2028}", "\u{85}", "\u{b}", "\u{c}", "\u{1680}", "٣", "１", "Ⅷ", "²", "ǅ",
    "_", "a", "1", " ", "\n", ".", "'", "#", "-", "e", "x",
];
const PREFIXES: &[&str] = &["", "'{a:", "r#'", "#-", "x.", " #-", "'{", " '"];
const EXTRA_CHARS: &[&str] = &[
    ":", "<", "^", ">", "=", "+", "*", "/", "%", "(", ")", "[", "]", "|", ",", ";", "@", "?", "!", "u", "x", "b",
    "o", "f", "i", "l", "s", "E", "A", "9", "7", "\u{0301}", "\u{200d}", "😀", "ß", "→", "€", "\u{feff}", "\u{0}",
    "\u{7f}", "한", "ａ", "\u{1F1E6}", "\u{1F1FA}", "$", "`", "~", "&",
];

fn quote_str(q: StringQuote) -> &'static str {
    match q {
        StringQuote::Double => "d",
        StringQuote::Single => "s",
    }
}

fn tok_name(t: &Token) -> String {
    match t {
        Token::StringStart(StringType::Normal(q)) => format!("StrStartN({})", quote_str(*q)),
        Token::StringStart(StringType::Raw(d)) => format!("StrStartR({},{})", quote_str(d.quote), d.hash_count),
        Token::Self_ => "Self_".to_string(),
        other => format!("{:?}", other),
    }
}

#[derive(Clone, Debug)]
struct Tok {
    kind: String,
    is_error: bool,
    sb: usize,
    eb: usize,
    sl: u32,
    sc: u32,
    el: u32,
    ec: u32,
    indent: usize,
}

/// Real lexer: tokens up to and including the first Error token.
fn lex_real(src: &str) -> Result<Vec<Tok>, String> {
    kvh::catch(|| {
        let mut out = vec![];
        let cap = 3 * src.len() + 8;
        for t in Lexer::new(src) {
            let is_error = t.token == Token::Error;
            out.push(Tok {
                kind: tok_name(&t.token),
                is_error,
                sb: t.source_bytes.start,
                eb: t.source_bytes.end,
                sl: t.span.start.line,
                sc: t.span.start.column,
                el: t.span.end.line,
                ec: t.span.end.column,
                indent: t.indent,
            });
            if is_error {
                break;
            }
            if out.len() > cap {
                out.push(Tok {
                    kind: "NONTERMINATION".into(),
                    is_error: true,
                    sb: 0,
                    eb: 0,
                    sl: 0,
                    sc: 0,
                    el: 0,
                    ec: 0,
                    indent: 0,
                });
                break;
            }
        }
        out
    })
}

fn canon(toks: &[Tok]) -> String {
    toks.iter()
        .map(|t| format!("{}:{}-{}:{}.{}-{}.{}:{}", t.kind, t.sb, t.eb, t.sl, t.sc, t.el, t.ec, t.indent))
        .collect::<Vec<_>>()
        .join(" ")
}

/// request line for the model: per character `cp,width,flags,g1,g2`
fn request(src: &str) -> String {
    let mut s = String::from("lex");
    for (i, c) in src.char_indices() {
        let w = c.width().unwrap_or(0);
        let f = (UnicodeXID::is_xid_start(c) as u32) | ((UnicodeXID::is_xid_continue(c) as u32) << 1);
        // the theorems' only assumption on the supplied tables (`TableOk`): a line feed is not an
        // identifier character
        assert!(!(c == '\n' && f != 0), "TableOk violated by the unicode-xid tables");
        // `WidthOk` (hypothesis of the column theorems in Props/C09Cols): printable ASCII has
        // display width 1 in the unicode-width tables; nothing is assumed about other characters
        assert!(!((0x20..0x7f).contains(&(c as u32)) && w != 1), "WidthOk violated by the unicode-width tables");
        let mut g = src[i..].graphemes(true);
        let g1 = g.next().map(|x| x.len()).unwrap_or(0);
        let g2 = g.next().map(|x| x.len()).unwrap_or(0);
        s.push_str(&format!(" {},{},{},{},{}", c as u32, w, f, g1, g2));
    }
    s
}

/// (D) the property's clauses on the real token stream. Returns (clause, token index, detail).
fn spec(src: &str, toks: &[Tok]) -> Option<(String, usize, String)> {
    let b = src.as_bytes();
    let n_ok = toks.iter().position(|t| t.is_error).unwrap_or(toks.len());
    let newlines_before = |p: usize| b[..p.min(b.len())].iter().filter(|x| **x == b'\n').count() as u32;
    let mut expect_start = 0usize;
    for (i, t) in toks[..n_ok].iter().enumerate() {
        if t.sb != expect_start {
            return Some(("lossless".into(), i, format!("token starts at {} expected {}", t.sb, expect_start)));
        }
        if t.eb < t.sb || t.eb > b.len() {
            return Some(("lossless".into(), i, format!("token range {}..{} outside input", t.sb, t.eb)));
        }
        if !src.is_char_boundary(t.sb) || !src.is_char_boundary(t.eb) {
            return Some(("boundary".into(), i, format!("token range {}..{} cuts a character", t.sb, t.eb)));
        }
        expect_start = t.eb;
    }
    if n_ok == toks.len() && expect_start != b.len() {
        return Some(("lossless".into(), n_ok, format!("tokens end at {} but input has {} bytes", expect_start, b.len())));
    }
    for (i, t) in toks[..n_ok].iter().enumerate() {
        if t.sl != newlines_before(t.sb) || t.el != newlines_before(t.eb) {
            return Some((
                "lines".into(),
                i,
                format!(
                    "reported lines {}..{} but {}..{} line breaks precede",
                    t.sl,
                    t.el,
                    newlines_before(t.sb),
                    newlines_before(t.eb)
                ),
            ));
        }
        if (t.sb > 0 && b[t.sb - 1] == b'\n' && t.sc != 0) || (t.eb > 0 && b[t.eb - 1] == b'\n' && t.ec != 0) {
            return Some(("colreset".into(), i, format!("column {}..{} directly after a line break", t.sc, t.ec)));
        }
    }
    for (i, t) in toks[..n_ok].iter().enumerate() {
        let line_start = b[..t.sb].iter().rposition(|x| *x == b'\n').map(|p| p + 1).unwrap_or(0);
        let lead = b[line_start..].iter().take_while(|x| **x == b' ' || **x == b'\t').count();
        // a Whitespace token at the start of a line reports the indent it establishes
        if t.indent != lead {
            return Some(("indent".into(), i, format!("reported indent {} but the line has {}", t.indent, lead)));
        }
    }
    None
}

/// Attribution of a (D) failure to a listed known finding (by call site), or None.
/// `fmt_tokens`: indices of tokens the model attributes to `consume_format_options`.
fn attribute(src: &str, toks: &[Tok], clause: &str, idx: usize, fmt_tokens: &[usize], open: &[String]) -> Option<String> {
    let b = src.as_bytes();
    // F-C09-1: consume_format_options advances with advance_line() over a line break
    let fmt_nl = fmt_tokens
        .iter()
        .any(|j| *j <= idx && *j < toks.len() && src.get(toks[*j].sb..toks[*j].eb).is_some_and(|s| s.contains('\n')));
    if (clause == "lines" || clause == "colreset") && fmt_nl && open.iter().any(|x| x == "F-C09-1") {
        return Some("F-C09-1".into());
    }
    if clause == "indent" && idx < toks.len() {
        // F-C09-2: the line of the token begins inside a multi-line token (the line break that
        // starts it is not a NewLine token), so `indent` was never reset/recomputed.
        let t = &toks[idx];
        if let Some(nl) = b[..t.sb].iter().rposition(|x| *x == b'\n') {
            let owner = toks.iter().find(|o| o.sb <= nl && nl < o.eb);
            if let Some(o) = owner {
                if o.kind != "NewLine" && open.iter().any(|x| x == "F-C09-2") {
                    return Some("F-C09-2".into());
                }
            }
        }
    }
    None
}

struct Ctx {
    rep: Report,
    drv: Driver,
    open: Vec<String>,
    pending: Vec<String>,
    known_counts: std::collections::BTreeMap<String, u64>,
    k_fail: u64,
    d_fail: u64,
}

impl Ctx {
    fn push(&mut self, s: String) {
        self.pending.push(s);
        if self.pending.len() >= 20000 {
            self.flush();
        }
    }

    fn flush(&mut self) {
        let inputs = std::mem::take(&mut self.pending);
        if inputs.is_empty() {
            return;
        }
        let reqs: Vec<String> = inputs.iter().map(|s| request(s)).collect();
        let resps = self.drv.batch(&reqs);
        for (src, resp) in inputs.iter().zip(resps.iter()) {
            self.one(src, resp);
        }
    }

    fn one(&mut self, src: &str, model_resp: &str) {
        let nontrivial = src.chars().count() >= 2;
        self.rep.case(src, nontrivial);
        self.rep.bump(&format!("len_chars={}", src.chars().count().min(12)));
        // model tokens: strip the scanner tag (last '/x' field)
        let mut model_canon = vec![];
        let mut fmt_tokens = vec![];
        for (i, t) in model_resp.split(' ').filter(|x| !x.is_empty()).enumerate() {
            match t.rsplit_once('/') {
                Some((a, tag)) => {
                    if tag == "F" {
                        fmt_tokens.push(i);
                    }
                    model_canon.push(a.to_string());
                }
                None => model_canon.push(t.to_string()),
            }
        }
        let model_canon = model_canon.join(" ");
        match lex_real(src) {
            Err(p) => {
                self.d_fail += 1;
                self.rep.violation(
                    "D",
                    "C09:no-panic",
                    json!({"input_hex": kvh::hex(src.as_bytes()), "input": src, "panic": p}),
                );
            }
            Ok(toks) => {
                for t in &toks {
                    self.rep.bump(&format!("tok={}", t.kind.split('(').next().unwrap()));
                }
                if toks.iter().any(|t| t.is_error) {
                    self.rep.bump("inputs_with_error_token");
                }
                let real_canon = canon(&toks);
                if self.rep.samples.len() < 6 && src.len() >= 4 && self.rep.evaluations % 9973 == 7 {
                    self.rep.sample(json!({"input": src, "request": request(src), "impl": real_canon, "model": model_canon}));
                }
                // (D)
                let d = spec(src, &toks);
                if let Some((clause, idx, detail)) = &d {
                    match attribute(src, &toks, clause, *idx, &fmt_tokens, &self.open) {
                        Some(id) => {
                            *self.known_counts.entry(id).or_insert(0) += 1;
                        }
                        None => {
                            self.d_fail += 1;
                            if self.d_fail <= 5 {
                                self.rep.violation(
                                    "D",
                                    &format!("C09:spec:{}", clause),
                                    json!({"input_hex": kvh::hex(src.as_bytes()), "input": src, "clause": clause,
                                           "token_index": idx, "detail": detail, "impl_tokens": real_canon}),
                                );
                            }
                        }
                    }
                }
                // (D) every produced token — the first error token included — can be sliced out of the
                // source: `LexedToken::slice` neither panics nor differs from the token's bytes
                // (sampled; F-C09-4: the error token of an unexpected multi-byte character used to
                // cover its first byte only)
                if self.rep.evaluations % 7 == 1 || toks.iter().any(|t| t.is_error) {
                    let n_toks = toks.len();
                    let got = kvh::catch(|| {
                        let mut lx = Lexer::new(src);
                        let mut out = vec![];
                        for _ in 0..n_toks {
                            match lx.next() {
                                Some(t) => out.push(t.slice(src).len() == t.source_bytes.len()),
                                None => break,
                            }
                        }
                        out
                    });
                    self.rep.bump("slice_checks");
                    let ok = matches!(&got, Ok(v) if v.len() == n_toks && v.iter().all(|b| *b));
                    if !ok {
                        self.d_fail += 1;
                        if self.d_fail <= 5 {
                            self.rep.violation(
                                "D",
                                "C09:spec:slice",
                                json!({"input_hex": kvh::hex(src.as_bytes()), "input": src, "slice": format!("{:?}", got)}),
                            );
                        }
                    }
                }
                // (D) the peeking interface: `peek(n)` on a fresh lexer neither panics nor misses a
                // token — it is the n-th token of the iteration (sampled; F-C09-3)
                if self.rep.evaluations % 97 == 3 && toks.iter().all(|t| !t.is_error) {
                    for n in [0usize, 1, 2, 3, 5, 8, usize::MAX - 1, usize::MAX] {
                        let got = kvh::catch(|| Lexer::new(src).peek(n).map(|t| (t.source_bytes.start, t.source_bytes.end)));
                        let want = toks.get(n).map(|t| (t.sb, t.eb));
                        self.rep.bump("peek_checks");
                        if got != Ok(want) {
                            self.d_fail += 1;
                            if self.d_fail <= 5 {
                                self.rep.violation(
                                    "D",
                                    "C09:spec:peek",
                                    json!({"input_hex": kvh::hex(src.as_bytes()), "input": src, "n": n,
                                           "peek": format!("{:?}", got), "nth_token_of_iteration": format!("{:?}", want)}),
                                );
                            }
                            break;
                        }
                    }
                }
                // (K)
                if real_canon != model_canon {
                    self.k_fail += 1;
                    if self.k_fail <= 5 && d.is_none() {
                        // model and code disagree, and the property's clauses hold on this input
                        self.rep.violation(
                            "K",
                            "K:C09:Model.Lexer.lexAll",
                            json!({"input_hex": kvh::hex(src.as_bytes()), "input": src,
                                   "impl_tokens": real_canon, "model_tokens": model_canon,
                                   "note": "model and implementation disagree; the theorems of Props/C09.lean no longer speak about this code"}),
                        );
                    }
                }
            }
        }
    }
}

fn enumerate(alpha: &[&str], len: usize, prefix: &str, f: &mut impl FnMut(String)) {
    let n = alpha.len();
    let mut idx = vec![0usize; len];
    loop {
        let mut s = String::from(prefix);
        for i in &idx {
            s.push_str(alpha[*i]);
        }
        f(s);
        let mut k = len;
        loop {
            if k == 0 {
                return;
            }
            k -= 1;
            idx[k] += 1;
            if idx[k] < n {
                break;
            }
            idx[k] = 0;
        }
    }
}

fn corpus_files(dir: &std::path::Path, out: &mut Vec<std::path::PathBuf>) {
    if let Ok(rd) = std::fs::read_dir(dir) {
        let mut es: Vec<_> = rd.filter_map(|e| e.ok()).map(|e| e.path()).collect();
        es.sort();
        for p in es {
            if p.is_dir() {
                if p.file_name().is_some_and(|n| n == "target" || n == ".git") {
                    continue;
                }
                corpus_files(&p, out);
            } else if p.extension().is_some_and(|e| e == "koto" || e == "md") {
                out.push(p);
            }
        }
    }
}

fn main() {
    kvh::quiet_panics();
    let args = Args::parse();
    let mut rep = Report::new("C09", &args);
    rep.rule = "inputs: exhaustive strings over a 20-symbol alphabet up to a length bound (also behind mode-setting prefixes), repository sources, seeded random strings; distinct = distinct input strings; non-trivial = at least 2 characters".into();
    let open: Vec<String> = rep
        .known_open()
        .iter()
        .filter_map(|e| e.get("id").and_then(|x| x.as_str()).map(|s| s.to_string()))
        .collect();
    let drv = Driver::spawn(&args.driver);
    let mut cx = Ctx { rep, drv, open, pending: vec![], known_counts: Default::default(), k_fail: 0, d_fail: 0 };

    if let Some(p) = &args.replay {
        let v: serde_json::Value = serde_json::from_str(&std::fs::read_to_string(p).expect("replay file")).unwrap();
        let hexs = v["detail"]["input_hex"].as_str().expect("input_hex");
        let src = String::from_utf8(kvh::unhex(hexs).unwrap()).unwrap();
        cx.push(src.clone());
        cx.flush();
        let toks = lex_real(&src);
        println!("input: {:?}", src);
        println!("impl : {:?}", toks.map(|t| canon(&t)));
        println!("model: {}", cx.drv.ask(&request(&src)));
        std::process::exit(cx.rep.finish());
    }

    // 0. witnesses of listed findings and the regression corpus
    let mut witnesses: Vec<(String, String)> = vec![];
    for e in cx.rep.known_entries() {
        if let (Some(id), Some(w)) = (e.get("id").and_then(|x| x.as_str()), e.get("witness_hex").and_then(|x| x.as_str())) {
            witnesses.push((id.to_string(), String::from_utf8(kvh::unhex(w).unwrap()).unwrap()));
        }
    }
    if let Some(dir) = &args.corpus {
        if let Ok(rd) = std::fs::read_dir(dir) {
            let mut ps: Vec<_> = rd.filter_map(|e| e.ok()).map(|e| e.path()).collect();
            ps.sort();
            for p in ps {
                if let Ok(s) = std::fs::read_to_string(&p) {
                    cx.push(s);
                }
            }
        }
    }
    for (_, w) in &witnesses {
        cx.push(w.clone());
    }
    cx.flush();

    // 1. exhaustive enumeration
    let (max_len, max_len_prefixed, sub_len) = if args.thorough() { (5, 4, 6) } else { (4, 3, 5) };
    for len in 0..=max_len {
        enumerate(ALPHABET, len, "", &mut |s| cx.push(s));
    }
    for p in PREFIXES.iter().filter(|p| !p.is_empty()) {
        for len in 0..=max_len_prefixed {
            enumerate(ALPHABET, len, p, &mut |s| cx.push(s));
        }
    }
    enumerate(SUB_ALPHABET, sub_len, "", &mut |s| cx.push(s));
    for len in 0..=(if args.thorough() { 4 } else { 3 }) {
        enumerate(UNICODE_CLASSES, len, "", &mut |s| cx.push(s));
    }
    for p in ["'", "#-", "0", "a"] {
        enumerate(UNICODE_CLASSES, 2, p, &mut |s| cx.push(s));
    }
    cx.flush();
    cx.rep.exhaustive = true;
    cx.rep.extra.insert(
        "exhaustive_space".into(),
        json!({"alphabet": ALPHABET, "max_len": max_len, "prefixes": PREFIXES, "max_len_after_prefix": max_len_prefixed,
               "sub_alphabet": SUB_ALPHABET, "sub_len": sub_len,
               "unicode_class_alphabet": UNICODE_CLASSES, "unicode_class_max_len": if args.thorough() { 4 } else { 3 }}),
    );

    // 1b. every keyword of the lexer (read from lexer.rs on every run) followed by every short
    // suffix over an alphabet with multi-byte / wide / non-ASCII-space characters: look-aheads past a
    // keyword (`else if`, raw-string `r`) must stay on character boundaries
    {
        let repo = std::env::var("KOTO_REPO").unwrap_or_else(|_| "/repo".into());
        let lexer_src = std::fs::read_to_string(format!("{repo}/crates/lexer/src/lexer.rs")).unwrap_or_default();
        let mut keywords: Vec<String> = vec!["else".into(), "else if".into(), "r".into()];
        for part in lexer_src.split("check_keyword!(\"").skip(1) {
            if let Some(k) = part.split('"').next() {
                if !k.is_empty() && k.chars().all(|c| c.is_ascii_lowercase() || c == '_') && !keywords.iter().any(|x| x == k) {
                    keywords.push(k.to_string());
                }
            }
        }
        assert!(keywords.len() >= 20, "keyword table of lexer.rs not found (translator of the C09 harness)");
        cx.rep.bump_by("keywords_read_from_lexer_rs", keywords.len() as u64);
        const KW_SUFFIX: &[&str] = &[" ", "'", "é", "字", "x", "\n", "i", "f", "(", "\u{a0}", "😀"];
        let kw_len = if args.thorough() { 4 } else { 3 };
        for k in &keywords {
            for pre in ["", " ", "x\n  "] {
                for len in 0..=kw_len {
                    enumerate(KW_SUFFIX, len, &format!("{pre}{k}"), &mut |s| cx.push(s));
                }
            }
        }
        cx.flush();
    }

    // 1c. raw strings with 0..3 hashes: contents enumerated over the characters that matter for the
    // end-delimiter scan (both quotes, `#`, a letter, a multi-byte letter, a line break, a backslash),
    // closed (or not) and followed by another token, so partial end delimiters and the columns after
    // them are covered for every delimiter length
    {
        const RAW_CONTENT: &[&str] = &["'", "\"", "#", "a", "é", "\n", "\\"];
        let raw_len = if args.thorough() { 5 } else { 4 };
        for hashes in 0..=3usize {
            for q in ["'", "\""] {
                let open = format!("r{}{}", "#".repeat(hashes), q);
                let close = format!("{}{}", q, "#".repeat(hashes));
                for len in 0..=raw_len {
                    enumerate(RAW_CONTENT, len, &open, &mut |body| {
                        cx.push(format!("{body}{close} x"));
                        if len == raw_len {
                            cx.push(body);
                        }
                    });
                }
            }
        }
        cx.flush();
    }

    // 1d. boundary delimiter lengths of raw strings: the start scanner accepts up to 255 hashes;
    // complete, unterminated and partially terminated strings around every 8-bit boundary
    {
        for hashes in [0usize, 1, 2, 126, 127, 128, 129, 253, 254, 255, 256, 257, 300, 511, 512] {
            let h = "#".repeat(hashes);
            for q in ["'", "\""] {
                cx.push(format!("r{h}{q}hi{q}{h} x"));
                cx.push(format!("r{h}{q}hi{q}{h}"));
                cx.push(format!("r{h}{q}hi"));
                cx.push(format!("r{h}{q}a{q}{}b{q}{h} é", "#".repeat(hashes.saturating_sub(1))));
                cx.push(format!("r{h}{q}é\n字{q}{h}\n  y"));
                cx.push(format!("x = r{h}{q}{q}{h}"));
            }
        }
        cx.flush();
    }

    // 2. repository sources (whole files and every line-prefix cut)
    let mut files = vec![];
    corpus_files(std::path::Path::new("/repo"), &mut files);
    let mut n_files = 0;
    for f in &files {
        if let Ok(s) = std::fs::read_to_string(f) {
            n_files += 1;
            if args.thorough() || n_files % 4 == 0 {
                cx.push(s);
            }
        }
    }
    cx.rep.bump_by("repo_files_seen", n_files);
    cx.flush();

    // 3. seeded random strings mixing all symbols
    let mut rng = Rng::new(args.seed);
    let n_random = if args.thorough() { 60000 } else { 6000 };
    let all: Vec<&str> = ALPHABET.iter().chain(EXTRA_CHARS.iter()).chain(UNICODE_CLASSES.iter()).copied().collect();
    for _ in 0..n_random {
        let cap = if rng.chance(1, 10) { 60 } else { 14 };
        let len = 1 + rng.below(cap);
        let mut s = String::new();
        // start in a random mode
        if rng.chance(1, 3) {
            s.push_str(*rng.pick(PREFIXES));
        }
        for _ in 0..len {
            if rng.chance(3, 4) {
                s.push_str(*rng.pick(ALPHABET));
            } else {
                s.push_str(*rng.pick(&all));
            }
        }
        cx.push(s);
    }
    cx.flush();

    // listed findings: replay witnesses, report
    for (id, w) in &witnesses {
        let status_known = cx.open.iter().any(|x| x == id);
        let toks = lex_real(w);
        let failing = match &toks {
            Ok(t) => spec(w, t).is_some(),
            Err(_) => true,
        };
        if status_known && failing {
            let n = cx.known_counts.get(id).copied().unwrap_or(0);
            cx.rep.known(id, &format!("witness {:?} still fails ({} inputs of this run attributed to it)", w, n));
        } else if !status_known && failing {
            cx.d_fail += 1;
            cx.rep.violation("D", &format!("C09:regression:{}", id), json!({"input_hex": kvh::hex(w.as_bytes()), "input": w, "note": "a finding recorded as fixed fails again"}));
        }
    }
    let kc = cx.known_counts.clone();
    for (id, n) in kc {
        cx.rep.bump_by(&format!("attributed_to_{}", id), n);
    }
    let (k, d) = (cx.k_fail, cx.d_fail);
    cx.rep.extra.insert("k_disagreements".into(), json!(k));
    cx.rep.extra.insert("d_failures".into(), json!(d));
    cx.rep.extra.insert("driver_requests".into(), json!(cx.drv.requests));
    std::process::exit(cx.rep.finish());
}
