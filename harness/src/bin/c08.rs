//! C08 — the execution limit stops runaway scripts.
//!
//! (K1) poller: hook H4 (`koto_runtime::verif_timeout_probe`) drives a real `ExecutionTimeout` with
//!      real clock reads; the observed clock values are replayed through the Lean model
//!      (`Model/Timeout.lean`, `replay`), which must reproduce the call number of every clock read
//!      (`poll_gap`), `interval_instructions` (exact integers) and the timeout decision at every
//!      snapshot; the float hypothesis of `bounded_slack` (`UpdateSound`) is evaluated by the model
//!      on every observed read. (D1) `never_early` directly: the probe's clock after a reported
//!      timeout is at least the limit.
//! (K2) delivery: for every generated script shape the model (`deliverTimeout` on the abstract call
//!      stack at the moment of detection) predicts the delivery of the timeout — since the repair of
//!      F-C08-1 (5a7e832) always `escaped` (Props/C08 `not_catchable_nested`), wherever try/catch
//!      handlers lie relative to nested interpreter entries; the real runtime is run on the script
//!      (`Koto::compile_and_run` under `KotoSettings::with_execution_limit`) and must agree: no
//!      handler may run.
//! (D2) the property itself on the real runtime: a non-terminating script returns the timeout error
//!      no earlier than the limit and within limit + slack, nothing is emitted by a catch handler,
//!      the same runtime instance afterwards runs a probe script correctly with empty VM stacks;
//!      terminating scripts give the same result and trace with and without a limit.
//!
//! Every script runs in a `kvh::worker` child with a hard wall-clock kill.
use koto::prelude::*;
use kvh::worker::{Reply, Worker};
use kvh::{Args, Driver, Report, Rng};
use serde_json::{json, Value};
use std::cell::RefCell;
use std::rc::Rc;
use std::sync::atomic::{AtomicUsize, Ordering};
use std::sync::Mutex;
use std::time::{Duration, Instant};

/// `cfg!(debug_assertions)` of the koto_runtime build decides the first-interval constant; the
/// harness profile keeps debug assertions on. The bits are passed to the model as a parameter.
const RATE_DEBUG: f64 = 10_000_000.0;
const RATE_RELEASE: f64 = 100_000_000.0;
/// bound on the first interval (`first_interval_instruction_count.min(100.0)`, 0c1b674); passed to
/// the model as a parameter — the H4 correspondence compares the first interval exactly
const FIRST_INTERVAL_CAP: f64 = 100.0;
/// `ExecutionTimeout::MAX_INTERVAL_INSTRUCTIONS` (aa1a96f): cap on every recomputed interval; passed to
/// the model as a parameter and checked directly on every observed snapshot
const MAX_INTERVAL: u64 = 1000;

const PROBE_SCRIPT: &str = "f = |n| (1..=n).fold 0, |a, b| a + b\nx = 0\nfor i in 0..5\n  x += f i\n'{x}:{f 10}'";
const PROBE_EXPECT: &str = "20:55";

/// slack allowed on top of the limit (documented in props/C08.json): generous, because several
/// other builds run on the same machine; a too-slow case is retried once before it counts.
fn slack_ms(limit_ms: u64) -> u64 {
    std::cmp::max(150, limit_ms)
}

// ------------------------------------------------------------------------------------------------
// worker side
// ------------------------------------------------------------------------------------------------

/// `run <limit_ms|0> <script hex>` →
/// `<outcome>|<elapsed_us>|<trace>|<probe>|<regs>,<frames>,<seqb>,<strb>,<base>|<cpu_us>,<runqueue_wait_us>|<export c08_marker>;<export c08_leak>`
/// limit spec: `0` = no limit, `<n>` = milliseconds, `<n>s` = seconds, `max` = `Duration::MAX`
fn parse_limit(spec: &str) -> Option<Duration> {
    if spec == "max" {
        Some(Duration::MAX)
    } else if let Some(secs) = spec.strip_suffix('s') {
        Some(Duration::from_secs(secs.parse().unwrap_or(1)))
    } else {
        match spec.parse::<u64>().unwrap_or(0) {
            0 => None,
            ms => Some(Duration::from_millis(ms)),
        }
    }
}

fn worker_run(limit: Option<Duration>, src: &str, script_path: Option<&str>) -> String {
    let settings = match limit {
        Some(l) => KotoSettings::default().with_execution_limit(l),
        None => KotoSettings::default(),
    };
    let trace: Rc<RefCell<Vec<String>>> = Rc::new(RefCell::new(vec![]));
    let mut koto = Koto::with_settings(settings);
    let t2 = trace.clone();
    koto.prelude().add_fn("emit", move |ctx| {
        let s: Vec<String> = ctx.args().iter().map(kvh::canon::value).collect();
        t2.borrow_mut().push(s.join(":"));
        Ok(KValue::Null)
    });
    let sched0 = thread_sched_ns();
    let t0 = Instant::now();
    let r = kvh::catch(|| match script_path {
        Some(p) => koto.compile_and_run(CompileArgs::new(src).script_path(p)),
        None => koto.compile_and_run(src),
    });
    let el = t0.elapsed();
    let sched1 = thread_sched_ns();
    // time this thread spent runnable but waiting for a CPU during the run (0 if unavailable)
    let wait_us = match (sched0, sched1) {
        (Some(a), Some(b)) => b.1.saturating_sub(a.1) / 1000,
        _ => 0,
    };
    let cpu_us = match (sched0, sched1) {
        (Some(a), Some(b)) => b.0.saturating_sub(a.0) / 1000,
        _ => el.as_micros() as u64,
    };
    let out = match r {
        Ok(Ok(v)) => format!("ok:{}", kvh::canon::value(&v)),
        Ok(Err(e)) => {
            let m = e.to_string();
            if m.contains("execution timed out") {
                "timeout".to_string()
            } else {
                format!("err:{}", kvh::hex(m.lines().next().unwrap_or("").as_bytes()))
            }
        }
        Err(p) => format!("panic:{}", kvh::hex(p.as_bytes())),
    };
    let sizes = koto.verif_stack_sizes();
    // the exports of the instance after the run: the marker the generated main script exports first,
    // and the name every generated module exports first (must not leak into the main exports)
    let export_of = |k: &str| koto.exports().get(k).map(|v| kvh::canon::value(&v)).unwrap_or("none".into());
    let exports = format!("{};{}", export_of("c08_marker"), export_of("c08_leak"));
    let tr = trace.borrow().join(",");
    let probe = match kvh::catch(|| koto.compile_and_run(PROBE_SCRIPT)) {
        Ok(Ok(KValue::Str(s))) => s.as_str().to_string(),
        Ok(Ok(v)) => format!("value:{}", kvh::canon::value(&v)),
        Ok(Err(e)) => format!("err:{}", kvh::hex(e.to_string().as_bytes())),
        Err(p) => format!("panic:{}", kvh::hex(p.as_bytes())),
    };
    format!(
        "{}|{}|{}|{}|{},{},{},{},{}|{},{}|{}",
        out,
        el.as_micros(),
        tr,
        probe,
        sizes.0,
        sizes.1,
        sizes.2,
        sizes.3,
        sizes.4,
        cpu_us,
        wait_us,
        exports
    )
}

/// (on-CPU ns, run-queue wait ns) of the calling thread from `/proc/thread-self/schedstat`
/// (Linux scheduler statistics); None where that file does not exist.
fn thread_sched_ns() -> Option<(u64, u64)> {
    let s = std::fs::read_to_string("/proc/thread-self/schedstat").ok()?;
    let mut it = s.split_whitespace();
    let run: u64 = it.next()?.parse().ok()?;
    let wait: u64 = it.next()?.parse().ok()?;
    Some((run, wait))
}

// ---- native re-entry matrix -----------------------------------------------------------------

/// Every way the core library (and the VM's own native helpers) calls back into bytecode and then
/// handles the result ITSELF — call_function / run_unary_op / run_binary_op / value_to_string /
/// make_iterator / display inside a native function — crossed with the overload or callback that is
/// reached and never returns. Each case is `(name, setup lines, usage lines)`; it runs bare and with
/// a try/catch around the usage: the run has to END with the timeout error (never `ok`, never
/// another error, no handler may run). A native that maps, drops or defaults the error of the nested
/// execution (e.g. a "nicer" message for a failed assertion) turns the timeout into something else.
fn native_matrix() -> Vec<(String, String, String)> {
    let spin = "    loop\n      zz = 1\n";
    // map with one spinning meta key (plus benign extras)
    let meta = |key: &str, args: &str, tail: &str, extras: &str| format!("o =\n{extras}  {key}: {args}\n{spin}    {tail}\n");
    // usage with a multi-line callback that spins
    let cb = |head: &str, tail: &str, close: &str| format!("z = {head}\n  loop\n    zz = 1\n  {tail}\n{close}\n");
    let mut v: Vec<(String, String, String)> = vec![];
    let mut add = |n: &str, setup: String, usage: &str| v.push((n.to_string(), setup, usage.to_string()));
    // ---- @display reached through natives
    let disp = || meta("@display", "||", "'d'", "  @==: |rhs| false\n  @!=: |rhs| false\n");
    add("display/interpolation", disp(), "z = \"<{o}>\"\n");
    add("display/interpolation-of-list", disp(), "z = \"<{[o]}>\"\n");
    add("display/debug-of-tuple", disp(), "z = \"<{(o, 1):?}>\"\n");
    add("display/interpolation-of-map", disp(), "w = {a: o}\nz = \"<{w}>\"\n");
    add("display/print", disp(), "print o\n");
    add("display/print-list", disp(), "print [o]\n");
    add("display/print-several-values", disp(), "print 1, o\n");
    add("display/assert_eq-message", disp(), "assert_eq o, 1\n");
    add("display/assert_ne-message", disp(), "assert_ne o, 1\n");
    add("display/assert_eq-message-in-list", disp(), "assert_eq [o], 1\n");
    add("display/iterator.to_string", disp(), "z = (o, o).to_string()\n");
    add("display/stdout-write", disp(), "io.stdout.write o\n");
    add("display/stdout-write_line", disp(), "io.stdout.write_line o\n");
    add("display/stderr-write", disp(), "io.stderr.write_line [o]\n");
    add("display/thrown-value", disp(), "try\n  throw o\ncatch err\n  z = \"<{err}>\"\n");
    // ---- @== / @!=
    let eq = || meta("@==", "|rhs|", "true", "");
    add("equal/list.contains", eq(), "z = [1].contains o\n");
    add("equal/tuple.contains", eq(), "z = (1, 2).contains o\n");
    add("equal/list-comparison", eq(), "z = [o] == [1]\n");
    add("equal/tuple-comparison", eq(), "z = (o, 1) == (1, 1)\n");
    add("equal/map-comparison", eq(), "z = {a: o} == {a: 1}\n");
    add("equal/assert_eq", eq(), "assert_eq o, 1\n");
    add("equal/derived-not-equal", eq(), "z = o != 1\n");
    add("not-equal/assert_ne", meta("@!=", "|rhs|", "true", ""), "assert_ne o, 1\n");
    // ---- @<
    let lt = || meta("@<", "|rhs|", "true", "");
    add("less/list.sort", lt(), "z = [o, o, o].sort()\n");
    add("less/iterator.min", lt(), "z = (o, o).min()\n");
    add("less/iterator.max", lt(), "z = (o, o).max()\n");
    add("less/iterator.min_max", lt(), "z = (o, o).min_max()\n");
    add("less/tuple.sort_copy", lt(), "z = (o, o).sort_copy()\n");
    add("less/sort-keys", lt(), "z = [1, 2].sort |x| o\n");
    add("less/derived-greater-or-equal", lt(), "z = o >= 1\n");
    // ---- @size / @index / @next / @next_back / @iterator / @call
    add("size/koto.size", meta("@size", "||", "1", ""), "z = koto.size o\n");
    add("size/size", meta("@size", "||", "1", ""), "z = size o\n");
    add("size/match-pattern", meta("@size", "||", "2", "  @index: |i| 1\n"), "z = match o\n  (a, b) then 1\n  else 2\n");
    add("index/match-pattern", meta("@index", "|i|", "1", "  @size: || 2\n"), "z = match o\n  (a, b) then 1\n  else 2\n");
    add("next/for", meta("@next", "||", "null", ""), "for v in o\n  ()\n");
    add("next/iterator.count", meta("@next", "||", "null", ""), "z = iterator.count o\n");
    add("next/iterator.to_list", meta("@next", "||", "null", ""), "z = iterator.to_list o\n");
    add("next/unpack", meta("@next", "||", "null", ""), "a, b = o\n");
    add("next/call-args-unpack", meta("@next", "||", "null", ""), "f = |a...| a\nz = f o...\n");
    add("next/flatten", meta("@next", "||", "null", ""), "z = (o,).flatten().to_list()\n");
    add("next_back/reversed", meta("@next_back", "||", "null", "  @next: || null\n"), "z = iterator.reversed(o).to_list()\n");
    add("iterator/iterator.count", meta("@iterator", "||", "(1, 2)", ""), "z = iterator.count o\n");
    add("iterator/flatten", meta("@iterator", "||", "(1, 2)", ""), "z = (o, o).flatten().to_list()\n");
    add("iterator/call-args-unpack", meta("@iterator", "||", "(1, 2)", ""), "f = |a...| a\nz = f o...\n");
    add("call/as-adaptor-callback", meta("@call", "|x|", "x", ""), "z = (1,).each(o).to_list()\n");
    add("call/as-sort-key", meta("@call", "|x|", "x", ""), "z = [2, 1].sort o\n");
    add("callback/generate-n", "gf = ||\n  loop\n    zz = 1\n  1\n".to_string(), "z = iterator.generate(gf, 2).to_list()\n");
    // ---- plain callbacks handed to natives
    for (n, head, tail, close) in [
        ("callback/each.to_list", "(1, 2).each(|x|", "x", ").to_list()"),
        ("callback/each.to_tuple", "(1, 2).each(|x|", "x", ").to_tuple()"),
        ("callback/each.to_map", "(1, 2).each(|x|", "x", ").to_map()"),
        ("callback/each.to_string", "('a', 'b').each(|x|", "x", ").to_string()"),
        ("callback/each.count", "(1, 2).each(|x|", "x", ").count()"),
        ("callback/each.consume", "(1, 2).each(|x|", "x", ").consume()"),
        ("callback/each.last", "(1, 2).each(|x|", "x", ").last()"),
        ("callback/each.sum", "(1, 2).each(|x|", "x", ").sum()"),
        ("callback/each.product", "(1, 2).each(|x|", "x", ").product()"),
        ("callback/each.next", "(1, 2).each(|x|", "x", ").next()"),
        ("callback/each.peekable.peek", "(1, 2).each(|x|", "x", ").peekable().peek()"),
        ("callback/each.skip.next", "(1, 2).each(|x|", "x", ").skip(1).next()"),
        ("callback/each.step", "(1, 2).each(|x|", "x", ").step(2).to_list()"),
        ("callback/each.enumerate", "(1, 2).each(|x|", "x", ").enumerate().to_list()"),
        ("callback/each.windows", "(1, 2, 3).each(|x|", "x", ").windows(2).to_list()"),
        ("callback/each.chunks", "(1, 2, 3).each(|x|", "x", ").chunks(2).to_list()"),
        ("callback/each.cycle", "(1, 2).each(|x|", "x", ").cycle().take(3).to_list()"),
        ("callback/each.reversed", "(1, 2).each(|x|", "x", ").reversed().to_list()"),
        ("callback/each.intersperse", "(1, 2).each(|x|", "x", ").intersperse(0).to_list()"),
        ("callback/each.zip", "(1, 2).each(|x|", "x", ").zip((3, 4)).to_list()"),
        ("callback/each.min", "(1, 2).each(|x|", "x", ").min()"),
        ("callback/each.position", "(1, 2).each(|x|", "x", ").position(|y| y == 2)"),
        ("callback/chain.each", "(1, 2).chain((3,).each(|x|", "x", ")).to_list()"),
        ("callback/list.extend-each", "[0].extend((1, 2).each(|x|", "x", "))"),
        ("callback/map.extend-each", "{}.extend(((1, 2),).each(|x|", "x", "))"),
        ("callback/keep", "(1, 2).keep(|x|", "true", ").to_list()"),
        ("callback/fold", "(1, 2).fold(0, |acc, x|", "acc", ")"),
        ("callback/any", "(1, 2).any(|x|", "false", ")"),
        ("callback/all", "(1, 2).all(|x|", "true", ")"),
        ("callback/find", "(1, 2).find(|x|", "false", ")"),
        ("callback/position", "(1, 2).position(|x|", "false", ")"),
        ("callback/min-key", "(1, 2).min(|x|", "x", ")"),
        ("callback/max-key", "(1, 2).max(|x|", "x", ")"),
        ("callback/min_max-key", "(1, 2).min_max(|x|", "x", ")"),
        ("callback/take-while", "(1, 2).take(|x|", "true", ").to_list()"),
        ("callback/consume-fn", "(1, 2).consume(|x|", "x", ")"),
        ("callback/generate", "iterator.generate(||", "1", ").take(2).to_list()"),
        ("callback/intersperse-fn", "(1, 2).intersperse(||", "0", ").to_list()"),
        ("callback/list.sort-key", "[2, 1].sort(|x|", "x", ")"),
        ("callback/list.retain", "[2, 1].retain(|x|", "true", ")"),
        ("callback/list.transform", "[2, 1].transform(|x|", "x", ")"),
        ("callback/list.resize_with", "[1].resize_with(3, ||", "0", ")"),
        ("callback/map.update", "{a: 1}.update('a', |x|", "x", ")"),
        ("callback/map.sort-key", "{a: 1, b: 2}.sort(|k, v|", "k", ")"),
        ("callback/map.keep", "{a: 1}.keep(|e|", "true", ").to_map()"),
        ("callback/tuple.sort_copy-key", "(2, 1).sort_copy(|x|", "x", ")"),
        ("callback/string.split-predicate", "'a b'.split(|c|", "c == ' '", ").to_list()"),
        ("callback/zip.each", "(1, 2).zip((3, 4)).each(|a|", "a", ").to_list()"),
        ("callback/chunks.each", "(1, 2, 3).chunks(2).each(|x|", "x", ").to_list()"),
        ("callback/for-over-each", "0\nfor v in (1, 2).each(|x|", "x", ")\n  ()"),
        ("callback/unpack-each", "0\na, b = (1, 2).each(|x|", "x", ")"),
    ] {
        add(n, String::new(), &cb(head, tail, close));
    }
    v
}

/// (bare, inside try/catch) scripts of one matrix case
fn matrix_scripts(setup: &str, usage: &str) -> (String, String) {
    let bare = format!("export c08_marker = 41\n{setup}{usage}'after'\n");
    let indented: String = usage.lines().map(|l| format!("  {l}\n")).collect();
    let tried = format!("export c08_marker = 41\n{setup}try\n{indented}catch e\n  emit 'h', 0, e\n'after'\n");
    (bare, tried)
}

// ---- configuration routes ------------------------------------------------------------------

/// Every `pub fn …(self …)` helper of `impl KotoSettings` (crates/koto/src/koto.rs). The harness
/// compares this table with the source on every run (`K:C08:settings-helper-table`).
const SETTINGS_HELPERS: &[&str] = &[
    "inherit_args",
    "inherit_io",
    "with_execution_limit",
    "with_args",
    "with_stdin",
    "with_stdout",
    "with_stderr",
    "with_module_imported_callback",
];

fn apply_helper(s: KotoSettings, helper: &str, limit: Duration) -> Option<KotoSettings> {
    use koto::runtime::{UnavailableStderr, UnavailableStdin, UnavailableStdout};
    Some(match helper {
        "inherit_args" => s.inherit_args(),
        "inherit_io" => s.inherit_io(),
        "with_execution_limit" => s.with_execution_limit(limit),
        "with_args" => s.with_args(["a", "b"]),
        "with_stdin" => s.with_stdin(UnavailableStdin::default()),
        "with_stdout" => s.with_stdout(UnavailableStdout::default()),
        "with_stderr" => s.with_stderr(UnavailableStderr::default()),
        "with_module_imported_callback" => s.with_module_imported_callback(|_p: &std::path::Path| {}),
        _ => return None,
    })
}

const ROUTE_SPIN: &str = "i = 0\nloop\n  i += 1\n";

/// `route <name> <limit_ms>`: configure the limit through the named public route, run a short spin,
/// → `<outcome>|<elapsed_us>|<runqueue_wait_us>`. Route names:
/// `chain:<h1>,<h2>,…` (KotoSettings::default() followed by the helpers in that order),
/// `literal`, `literal-no-tests`, `vm-direct`, `compile-then-run`, `args-path`, `args-no-type-checks`,
/// `args-export-top-level`, `exported-function`, `call-function`, `main`, `test`, `value-to-string`,
/// `second-run`.
fn worker_route(name: &str, limit_ms: u64) -> String {
    let limit = Duration::from_millis(limit_ms);
    let vm_settings = || KotoVmSettings { execution_limit: Some(limit), ..Default::default() };
    let chained = || KotoSettings::default().with_execution_limit(limit);
    let sched0 = thread_sched_ns();
    let t0 = Instant::now();
    let r: Result<Result<String, String>, String> = kvh::catch(|| -> Result<String, String> {
        let show = |r: koto::Result<KValue>| r.map(|v| kvh::canon::value(&v)).map_err(|e| e.to_string());
        if let Some(list) = name.strip_prefix("chain:") {
            let mut s = KotoSettings::default();
            for h in list.split(',') {
                s = apply_helper(s, h, limit).ok_or_else(|| format!("unknown-helper {}", h))?;
            }
            return show(Koto::with_settings(s).compile_and_run(ROUTE_SPIN));
        }
        match name {
            "literal" => show(Koto::with_settings(KotoSettings { run_tests: true, vm_settings: vm_settings() }).compile_and_run(ROUTE_SPIN)),
            "literal-no-tests" => show(Koto::with_settings(KotoSettings { run_tests: false, vm_settings: vm_settings() }).compile_and_run(ROUTE_SPIN)),
            "vm-direct" => {
                let mut vm = KotoVm::with_settings(vm_settings());
                let mut loader = koto::bytecode::ModuleLoader::default();
                let chunk = loader.compile_script(ROUTE_SPIN, None, Default::default()).map_err(|e| e.to_string())?;
                vm.run(chunk).map(|v| kvh::canon::value(&v)).map_err(|e| e.to_string())
            }
            "compile-then-run" => {
                let mut k = Koto::with_settings(chained());
                let chunk = k.compile(ROUTE_SPIN).map_err(|e| e.to_string())?;
                show(k.run(chunk))
            }
            "args-path" => show(Koto::with_settings(chained()).compile_and_run(CompileArgs::new(ROUTE_SPIN).script_path("/tmp/c08-route.koto"))),
            "args-no-type-checks" => show(Koto::with_settings(chained()).compile_and_run(CompileArgs::new(ROUTE_SPIN).enable_type_checks(false))),
            "args-export-top-level" => show(Koto::with_settings(chained()).compile_and_run(CompileArgs::new(ROUTE_SPIN).export_top_level_ids(true))),
            "exported-function" => {
                let mut k = Koto::with_settings(chained());
                k.compile_and_run("export spin = ||\n  loop\n    x = 1\n").map_err(|e| e.to_string())?;
                show(k.call_exported_function("spin", &[]))
            }
            "call-function" => {
                let mut k = Koto::with_settings(chained());
                let f = k.compile_and_run("||\n  loop\n    x = 1\n").map_err(|e| e.to_string())?;
                show(k.call_function(f, &[]))
            }
            "main" => show(Koto::with_settings(chained()).compile_and_run("export @main = ||\n  loop\n    x = 1\n")),
            "test" => show(Koto::with_settings(chained()).compile_and_run("@test spin = ||\n  loop\n    x = 1\n")),
            "value-to-string" => {
                let mut k = Koto::with_settings(chained());
                let m = k.compile_and_run("m =\n  @display: ||\n    loop\n      x = 1\nm").map_err(|e| e.to_string())?;
                k.value_to_string(m).map_err(|e| e.to_string())
            }
            "second-run" => {
                let mut k = Koto::with_settings(chained());
                k.compile_and_run("1 + 1").map_err(|e| e.to_string())?;
                show(k.compile_and_run(ROUTE_SPIN))
            }
            _ => Err("unknown-route".into()),
        }
    });
    let el = t0.elapsed();
    let wait_us = match (sched0, thread_sched_ns()) {
        (Some(a), Some(b)) => b.1.saturating_sub(a.1) / 1000,
        _ => 0,
    };
    let out = match r {
        Ok(Ok(v)) => format!("ok:{}", kvh::hex(v.as_bytes())),
        Ok(Err(m)) if m.contains("execution timed out") => "timeout".to_string(),
        Ok(Err(m)) => format!("err:{}", kvh::hex(m.lines().next().unwrap_or("").as_bytes())),
        Err(p) => format!("panic:{}", kvh::hex(p.as_bytes())),
    };
    format!("{}|{}|{}", out, el.as_micros(), wait_us)
}

/// the route names of a run (every helper before and after the limit, whole chains in several
/// orders; in the thorough tier every ordered pair around the limit)
fn route_names(thorough: bool) -> Vec<String> {
    let others: Vec<&str> = SETTINGS_HELPERS.iter().copied().filter(|h| *h != "with_execution_limit").collect();
    let mut v = vec!["chain:with_execution_limit".to_string()];
    for h in &others {
        v.push(format!("chain:with_execution_limit,{}", h));
        v.push(format!("chain:{},with_execution_limit", h));
    }
    let all = others.join(",");
    let rev = others.iter().rev().copied().collect::<Vec<_>>().join(",");
    v.push(format!("chain:with_execution_limit,{}", all));
    v.push(format!("chain:{},with_execution_limit", all));
    v.push(format!("chain:with_execution_limit,{}", rev));
    v.push(format!("chain:{},with_execution_limit", rev));
    let mid = others.len() / 2;
    v.push(format!("chain:{},with_execution_limit,{}", others[..mid].join(","), others[mid..].join(",")));
    if thorough {
        for a in &others {
            for b in &others {
                v.push(format!("chain:{},with_execution_limit,{}", a, b));
                v.push(format!("chain:with_execution_limit,{},{}", a, b));
            }
        }
    }
    for r in ["literal", "literal-no-tests", "vm-direct", "compile-then-run", "args-path", "args-no-type-checks", "args-export-top-level",
              "exported-function", "call-function", "main", "test", "value-to-string", "second-run"] {
        v.push(r.to_string());
    }
    v
}

/// `pub fn <name>(self …` inside `impl KotoSettings { … }` of the koto crate's source
fn settings_helpers_in_source() -> Option<Vec<String>> {
    let repo = std::env::var("KOTO_REPO").unwrap_or("/repo".into());
    let src = std::fs::read_to_string(format!("{}/crates/koto/src/koto.rs", repo)).ok()?;
    let start = src.find("impl KotoSettings {")?;
    let end = src[start..].find("impl Default for KotoSettings").map(|e| start + e).unwrap_or(src.len());
    let body = &src[start..end];
    let mut v = vec![];
    let mut rest = body;
    while let Some(i) = rest.find("pub fn ") {
        let after = &rest[i + 7..];
        let name: String = after.chars().take_while(|c| c.is_alphanumeric() || *c == '_').collect();
        let sig_end = after.find('{').unwrap_or(after.len());
        if after[..sig_end].contains("self") {
            v.push(name);
        }
        rest = &after[1..];
    }
    Some(v)
}

/// `h4 <limit_ms> <max_calls> <work_per_call>` → `c,t,i,to,tp;…`
fn worker_h4(limit_ms: u64, max_calls: usize, work: usize) -> String {
    let snaps = koto_runtime::verif_timeout_probe(Duration::from_millis(limit_ms), max_calls, work);
    snaps
        .iter()
        .map(|s| format!("{},{},{},{},{}", s.0, s.1, s.2, s.3 as u8, s.4))
        .collect::<Vec<_>>()
        .join(";")
}

fn worker_main() {
    kvh::quiet_panics();
    kvh::worker::serve(|l| {
        let f: Vec<&str> = l.split(' ').collect();
        match f.as_slice() {
            ["run", lim, hexs] => {
                let src = String::from_utf8(kvh::unhex(hexs).unwrap_or_default()).unwrap_or_default();
                worker_run(parse_limit(lim), &src, None)
            }
            ["run", lim, hexs, path] => {
                let src = String::from_utf8(kvh::unhex(hexs).unwrap_or_default()).unwrap_or_default();
                let path = String::from_utf8(kvh::unhex(path).unwrap_or_default()).unwrap_or_default();
                worker_run(parse_limit(lim), &src, Some(&path))
            }
            ["h4", lim, maxc, work] => worker_h4(lim.parse().unwrap(), maxc.parse().unwrap(), work.parse().unwrap()),
            ["rate"] => (if cfg!(debug_assertions) { "debug" } else { "release" }).to_string(),
            ["route", name, lim] => worker_route(name, lim.parse().unwrap_or(30)),
            _ => "bad-request".to_string(),
        }
    });
}

// ------------------------------------------------------------------------------------------------
// script shapes
// ------------------------------------------------------------------------------------------------

#[derive(Clone, Copy, PartialEq, Eq, Debug)]
enum Layer {
    // handlers
    Try,
    TryRetry,
    // new frame, same interpreter entry (no execution barrier)
    Fn,
    FnArgs,
    Method,
    MetaCall,
    MetaIndex,
    MetaNegate,
    MetaLess,
    MetaEqual,
    MetaIterator,
    // new interpreter entry (execution barrier / own VM): started by native code
    OpAdd,
    OpSub,
    OpMul,
    DerivedGe,
    DerivedNe,
    Display,
    Each,
    Keep,
    Fold,
    Any,
    Find,
    Transform,
    GenFor,
    GenNext,
    MetaNext,
    /// `@iterator` reached through the public `make_iterator` (native `iterator.count`), which runs
    /// it with `run_unary_op` in a nested entry — unlike `for`, which pushes a plain frame
    MetaIteratorNative,
    /// the inner block is the top level of a module file; `import` runs it with `Vm::run` (nested entry)
    Import,
    /// `@display` of an ELEMENT of a container that is interpolated / debug-printed: `run_display` /
    /// `run_debug_op` render the container natively, the element's `@display` runs in a nested entry
    /// of a spawned VM (before 5d8bf61 / 9cbdb4e its error was replaced by a string error: F-C08-4)
    DisplayInList,
    DisplayInMap,
    DebugInTuple,
    /// `@next` consumed by a native consumer (`iterator.count`) instead of `for`
    MetaNextNative,
    /// `@<` called by `list.sort` for every comparison (value_sort.rs: after the first error the
    /// remaining comparisons must be skipped, or the timeout arrives #comparisons × limit late)
    SortLess,
    /// key function of `list.sort`
    SortKey,
    // consumers that IGNORE the values they pull (`for _ in …`, `_` positions of an unpacking,
    // `consume()`): the VM takes other paths for them (no result register, IterNextQuiet); an error
    // coming out of the iterator's step — a timeout included — must not be dropped with the value
    GenForIgnore,
    GenUnpackIgnore,
    GenConsume,
    EachForIgnore,
    EachUnpackIgnore,
    EachConsume,
    KeepForIgnore,
    MetaNextForIgnore,
    MetaNextUnpackIgnore,
}

const SAME_ENTRY: &[Layer] = &[
    Layer::Fn,
    Layer::FnArgs,
    Layer::Method,
    Layer::MetaCall,
    Layer::MetaIndex,
    Layer::MetaNegate,
    Layer::MetaLess,
    Layer::MetaEqual,
    Layer::MetaIterator,
];
const NESTED_ENTRY: &[Layer] = &[
    Layer::OpAdd,
    Layer::OpSub,
    Layer::OpMul,
    Layer::DerivedGe,
    Layer::DerivedNe,
    Layer::Display,
    Layer::Each,
    Layer::Keep,
    Layer::Fold,
    Layer::Any,
    Layer::Find,
    Layer::Transform,
    Layer::GenFor,
    Layer::GenNext,
    Layer::MetaNext,
    Layer::MetaIteratorNative,
    Layer::Import,
    Layer::DisplayInList,
    Layer::DisplayInMap,
    Layer::DebugInTuple,
    Layer::MetaNextNative,
    Layer::SortLess,
    Layer::SortKey,
    Layer::GenForIgnore,
    Layer::GenUnpackIgnore,
    Layer::GenConsume,
    Layer::EachForIgnore,
    Layer::EachUnpackIgnore,
    Layer::EachConsume,
    Layer::KeepForIgnore,
    Layer::MetaNextForIgnore,
    Layer::MetaNextUnpackIgnore,
];

impl Layer {
    fn is_handler(self) -> bool {
        matches!(self, Layer::Try | Layer::TryRetry)
    }
    fn is_nested(self) -> bool {
        NESTED_ENTRY.contains(&self)
    }
    /// frame code of the model request: 0 plain frame, 1 entry boundary
    fn frame_code(self) -> u8 {
        self.is_nested() as u8
    }
    fn name(self) -> String {
        format!("{:?}", self)
    }
}

#[derive(Clone, Copy, PartialEq, Eq, Debug)]
enum Spin {
    Loop,
    WhileTrue,
    UntilFalse,
    ForEndlessGen,
    ForRepeat,
    MutualCalls,
    LoopHelper,
    LoopMethod,
    LoopThrowCatch,
    NestedLoops,
    /// unbounded Koto-level recursion (frames live on the heap; the native stack is not involved)
    Recursion,
    /// … with an argument and work pending in every frame
    RecursionPending,
    // self-recursion through ONE overloadable entry whose frame is pushed directly by the operator's
    // instruction (same interpreter entry): no loop, no backwards jump, no Call instruction — every
    // instruction has to be a polling point. The depth is capped (SELF_CAP) so that a poller that
    // misses these frames lets the script run to its end (≈ 0.3 s, `ok`) instead of exhausting the
    // memory; they run at limits ≤ 20 ms, a small fraction of the uncapped running time.
    SelfNegate,
    SelfLess,
    SelfEqual,
    SelfIndex,
    SelfCall,
    SelfIterator,
}

const SELF_SPINS: &[Spin] = &[Spin::SelfNegate, Spin::SelfLess, Spin::SelfEqual, Spin::SelfIndex, Spin::SelfCall, Spin::SelfIterator];
/// depth cap of the self-recursion spins (uncapped running time ≈ 0.3 s in the harness build)
const SELF_CAP: u32 = 400_000;

/// spins whose call stack grows without bound: the time to unwind and to render the trace grows
/// with the depth reached (F-C08-5); kept to limits ≤ 200 ms (≈ 1 GB of frames per second)
const DEEP_SPINS: &[Spin] = &[Spin::Recursion, Spin::RecursionPending];

const SPINS: &[Spin] = &[
    Spin::Loop,
    Spin::WhileTrue,
    Spin::UntilFalse,
    Spin::ForEndlessGen,
    Spin::ForRepeat,
    Spin::MutualCalls,
    Spin::LoopHelper,
    Spin::LoopMethod,
    Spin::LoopThrowCatch,
    Spin::NestedLoops,
    Spin::Recursion,
    Spin::RecursionPending,
    Spin::SelfNegate,
    Spin::SelfLess,
    Spin::SelfEqual,
    Spin::SelfIndex,
    Spin::SelfCall,
    Spin::SelfIterator,
];

/// handler id used for the `try` that a spin itself opens around an ordinary `throw`
const SPIN_HANDLER: usize = 99;

#[derive(Clone, Debug)]
struct Shape {
    layers: Vec<Layer>, // outermost first
    spin: Spin,
    /// None: non-terminating; Some(n): the terminating variant with bound n
    bound: Option<u32>,
}

fn ind(n: usize) -> String {
    "  ".repeat(n)
}

/// the innermost block. Non-terminating when `bound` is None; otherwise counts to the bound and
/// emits the count.
fn render_spin(spin: Spin, bound: Option<u32>, d: usize, out: &mut Vec<String>) {
    let p = ind(d);
    let q = ind(d + 1);
    let r = ind(d + 2);
    let s = ind(d + 3);
    let b = bound.unwrap_or(0);
    let t = bound.is_some();
    match spin {
        Spin::Loop => {
            out.push(format!("{p}i = 0"));
            out.push(format!("{p}loop"));
            out.push(format!("{q}i += 1"));
            if t {
                out.push(format!("{q}if i >= {b}"));
                out.push(format!("{r}break"));
            }
        }
        Spin::WhileTrue => {
            out.push(format!("{p}i = 0"));
            out.push(if t { format!("{p}while i < {b}") } else { format!("{p}while true") });
            out.push(format!("{q}i += 1"));
        }
        Spin::UntilFalse => {
            out.push(format!("{p}i = 0"));
            out.push(if t { format!("{p}until i >= {b}") } else { format!("{p}until false") });
            out.push(format!("{q}i += 1"));
        }
        Spin::ForEndlessGen => {
            out.push(format!("{p}i = 0"));
            out.push(format!("{p}src = ||"));
            out.push(format!("{q}k = 0"));
            out.push(if t { format!("{q}while k < {b}") } else { format!("{q}loop") });
            out.push(format!("{r}k += 1"));
            out.push(format!("{r}yield k"));
            out.push(format!("{p}for sx in src()"));
            out.push(format!("{q}i = sx"));
        }
        Spin::ForRepeat => {
            out.push(format!("{p}i = 0"));
            out.push(if t {
                format!("{p}for sx in iterator.repeat(1, {b})")
            } else {
                format!("{p}for sx in iterator.repeat(1)")
            });
            out.push(format!("{q}i += sx"));
        }
        Spin::MutualCalls => {
            out.push(format!("{p}ping = |n, pong|"));
            out.push(format!("{q}if n > 0 then pong(n - 1, ping) else 1"));
            out.push(format!("{p}pong = |n, ping|"));
            out.push(format!("{q}if n > 0 then ping(n - 1, pong) else 1"));
            out.push(format!("{p}i = 0"));
            out.push(if t { format!("{p}while i < {b}") } else { format!("{p}loop") });
            out.push(format!("{q}i += ping 5, pong"));
        }
        Spin::LoopHelper => {
            out.push(format!("{p}step = |a| a + 1"));
            out.push(format!("{p}i = 0"));
            out.push(if t { format!("{p}while i < {b}") } else { format!("{p}loop") });
            out.push(format!("{q}i = step i"));
        }
        Spin::LoopMethod => {
            out.push(format!("{p}counter ="));
            out.push(format!("{q}n: 0"));
            out.push(format!("{q}inc: || self.n += 1"));
            out.push(format!("{p}i = 0"));
            out.push(if t { format!("{p}while i < {b}") } else { format!("{p}loop") });
            out.push(format!("{q}counter.inc()"));
            out.push(format!("{q}i = counter.n"));
        }
        Spin::LoopThrowCatch => {
            out.push(format!("{p}i = 0"));
            out.push(if t { format!("{p}while i < {b}") } else { format!("{p}loop") });
            out.push(format!("{q}try"));
            out.push(format!("{r}i += 1"));
            out.push(format!("{r}throw 'again'"));
            out.push(format!("{q}catch _"));
            out.push(format!("{r}i += 0"));
        }
        Spin::Recursion => {
            if t {
                out.push(format!("{p}rec = |n| if n > 0 then rec(n - 1) else 7"));
                out.push(format!("{p}i = rec {b}"));
            } else {
                out.push(format!("{p}rec = || rec()"));
                out.push(format!("{p}i = rec()"));
            }
        }
        Spin::RecursionPending => {
            if t {
                out.push(format!("{p}rec = |n| if n > 0 then 1 + rec(n - 1) else 0"));
                out.push(format!("{p}i = rec {b}"));
            } else {
                out.push(format!("{p}rec = |n| 1 + rec(n + 1)"));
                out.push(format!("{p}i = rec 0"));
            }
        }
        Spin::SelfNegate | Spin::SelfLess | Spin::SelfEqual | Spin::SelfIndex | Spin::SelfCall | Spin::SelfIterator => {
            let cap = if t { b } else { SELF_CAP };
            let (key, args, again, done, start): (&str, &str, &str, &str, &str) = match spin {
                Spin::SelfNegate => ("@negate", "||", "-self", "0", "zs = -sx"),
                Spin::SelfLess => ("@<", "|rhs|", "self < rhs", "true", "zs = sx < 1"),
                Spin::SelfEqual => ("@==", "|rhs|", "self == rhs", "true", "zs = sx == 1"),
                Spin::SelfIndex => ("@index", "|ix|", "self[ix]", "0", "zs = sx[0]"),
                Spin::SelfCall => ("@call", "||", "self()", "0", "zs = sx()"),
                _ => ("@iterator", "||", "", "", ""),
            };
            out.push(format!("{p}sx ="));
            out.push(format!("{q}n: 0"));
            out.push(format!("{q}{key}: {args}"));
            out.push(format!("{r}self.n += 1"));
            if spin == Spin::SelfIterator {
                out.push(format!("{r}if self.n < {cap}"));
                out.push(format!("{s}for sq in self"));
                out.push(format!("{s}  ()"));
                out.push(format!("{r}(1, 2)"));
                out.push(format!("{p}for sq in sx"));
                out.push(format!("{q}()"));
            } else {
                out.push(format!("{r}if self.n < {cap} then {again} else {done}"));
                out.push(format!("{p}{start}"));
            }
            out.push(format!("{p}i = sx.n"));
        }
        Spin::NestedLoops => {
            out.push(format!("{p}i = 0"));
            out.push(if t { format!("{p}while i < {b}") } else { format!("{p}loop") });
            out.push(format!("{q}for u in 0..3"));
            out.push(format!("{r}for w in (1, 2)"));
            out.push(format!("{s}i += 0"));
            out.push(format!("{q}i += 1"));
        }
    }
    if t {
        out.push(format!("{p}emit 's', i"));
    }
}

/// Render layers[k..] around the spin at indentation depth d.
fn render(shape: &Shape, k: usize, d: usize, out: &mut Vec<String>, mods: &mut Vec<(String, String)>) {
    if k == shape.layers.len() {
        render_spin(shape.spin, shape.bound, d, out);
        return;
    }
    let p = ind(d);
    let q = ind(d + 1);
    let r = ind(d + 2);
    let id = k;
    match shape.layers[k] {
        Layer::Try => {
            out.push(format!("{p}try"));
            render(shape, k + 1, d + 1, out, mods);
            out.push(format!("{p}catch e{id}"));
            out.push(format!("{q}emit 'h', {id}, e{id}"));
        }
        Layer::TryRetry => {
            out.push(format!("{p}n{id} = 0"));
            out.push(format!("{p}while n{id} < 2"));
            out.push(format!("{q}n{id} += 1"));
            out.push(format!("{q}try"));
            render(shape, k + 1, d + 2, out, mods);
            out.push(format!("{q}catch e{id}"));
            out.push(format!("{r}emit 'h', {id}, e{id}"));
        }
        Layer::Fn => {
            out.push(format!("{p}f{id} = ||"));
            render(shape, k + 1, d + 1, out, mods);
            out.push(format!("{q}{id}"));
            out.push(format!("{p}z{id} = f{id}()"));
        }
        Layer::FnArgs => {
            out.push(format!("{p}c{id} = {id}"));
            out.push(format!("{p}f{id} = |a, b = 2, rest...|"));
            render(shape, k + 1, d + 1, out, mods);
            out.push(format!("{q}a + b + c{id}"));
            out.push(format!("{p}z{id} = f{id} 1, 2, 3, 4"));
        }
        Layer::Method => {
            out.push(format!("{p}o{id} ="));
            out.push(format!("{q}k: {id}"));
            out.push(format!("{q}run: ||"));
            render(shape, k + 1, d + 2, out, mods);
            out.push(format!("{r}self.k"));
            out.push(format!("{p}z{id} = o{id}.run()"));
        }
        Layer::MetaCall
        | Layer::MetaIndex
        | Layer::MetaNegate
        | Layer::MetaLess
        | Layer::MetaEqual
        | Layer::MetaIterator
        | Layer::OpAdd
        | Layer::OpSub
        | Layer::OpMul
        | Layer::DerivedGe
        | Layer::DerivedNe
        | Layer::Display
        | Layer::MetaIteratorNative
        | Layer::DisplayInList
        | Layer::DisplayInMap
        | Layer::DebugInTuple
        | Layer::MetaNextNative
        | Layer::SortLess
        | Layer::MetaNextForIgnore
        | Layer::MetaNextUnpackIgnore
        | Layer::MetaNext => {
            let (key, args, tail, usage): (&str, &str, String, String) = match shape.layers[k] {
                Layer::MetaCall => ("@call", "||", format!("{id}"), format!("z{id} = o{id}()")),
                Layer::MetaIndex => ("@index", "|ix|", format!("{id}"), format!("z{id} = o{id}[0]")),
                Layer::MetaNegate => ("@negate", "||", format!("{id}"), format!("z{id} = -o{id}")),
                Layer::MetaLess => ("@<", "|rhs|", "true".into(), format!("z{id} = o{id} < 1")),
                Layer::MetaEqual => ("@==", "|rhs|", "true".into(), format!("z{id} = o{id} == 1")),
                Layer::MetaIterator => ("@iterator", "||", "(1, 2)".into(), format!("for v{id} in o{id}\n{q}()")),
                Layer::OpAdd => ("@+", "|rhs|", format!("{id}"), format!("z{id} = o{id} + 1")),
                Layer::OpSub => ("@-", "|rhs|", format!("{id}"), format!("z{id} = o{id} - 1")),
                Layer::OpMul => ("@*", "|rhs|", format!("{id}"), format!("z{id} = o{id} * 2")),
                Layer::DerivedGe => ("@<", "|rhs|", "true".into(), format!("z{id} = o{id} >= 1")),
                Layer::DerivedNe => ("@==", "|rhs|", "true".into(), format!("z{id} = o{id} != 1")),
                Layer::Display => ("@display", "||", "'d'".into(), format!("z{id} = \"<{{o{id}}}>\"")),
                Layer::MetaNext => ("@next", "||", "null".into(), format!("for v{id} in o{id}\n{q}()")),
                Layer::MetaIteratorNative => ("@iterator", "||", "(1, 2)".into(), format!("z{id} = iterator.count o{id}")),
                Layer::MetaNextNative => ("@next", "||", "null".into(), format!("z{id} = iterator.count o{id}")),
                Layer::MetaNextForIgnore => ("@next", "||", "null".into(), format!("for _ in o{id}\n{q}()")),
                Layer::MetaNextUnpackIgnore => ("@next", "||", "null".into(), format!("_, u{id} = o{id}")),
                Layer::SortLess => ("@<", "|rhs|", "true".into(), format!("z{id} = [o{id}, o{id}, o{id}, o{id}, o{id}, o{id}].sort()")),
                Layer::DisplayInList => ("@display", "||", "'d'".into(), format!("z{id} = \"<{{[o{id}]}}>\"")),
                Layer::DisplayInMap => ("@display", "||", "'d'".into(), format!("w{id} = {{a: o{id}}}\nz{id} = \"<{{w{id}}}>\"")),
                Layer::DebugInTuple => ("@display", "||", "'d'".into(), format!("z{id} = \"<{{(o{id}, 1):?}}>\"")),
                _ => unreachable!(),
            };
            out.push(format!("{p}o{id} ="));
            out.push(format!("{q}{key}: {args}"));
            render(shape, k + 1, d + 2, out, mods);
            out.push(format!("{r}{tail}"));
            for l in usage.split('\n') {
                out.push(format!("{p}{l}"));
            }
        }
        Layer::EachForIgnore | Layer::KeepForIgnore | Layer::EachUnpackIgnore | Layer::EachConsume => {
            let (head, tail, close): (String, &str, String) = match shape.layers[k] {
                Layer::EachForIgnore => ("for _ in (1, 2).each(|x|".into(), "x", format!(")\n{q}()")),
                Layer::KeepForIgnore => ("for _ in (1, 2).keep(|x|".into(), "true", format!(")\n{q}()")),
                Layer::EachUnpackIgnore => (format!("_, u{id} = (1, 2).each(|x|"), "x", ")".into()),
                Layer::EachConsume => ("(1, 2).each(|x|".into(), "x", ").consume()".into()),
                _ => unreachable!(),
            };
            out.push(format!("{p}{head}"));
            render(shape, k + 1, d + 1, out, mods);
            out.push(format!("{q}{tail}"));
            for l in close.split('\n') {
                out.push(format!("{p}{l}"));
            }
        }
        Layer::Each | Layer::Keep | Layer::Any | Layer::Find | Layer::Transform | Layer::Fold | Layer::SortKey => {
            let (head, tail, close): (String, &str, &str) = match shape.layers[k] {
                Layer::Each => (format!("z{id} = (1,).each(|x|"), "x", ").to_list()"),
                Layer::Keep => (format!("z{id} = (1,).keep(|x|"), "true", ").to_tuple()"),
                Layer::Any => (format!("z{id} = (1,).any(|x|"), "false", ")"),
                Layer::Find => (format!("z{id} = (1,).find(|x|"), "false", ")"),
                Layer::Transform => (format!("z{id} = [1].transform(|x|"), "x", ")"),
                Layer::Fold => (format!("z{id} = (1,).fold(0, |acc, x|"), "acc", ")"),
                Layer::SortKey => (format!("z{id} = [3, 1, 2, 5, 4].sort(|x|"), "x", ")"),
                _ => unreachable!(),
            };
            out.push(format!("{p}{head}"));
            render(shape, k + 1, d + 1, out, mods);
            out.push(format!("{q}{tail}"));
            out.push(format!("{p}{close}"));
        }
        Layer::Import => {
            let mut m = vec!["export c08_leak = 1".to_string()];
            render(shape, k + 1, 0, &mut m, mods);
            m.push(format!("export loaded{id} = {id}"));
            mods.push((format!("m{id}"), m.join("\n") + "\n"));
            out.push(format!("{p}import m{id}"));
        }
        Layer::GenFor | Layer::GenNext | Layer::GenForIgnore | Layer::GenUnpackIgnore | Layer::GenConsume => {
            out.push(format!("{p}g{id} = ||"));
            render(shape, k + 1, d + 1, out, mods);
            out.push(format!("{q}yield {id}"));
            match shape.layers[k] {
                Layer::GenFor => {
                    out.push(format!("{p}for v{id} in g{id}()"));
                    out.push(format!("{q}()"));
                }
                Layer::GenForIgnore => {
                    out.push(format!("{p}for _ in g{id}()"));
                    out.push(format!("{q}()"));
                }
                Layer::GenUnpackIgnore => out.push(format!("{p}_, u{id} = g{id}()")),
                Layer::GenConsume => out.push(format!("{p}g{id}().consume()")),
                _ => out.push(format!("{p}z{id} = g{id}().next()")),
            }
        }
    }
}

/// a generated program: the main script and the module files it imports (name, text)
#[derive(Clone, Debug)]
struct Rendered {
    main: String,
    mods: Vec<(String, String)>,
}

fn rendered(shape: &Shape) -> Rendered {
    let mut out = vec!["export c08_marker = 41".to_string()];
    let mut mods = vec![];
    render(shape, 0, 0, &mut out, &mut mods);
    if shape.bound.is_some() {
        out.push("'done'".to_string());
    }
    Rendered { main: out.join("\n") + "\n", mods }
}

/// the whole program as one text (for keys, samples and replay files): main script, then each
/// module behind a `# ---- module <name>.koto` line
fn script_of(shape: &Shape) -> String {
    let r = rendered(shape);
    let mut s = r.main;
    for (name, text) in r.mods {
        s.push_str(&format!("# ---- module {}.koto\n{}", name, text));
    }
    s
}

/// split the text produced by `script_of` back into main script and modules
fn split_program(text: &str) -> Rendered {
    let mut main = String::new();
    let mut mods: Vec<(String, String)> = vec![];
    for line in text.split_inclusive('\n') {
        if let Some(rest) = line.strip_prefix("# ---- module ") {
            mods.push((rest.trim().trim_end_matches(".koto").to_string(), String::new()));
        } else if let Some(m) = mods.last_mut() {
            m.1.push_str(line);
        } else {
            main.push_str(line);
        }
    }
    Rendered { main, mods }
}

/// Run a program text (see `script_of`): programs with modules are written to a fresh directory
/// under the scratch directory and compiled with that script path, so that `import` finds them.
fn run_program(w: &mut Worker, limit: &str, program: &str, kill_ms: u64) -> RunRes {
    let r = split_program(program);
    if r.mods.is_empty() {
        return run_spec(w, limit, &r.main, None, kill_ms);
    }
    let base = std::env::var("VERIF_SCRATCH").map(std::path::PathBuf::from).unwrap_or_else(|_| std::env::temp_dir());
    static SEQ: AtomicUsize = AtomicUsize::new(0);
    let dir = base.join(format!("c08-prog-{}-{}", std::process::id(), SEQ.fetch_add(1, Ordering::SeqCst)));
    let _ = std::fs::create_dir_all(&dir);
    for (name, text) in &r.mods {
        let _ = std::fs::write(dir.join(format!("{}.koto", name)), text);
    }
    let main_path = dir.join("main.koto");
    let _ = std::fs::write(&main_path, &r.main);
    let res = run_spec(w, limit, &r.main, Some(&main_path.to_string_lossy()), kill_ms);
    let _ = std::fs::remove_dir_all(&dir);
    res
}

/// The abstract call stack at the moment the timeout is detected (top first), as the model's
/// `deliver` request: `(barrier handler…)` per frame.
fn frames_of(shape: &Shape) -> Vec<(u8, Vec<usize>)> {
    // bottom first while building: the main chunk's frame is the outermost entry (Koto::run sets
    // its execution barrier)
    let mut st: Vec<(u8, Vec<usize>)> = vec![(1, vec![])];
    for (k, l) in shape.layers.iter().enumerate() {
        if l.is_handler() {
            st.last_mut().unwrap().1.insert(0, k); // innermost handler first
        } else {
            st.push((l.frame_code(), vec![]));
        }
    }
    if shape.spin == Spin::LoopThrowCatch {
        st.last_mut().unwrap().1.insert(0, SPIN_HANDLER);
    }
    st.reverse();
    st
}

fn deliver_request(shape: &Shape) -> String {
    let fr = frames_of(shape);
    let mut s = String::from("deliver t");
    for (b, hs) in fr {
        s.push_str(&format!(" ({}", b));
        for h in hs {
            s.push_str(&format!(" {}", h));
        }
        s.push(')');
    }
    s
}

/// the shape of the repaired finding F-C08-1 (statistics only): some handler lies below (outside) a
/// nested entry
fn has_handler_below_nested(shape: &Shape) -> bool {
    let mut seen_handler = false;
    for l in &shape.layers {
        if l.is_handler() {
            seen_handler = true;
        } else if l.is_nested() && seen_handler {
            return true;
        }
    }
    false
}

// ------------------------------------------------------------------------------------------------
// running cases
// ------------------------------------------------------------------------------------------------

#[derive(Clone, Debug)]
struct RunOut {
    outcome: String,
    elapsed_us: u64,
    trace: Vec<String>,
    probe: String,
    sizes: Vec<u64>,
    /// `<c08_marker>;<c08_leak>` in the instance's exports after the run
    exports: String,
    /// on-CPU time of the worker thread during the run
    cpu_us: u64,
    /// time the worker thread was runnable but had no CPU during the run (machine overload)
    wait_us: u64,
}

#[derive(Clone, Debug)]
enum RunRes {
    Done(RunOut),
    Killed(u64),
    Died(String),
    /// not run: the sweep was cut short after repeated hangs (each hang costs seconds)
    Skipped,
}

/// number of killed (hung) runs so far; after `MAX_HANGS` the remaining sweep cases are skipped —
/// the violations are already established and every further hang costs several seconds
static HANGS: AtomicUsize = AtomicUsize::new(0);
const MAX_HANGS: usize = 6;

fn parse_run(raw: &str) -> Option<RunOut> {
    let f: Vec<&str> = raw.split('|').collect();
    if f.len() != 7 {
        return None;
    }
    let cw: Vec<u64> = f[5].split(',').filter_map(|x| x.parse().ok()).collect();
    if cw.len() != 2 {
        return None;
    }
    Some(RunOut {
        outcome: f[0].to_string(),
        elapsed_us: f[1].parse().ok()?,
        trace: f[2].split(',').filter(|x| !x.is_empty()).map(|x| x.to_string()).collect(),
        probe: f[3].to_string(),
        sizes: f[4].split(',').filter_map(|x| x.parse().ok()).collect(),
        exports: f[6].to_string(),
        cpu_us: cw[0],
        wait_us: cw[1],
    })
}

fn run_in(w: &mut Worker, limit_ms: u64, script: &str, kill_ms: u64) -> RunRes {
    run_program(w, &limit_ms.to_string(), script, kill_ms)
}

/// `limit`: see `parse_limit`; `path`: script path handed to the compiler (imports resolve next to it)
fn run_spec(w: &mut Worker, limit: &str, script: &str, path: Option<&str>, kill_ms: u64) -> RunRes {
    let mut req = format!("run {} {}", limit, kvh::hex(script.as_bytes()));
    if let Some(p) = path {
        req.push(' ');
        req.push_str(&kvh::hex(p.as_bytes()));
    }
    match w.request(&req, Duration::from_millis(kill_ms)) {
        Reply::Ok(s) => match parse_run(&s) {
            Some(o) => RunRes::Done(o),
            None => RunRes::Died(format!("unparsable worker reply: {}", s)),
        },
        Reply::Timeout => RunRes::Killed(kill_ms),
        Reply::Died(s) => RunRes::Died(s),
    }
}

fn worker_args() -> Vec<String> {
    vec!["--worker".into(), "c08".into()]
}

/// run `jobs` on `n` worker processes; results in job order
fn pool_run<J: Sync, R: Send>(n: usize, jobs: &[J], f: impl Fn(&mut Worker, &J) -> R + Sync) -> Vec<R> {
    let next = AtomicUsize::new(0);
    let results: Mutex<Vec<Option<R>>> = Mutex::new((0..jobs.len()).map(|_| None).collect());
    std::thread::scope(|sc| {
        for _ in 0..n.max(1) {
            sc.spawn(|| {
                let mut w = Worker::spawn(&worker_args());
                loop {
                    let i = next.fetch_add(1, Ordering::SeqCst);
                    if i >= jobs.len() {
                        break;
                    }
                    let r = f(&mut w, &jobs[i]);
                    results.lock().unwrap()[i] = Some(r);
                }
            });
        }
    });
    results.into_inner().unwrap().into_iter().map(|x| x.unwrap()).collect()
}

#[derive(Clone, Debug)]
struct Case {
    shape: Shape,
    limit_ms: u64,
    family: &'static str, // "sweep" | "handler-below-nested-entry" (the shape of the repaired F-C08-1)
}

#[derive(Clone, Debug)]
struct CaseRes {
    first: RunRes,
    retry: Option<RunRes>,
}

/// Late = wall-clock duration, minus the time the kernel reports the thread spent *waiting for a
/// CPU* (run-queue wait: other builds share this machine, load averages of 30 on 16 cores were
/// observed and stall a 200 ms run for a second), exceeds `n_limits · limit + slack`.
fn too_slow(o: &RunOut, limit_ms: u64, n_limits: u64) -> bool {
    o.elapsed_us.saturating_sub(o.wait_us) > (n_limits * limit_ms + slack_ms(limit_ms)) * 1000
}

fn wall_over(o: &RunOut, limit_ms: u64, n_limits: u64) -> bool {
    o.elapsed_us > (n_limits * limit_ms + slack_ms(limit_ms)) * 1000
}

/// how many limit periods a run may legitimately take: 1 when the timeout escapes at once; when the
/// model predicts a swallow the handler may see it several times (retry loop: 2 rounds) and the
/// script may be stopped by a later, non-swallowed timeout — bounded by 4.
fn periods(predicted_caught: bool) -> u64 {
    if predicted_caught { 4 } else { 1 }
}

/// limit periods within which a late timeout of an unbounded-recursion spin is attributed to
/// F-C08-5. Measured: 4.1 × limit for the two-line witness, up to 8.5 × when the recursive call sits
/// deeper in a longer source or in a module (one source excerpt is rendered per popped frame and the
/// renderer scans the source up to the call's line). Later than 20 × limit is a VIOLATION.
const DEEP_PERIODS: u64 = 20;

fn run_case(w: &mut Worker, c: &Case, predicted_caught: bool) -> CaseRes {
    let script = script_of(&c.shape);
    let n = if DEEP_SPINS.contains(&c.shape.spin) { DEEP_PERIODS } else { periods(predicted_caught) };
    let kill = n * c.limit_ms + slack_ms(c.limit_ms) * 3 + 4000;
    if HANGS.load(Ordering::SeqCst) >= MAX_HANGS {
        return CaseRes { first: RunRes::Skipped, retry: None };
    }
    let first = run_in(w, c.limit_ms, &script, kill);
    let need_retry = match &first {
        RunRes::Done(o) => too_slow(o, c.limit_ms, n),
        RunRes::Killed(_) => true,
        RunRes::Died(_) => true,
        RunRes::Skipped => false,
    };
    let retry = if need_retry {
        // pause first: slowness is usually a load burst of concurrent builds on this machine
        std::thread::sleep(Duration::from_millis(500));
        Some(run_in(w, c.limit_ms, &script, kill * 2))
    } else {
        None
    };
    if let Some(RunRes::Killed(_)) = &retry {
        HANGS.fetch_add(1, Ordering::SeqCst);
    }
    CaseRes { first, retry }
}

// ------------------------------------------------------------------------------------------------
// H4 poller traces
// ------------------------------------------------------------------------------------------------

#[derive(Clone, Debug)]
struct Snap {
    calls: u64,
    last: u128,
    interval: u64,
    timed_out: bool,
    probe: u128,
}

/// Call budget for one H4 run: four times what a correct poller can need — the first interval
/// (`rate · limit/10` calls, whatever they cost) plus one call per `(1 + work)` ns of the limit (a
/// call costs more than that) — so that a poller that stopped reading the clock returns after about
/// four times the legitimate duration instead of hanging.
fn h4_max_calls(rate: f64, limit_ms: u64, work: usize) -> usize {
    let limit_ns = limit_ms as usize * 1_000_000;
    let i0 = (rate * (limit_ms as f64 / 10_000.0)).min(FIRST_INTERVAL_CAP) as usize;
    4 * (i0 + 1 + limit_ns / (1 + work)) + 1000
}

fn parse_h4(s: &str) -> Option<Vec<Snap>> {
    let mut v = vec![];
    for part in s.split(';') {
        let f: Vec<&str> = part.split(',').collect();
        if f.len() != 5 {
            return None;
        }
        v.push(Snap {
            calls: f[0].parse().ok()?,
            last: f[1].parse().ok()?,
            interval: f[2].parse().ok()?,
            timed_out: f[3] == "1",
            probe: f[4].parse().ok()?,
        });
    }
    Some(v)
}

/// model request for an observed trace: clock readings of the clock-reading polls; for the final
/// (timed-out) poll the reading taken by the probe right after the call (the poller's own reading
/// is not stored on a timeout; it lies between the deadline and this value).
fn trace_request(rate_bits: u64, limit_ns: u128, snaps: &[Snap]) -> String {
    let mut s = format!("trace {:016x} {:016x} {} {}", rate_bits, FIRST_INTERVAL_CAP.to_bits(), MAX_INTERVAL, limit_ns);
    for sn in &snaps[1..] {
        s.push_str(&format!(" {}", if sn.timed_out { sn.probe } else { sn.last }));
    }
    s
}

fn impl_trace_canon(snaps: &[Snap]) -> String {
    let mut s = format!("{}", snaps[0].interval);
    for sn in &snaps[1..] {
        s.push_str(&format!(" ({} {} {} {} 1)", sn.calls, sn.last, sn.interval, sn.timed_out as u8));
    }
    s
}

// ------------------------------------------------------------------------------------------------
// main
// ------------------------------------------------------------------------------------------------

struct Ctx {
    rep: Report,
    drv: Driver,
    open: Vec<String>,
    known_counts: std::collections::BTreeMap<String, u64>,
    k_fail: u64,
    d_fail: u64,
}

impl Ctx {
    fn is_open(&self, id: &str) -> bool {
        self.open.iter().any(|x| x == id)
    }
    fn viol_d(&mut self, name: &str, detail: Value) {
        self.d_fail += 1;
        if self.d_fail <= 8 {
            self.rep.violation("D", name, detail);
        }
    }
    fn viol_k(&mut self, name: &str, detail: Value) {
        self.k_fail += 1;
        if self.k_fail <= 8 {
            self.rep.violation("K", name, detail);
        }
    }
}

fn res_json(r: &RunRes) -> Value {
    match r {
        RunRes::Done(o) => json!({"outcome": o.outcome, "elapsed_us": o.elapsed_us, "cpu_us": o.cpu_us, "runqueue_wait_us": o.wait_us, "exports": o.exports, "trace": o.trace, "probe": o.probe, "sizes": o.sizes}),
        RunRes::Killed(ms) => json!({"killed_after_ms": ms}),
        RunRes::Died(s) => json!({"worker_died": s}),
        RunRes::Skipped => json!({"skipped": "sweep cut short after repeated hangs"}),
    }
}

/// Evaluate one non-terminating case: (K2) prediction vs observation, (D2) the property.
fn judge(cx: &mut Ctx, c: &Case, prediction: &str, res: &CaseRes) {
    let script = script_of(&c.shape);
    let layers: Vec<String> = c.shape.layers.iter().map(|l| l.name()).collect();
    let predicted_caught = prediction.starts_with("caught");
    let pred_handler: Option<usize> = prediction.split(' ').nth(1).and_then(|x| x.parse().ok());
    let key = format!("{} limit={} {}", deliver_request(&c.shape), c.limit_ms, script);
    cx.rep.case(&key, !c.shape.layers.is_empty());
    cx.rep.bump(&format!("family={}", c.family));
    cx.rep.bump(&format!("limit_ms={}", c.limit_ms));
    cx.rep.bump(&format!("spin={:?}", c.shape.spin));
    cx.rep.bump(&format!("depth={}", c.shape.layers.len()));
    let predicted_other = prediction == "escaped other";
    cx.rep.bump(&format!("predicted={}", if predicted_caught { "caught" } else if predicted_other { "escaped-as-string-error" } else { "escaped-timeout" }));
    for l in &c.shape.layers {
        cx.rep.bump(&format!("layer={}", l.name()));
    }
    let n_handlers = c.shape.layers.iter().filter(|l| l.is_handler()).count();
    cx.rep.bump(&format!("handlers={}", n_handlers));
    let detail = |extra: Value| {
        json!({"script": script, "script_hex": kvh::hex(script.as_bytes()), "limit_ms": c.limit_ms,
               "layers": layers, "spin": format!("{:?}", c.shape.spin), "model_request": deliver_request(&c.shape),
               "model_prediction": prediction, "first_run": res_json(&res.first),
               "retry": res.retry.as_ref().map(res_json), "slack_ms": slack_ms(c.limit_ms), "info": extra})
    };
    // the run that counts: the retry if there was one
    let used = res.retry.as_ref().unwrap_or(&res.first);
    if res.retry.is_some() {
        cx.rep.bump("retried_slow_case");
    }
    let o = match used {
        RunRes::Done(o) => o.clone(),
        RunRes::Killed(ms) => {
            cx.viol_d("C08:no-timeout", detail(json!({"what": format!("the script was still running {} ms after start (limit {} ms): killed", ms, c.limit_ms)})));
            return;
        }
        RunRes::Died(s) => {
            cx.viol_d("C08:worker-died", detail(json!({"what": format!("the worker process died: {}", s)})));
            return;
        }
        RunRes::Skipped => {
            cx.rep.bump("skipped_after_repeated_hangs");
            return;
        }
    };
    if cx.rep.samples.len() < 6 && (cx.rep.evaluations % 7 == 3) {
        cx.rep.sample(json!({"script": script, "limit_ms": c.limit_ms, "model_request": deliver_request(&c.shape),
                             "model": prediction, "impl": {"outcome": o.outcome, "elapsed_us": o.elapsed_us, "handler_trace": o.trace, "probe": o.probe}}));
    }
    // runtime usable afterwards
    if o.probe != PROBE_EXPECT {
        cx.viol_d("C08:runtime-unusable", detail(json!({"what": "probe script after the run gave a wrong result", "expected": PROBE_EXPECT})));
    }
    if o.sizes.len() == 5 && (o.sizes[0] != 0 || o.sizes[1] != 0 || o.sizes[4] != 0) {
        cx.viol_d("C08:vm-stacks-not-empty", detail(json!({"what": "registers / call stack / register base not reset after the run"})));
    }
    if o.sizes.len() == 5 && (o.sizes[2] != 0 || o.sizes[3] != 0) {
        cx.rep.bump("builder_residue_after_run(C07 finding, not counted here)");
    }
    if o.exports != "i41;none" {
        cx.viol_d("C08:exports-not-restored", detail(json!({"what": "after the run the instance's exports are not those of the main script: the marker exported first is missing or an export of an imported module leaked (run_import swaps the exports and has to swap them back on every exit path, timeout included)", "exports_marker_and_leak": o.exports})));
    }
    // emit 'h', <id>, <caught value>  →  "sx68:i<id>:<canonical value>"
    let handler_events: Vec<(usize, String)> = o
        .trace
        .iter()
        .filter_map(|t| t.strip_prefix("sx68:i"))
        .filter_map(|x| {
            let (id, val) = x.split_once(':').unwrap_or((x, ""));
            let text = val.strip_prefix('s').and_then(kvh::unhex).map(|b| String::from_utf8_lossy(&b).to_string()).unwrap_or(val.to_string());
            id.parse().ok().map(|i| (i, text))
        })
        .collect();
    let handlers_seen: Vec<usize> = handler_events.iter().map(|e| e.0).collect();
    // the error the host received, if it is not the timeout error
    let host_err_text = o.outcome.strip_prefix("err:").and_then(kvh::unhex).map(|b| String::from_utf8_lossy(&b).to_string());
    let mut swallowed = !handlers_seen.is_empty() || o.outcome != "timeout";
    if predicted_other {
        // the model says: no handler runs, but a native on the way (run_display / run_debug_op) replaced
        // the timeout by its string error, which is what the host receives
        let as_predicted = handlers_seen.is_empty() && host_err_text.as_deref().is_some_and(|t| t.starts_with("failed to get display value"));
        if !as_predicted {
            cx.viol_k(
                "K:C08:Model.Timeout.deliver",
                detail(json!({"what": "the model predicts that the host receives the string error of a stringifying native instead of the timeout error (stringified_reaches_host_as_other_witness); the implementation did something else", "handlers_seen": handlers_seen, "host_error": host_err_text})),
            );
            return;
        }
        // model and code agree; the property (a timeout error is returned) is violated
        {
            cx.viol_d("C08:timeout-kind-lost", detail(json!({"what": "the run was stopped by the limit but the host received a different error than the timeout error", "host_error": host_err_text})));
        }
        swallowed = false; // timing is judged below like for any delivered timeout
    }
    if !predicted_caught {
        if swallowed {
            cx.viol_d(
                "C08:timeout-swallowed",
                detail(json!({"what": "a catch handler saw the timeout (or the script ended without the timeout error) although no handler lies below the detecting interpreter entry; Props/C08 not_catchable_same_entry / not_catchable_partial predict `escaped`",
                              "handlers_seen": handlers_seen})),
            );
            return;
        }
        // timing
        if o.elapsed_us < c.limit_ms * 1000 {
            cx.viol_d("C08:early-timeout", detail(json!({"what": "timeout error returned before the limit had elapsed (never_early)"})));
        }
        let deep = DEEP_SPINS.contains(&c.shape.spin);
        if too_slow(&o, c.limit_ms, 1) && deep && cx.is_open("F-C08-5") && !too_slow(&o, c.limit_ms, DEEP_PERIODS) {
            // cause rule of F-C08-5: unbounded recursion, timeout delivered, late by the time it takes
            // to unwind and render one trace entry per frame
            *cx.known_counts.entry("F-C08-5".into()).or_insert(0) += 1;
        } else if too_slow(&o, c.limit_ms, 1) {
            cx.viol_d("C08:late-timeout", detail(json!({"what": format!("timeout error returned later than limit + slack = {} ms (twice; run-queue wait already subtracted)", c.limit_ms + slack_ms(c.limit_ms))})));
        } else if wall_over(&o, c.limit_ms, 1) {
            cx.rep.bump("wall_over_limit_plus_slack_explained_by_runqueue_wait(machine overload)");
        }
        let over = o.elapsed_us.saturating_sub(c.limit_ms * 1000);
        let bucket = if over < 1000 { "<1ms" } else if over < 10_000 { "<10ms" } else if over < 50_000 { "<50ms" } else { ">=50ms" };
        cx.rep.bump(&format!("overshoot{}", bucket));
    } else {
        // the model says: swallowed by `pred_handler`
        if !swallowed {
            cx.viol_k(
                "K:C08:Model.Timeout.deliver",
                detail(json!({"what": "the model predicts that a handler below the detecting entry catches the timeout (catchable_nested), the implementation returned the timeout error: the delivery model no longer mirrors execute_instructions/pop_call_stack_on_error"})),
            );
            return;
        }
        let first_ok = handlers_seen.first().copied() == pred_handler;
        let all_same = handlers_seen.iter().all(|h| Some(*h) == pred_handler);
        if !first_ok || !all_same {
            cx.viol_k(
                "K:C08:Model.Timeout.deliver",
                detail(json!({"what": "the timeout was swallowed by a different handler than the model predicts", "handlers_seen": handlers_seen})),
            );
            return;
        }
        // model and code agree that a handler catches the timeout: the property is violated on this
        // input (no such prediction exists since not_catchable_nested holds for every stack)
        {
            cx.viol_d(
                "C08:timeout-swallowed",
                detail(json!({"what": "timeout detected in a nested interpreter entry was caught by a try/catch of an enclosing entry", "handlers_seen": handlers_seen})),
            );
        }
        if too_slow(&o, c.limit_ms, periods(true)) {
            cx.viol_d("C08:late-timeout", detail(json!({"what": "swallowing script took longer than 4 limits + slack"})));
        }
    }
}

fn gen_cases(rng: &mut Rng, thorough: bool) -> Vec<Case> {
    let quick_limits: &[u64] = &[20, 50, 200];
    let all_limits: &[u64] = &[20, 50, 200, 1000];
    let mut cases = vec![];
    let mut li = rng.below(3);
    let mut next_limit = |cases_len: usize| -> u64 {
        li += 1;
        let _ = cases_len;
        quick_limits[li % quick_limits.len()]
    };
    let push = |cases: &mut Vec<Case>, layers: Vec<Layer>, spin: Spin, limit: u64| {
        let shape = Shape { layers, spin, bound: None };
        let family = if has_handler_below_nested(&shape) {
            "handler-below-nested-entry"
        } else {
            "sweep"
        };
        // unbounded recursion allocates ≈ 1 GB of frames per second: short limits only
        let limit = if SELF_SPINS.contains(&spin) {
            limit.min(20)
        } else if DEEP_SPINS.contains(&spin) {
            limit.min(200)
        } else {
            limit
        };
        cases.push(Case { shape, limit_ms: limit, family });
    };
    let wrappers: Vec<Layer> = SAME_ENTRY.iter().chain(NESTED_ENTRY.iter()).copied().collect();
    if thorough {
        // full grid: every spin bare and under try; every wrapper × every spin with a try inside the
        // wrapper (handler in the detecting entry) at every limit
        for &sp in SPINS {
            for &lim in all_limits {
                push(&mut cases, vec![], sp, lim);
                push(&mut cases, vec![Layer::Try], sp, lim);
            }
            push(&mut cases, vec![Layer::TryRetry], sp, 50);
        }
        for (wi, &w) in wrappers.iter().enumerate() {
            for (si, &sp) in SPINS.iter().enumerate() {
                let lim = all_limits[(wi + si) % 4];
                push(&mut cases, vec![w, Layer::Try], sp, lim);
                if !w.is_nested() {
                    push(&mut cases, vec![Layer::Try, w, Layer::Try], sp, all_limits[(wi + si + 1) % 3]);
                }
            }
        }
    } else {
        for &sp in SPINS {
            let l = next_limit(cases.len());
            push(&mut cases, vec![], sp, l);
            let l = next_limit(cases.len());
            push(&mut cases, vec![Layer::Try], sp, l);
        }
        push(&mut cases, vec![Layer::TryRetry], *rng.pick(SPINS), 20);
        for &w in &wrappers {
            let sp = *rng.pick(SPINS);
            let l = next_limit(cases.len());
            // handler inside the wrapper's function: it belongs to the detecting entry
            push(&mut cases, vec![w, Layer::Try], sp, l);
            if !w.is_nested() {
                let sp = *rng.pick(SPINS);
                let l = next_limit(cases.len());
                push(&mut cases, vec![Layer::Try, w], sp, l);
            }
        }
    }
    // random compositions (since the repair of F-C08-1 nothing is filtered out: handlers may lie
    // anywhere relative to nested entries)
    let n_random = if thorough { 1000 } else { 24 };
    let mut made = 0;
    let mut attempts = 0;
    while made < n_random && attempts < 10000 {
        attempts += 1;
        let depth = 2 + rng.below(4);
        let mut layers = vec![];
        for _ in 0..depth {
            let l = match rng.weighted(&[3, 1, 4, 4]) {
                0 => Layer::Try,
                1 => Layer::TryRetry,
                2 => *rng.pick(SAME_ENTRY),
                _ => *rng.pick(NESTED_ENTRY),
            };
            layers.push(l);
        }
        let shape = Shape { layers: layers.clone(), spin: *rng.pick(SPINS), bound: None };
        if layers.iter().filter(|l| **l == Layer::TryRetry).count() > 1 {
            continue;
        }
        let lim = if thorough { *rng.pick(all_limits) } else { *rng.pick(quick_limits) };
        push(&mut cases, layers, shape.spin, lim);
        made += 1;
    }
    // the former witness family of F-C08-1 (repaired in 5a7e832): a handler below a nested entry —
    // the model now predicts `escaped` (not_catchable_nested); a swallowed timeout is a VIOLATION
    let fam_limit = 20;
    for (i, &w) in NESTED_ENTRY.iter().enumerate() {
        let sp = SPINS[i % SPINS.len()];
        push(&mut cases, vec![Layer::Try, w], sp, fam_limit);
        if thorough {
            push(&mut cases, vec![Layer::Try, Layer::Fn, w, Layer::Try], sp, fam_limit);
            push(&mut cases, vec![Layer::TryRetry, w], sp, fam_limit);
            push(&mut cases, vec![Layer::Try, w], sp, 200);
        }
    }
    push(&mut cases, vec![Layer::Try, Layer::Fn, Layer::Each, Layer::Try], Spin::Loop, fam_limit);
    push(&mut cases, vec![Layer::TryRetry, Layer::Each], Spin::WhileTrue, fam_limit);
    push(&mut cases, vec![Layer::Each, Layer::Try, Layer::OpAdd, Layer::Try], Spin::Loop, fam_limit);
    push(&mut cases, vec![Layer::Try, Layer::GenFor, Layer::Method, Layer::Keep], Spin::UntilFalse, fam_limit);
    push(&mut cases, vec![Layer::Method, Layer::Try, Layer::Display], Spin::LoopHelper, 50);
    // display of a container with a spinning element: the former witness family of F-C08-4 (fixed in
    // 5d8bf61 / 9cbdb4e), ordinary cases predicted `escaped timeout`
    push(&mut cases, vec![Layer::Try, Layer::DisplayInList], Spin::Loop, fam_limit);
    push(&mut cases, vec![Layer::Try, Layer::DisplayInMap], Spin::WhileTrue, fam_limit);
    push(&mut cases, vec![Layer::Try, Layer::DebugInTuple], Spin::UntilFalse, fam_limit);
    push(&mut cases, vec![Layer::Try, Layer::Fn, Layer::DebugInTuple, Layer::Try], Spin::LoopHelper, fam_limit);
    push(&mut cases, vec![Layer::TryRetry, Layer::DisplayInMap], Spin::MutualCalls, fam_limit);
    push(&mut cases, vec![Layer::Each, Layer::Try, Layer::DisplayInList, Layer::OpAdd], Spin::Loop, fam_limit);
    push(&mut cases, vec![Layer::Try, Layer::Import, Layer::DisplayInList], Spin::ForRepeat, fam_limit);
    // unbounded recursion under handlers at every level and across nested entries
    push(&mut cases, vec![Layer::Try], Spin::Recursion, 200);
    push(&mut cases, vec![Layer::Try, Layer::Each, Layer::Try], Spin::RecursionPending, 50);
    push(&mut cases, vec![Layer::TryRetry, Layer::Fn], Spin::Recursion, fam_limit);
    cases
}

fn file_cases(dir: &std::path::Path) -> Vec<(String, String, u64, String)> {
    // corpus files: first lines `# limit_ms: N` and `# expect: timeout|late` (`late` = witness of
    // F-C08-2; `swallowed` was the witness kind of the repaired F-C08-1); modules follow the main
    // script behind `# ---- module <name>.koto` lines
    let mut v = vec![];
    if let Ok(rd) = std::fs::read_dir(dir) {
        let mut ps: Vec<_> = rd.filter_map(|e| e.ok()).map(|e| e.path()).collect();
        ps.sort();
        for p in ps {
            if p.extension().is_some_and(|e| e == "koto") {
                if let Ok(s) = std::fs::read_to_string(&p) {
                    let mut limit = 50u64;
                    let mut expect = "timeout".to_string();
                    for l in s.lines() {
                        if let Some(x) = l.strip_prefix("# limit_ms:") {
                            limit = x.trim().parse().unwrap_or(50);
                        }
                        if let Some(x) = l.strip_prefix("# expect:") {
                            expect = x.trim().to_string();
                        }
                    }
                    v.push((p.file_name().unwrap().to_string_lossy().to_string(), s, limit, expect));
                }
            }
        }
    }
    v
}

fn main() {
    if std::env::args().nth(1).as_deref() == Some("--worker") {
        worker_main();
        return;
    }
    kvh::quiet_panics();
    // debugging aid: `c08 --probe-file <file with scripts separated by a line "---"> <limit_ms> [kill_ms]`
    if std::env::args().nth(1).as_deref() == Some("--probe-file") {
        let a: Vec<String> = std::env::args().collect();
        let src = std::fs::read_to_string(&a[2]).expect("script file");
        let lim: String = a.get(3).cloned().unwrap_or("50".into());
        let kill: u64 = a.get(4).and_then(|x| x.parse().ok()).unwrap_or(10_000);
        let mut w = Worker::spawn(&worker_args());
        for part in src.split("\n---\n") {
            let r = run_spec(&mut w, &lim, part, std::env::var("C08_SCRIPT_PATH").ok().as_deref(), kill);
            println!("=== {}\n--> {}", part.trim_end(), res_json(&r));
        }
        return;
    }
    let args = Args::parse();
    let mut rep = Report::new("C08", &args);
    rep.rule = "cases: (a) poller traces from hook H4 (one case = one limit × work-per-call run; key = the observed clock readings) replayed through the model; (b) generated non-terminating scripts = stack of wrapper layers (try/catch, retry loops, functions, methods, meta-operators, iterator-adaptor callbacks, generators) around a spin kind, × limit; key = model request + limit + script text; non-trivial = at least one wrapper layer (for traces: at least 2 clock reads); (c) terminating variants compared with and without a limit".into();
    let open: Vec<String> = rep
        .known_open()
        .iter()
        .filter_map(|e| e.get("id").and_then(|x| x.as_str()).map(|s| s.to_string()))
        .collect();
    let drv = Driver::spawn(&args.driver);
    let mut cx = Ctx { rep, drv, open, known_counts: Default::default(), k_fail: 0, d_fail: 0 };
    let thorough = args.thorough();
    let mut rng = Rng::new(args.seed);

    // ---- replay of a recorded violation --------------------------------------------------------
    if let Some(p) = &args.replay {
        let v: Value = serde_json::from_str(&std::fs::read_to_string(p).expect("replay file")).unwrap();
        let d = &v["detail"];
        if let Some(hexs) = d["script_hex"].as_str() {
            let script = String::from_utf8(kvh::unhex(hexs).unwrap()).unwrap();
            let limit = d["limit_ms"].as_u64().unwrap_or(50);
            let mut w = Worker::spawn(&worker_args());
            let r = run_in(&mut w, limit, &script, 8 * limit + 10_000);
            println!("script:\n{}", script);
            println!("limit_ms: {}  slack_ms: {} (late = elapsed - runqueue_wait > limit + slack)", limit, slack_ms(limit));
            if let Some(req) = d["model_request"].as_str() {
                println!("model: {} -> {}", req, cx.drv.ask(req));
            }
            println!("impl : {}", res_json(&r));
            let bad = match &r {
                RunRes::Done(o) => o.outcome != "timeout" || !o.trace.is_empty() || too_slow(o, limit, 1) || o.probe != PROBE_EXPECT,
                _ => true,
            };
            if bad {
                cx.rep.violation("D", "C08:replay", json!({"script": script, "script_hex": hexs, "limit_ms": limit, "result": res_json(&r)}));
            }
        } else if let Some(route) = d["route"].as_str() {
            let limit = d["limit_ms"].as_u64().unwrap_or(30);
            let mut w = Worker::spawn(&worker_args());
            let r = w.request(&format!("route {} {}", route, limit), Duration::from_millis(limit + 5000));
            let txt = match &r {
                Reply::Ok(s) => s.clone(),
                Reply::Timeout => "killed: still running 5 s after the limit".to_string(),
                Reply::Died(s) => format!("worker died {}", s),
            };
            println!("route {} limit_ms {} -> {}", route, limit, txt);
            if !txt.starts_with("timeout|") {
                cx.rep.violation("D", "C08:limit-not-in-force", json!({"route": route, "limit_ms": limit, "worker_reply": txt}));
            }
        } else if let Some(req) = d["trace_request"].as_str() {
            let model = cx.drv.ask(req);
            let imp = d["impl_trace"].as_str().unwrap_or("").to_string();
            println!("model: {}", model);
            println!("impl : {}", imp);
            // and a fresh trace of the current build for the same limit / work
            if let (Some(l), Some(work)) = (d["limit_ms"].as_u64(), d["work_per_call"].as_u64()) {
                let mut w = Worker::spawn(&worker_args());
                if let Reply::Ok(sn) = w.request(&format!("h4 {} {} {}", l, h4_max_calls(RATE_DEBUG, l, work as usize), work), Duration::from_millis(l * 30 + 20_000)) {
                    if let Some(snaps) = parse_h4(&sn) {
                        let req2 = trace_request(RATE_DEBUG.to_bits(), (l as u128) * 1_000_000, &snaps);
                        let m2 = cx.drv.ask(&req2);
                        let i2 = impl_trace_canon(&snaps);
                        println!("fresh impl : {}", i2);
                        println!("fresh model: {}", m2);
                        if m2 != i2 {
                            cx.rep.violation("K", "K:C08:Model.Timeout.check", json!({"trace_request": req2, "impl_trace": i2, "model_trace": m2, "limit_ms": l, "work_per_call": work}));
                        }
                    }
                }
            } else if model != imp {
                cx.rep.violation("K", "K:C08:Model.Timeout.check", json!({"trace_request": req, "impl_trace": imp, "model_trace": model}));
            }
        }
        std::process::exit(cx.rep.finish());
    }

    let n_workers = if thorough { 4 } else { 3 };

    // ---- which first-interval constant does this build of koto_runtime use? ----------------------
    let rate = {
        let mut w = Worker::spawn(&worker_args());
        match w.request("rate", Duration::from_secs(20)) {
            Reply::Ok(s) if s == "release" => RATE_RELEASE,
            _ => RATE_DEBUG,
        }
    };
    cx.rep.extra.insert("first_interval_rate".into(), json!(rate));

    // ---- (K1) poller traces through hook H4 -----------------------------------------------------
    {
        let limits: &[u64] = &[20, 50, 200, 1000];
        let mut jobs: Vec<(u64, usize)> = vec![];
        for &l in limits {
            let mut works: Vec<usize> = vec![0, 8, 64];
            works.push(1 + rng.below(40));
            works.push(100 + rng.below(1900));
            if thorough {
                works.extend([1, 2, 3, 16, 256, 1024, 4096]);
                for _ in 0..6 {
                    works.push(rng.below(3000));
                }
            }
            for w in works {
                jobs.push((l, w));
            }
        }
        let results = pool_run(n_workers, &jobs, |w, &(l, work)| {
            let max_calls = h4_max_calls(rate, l, work);
            let kill = Duration::from_millis(l * 30 + 20_000);
            match w.request(&format!("h4 {} {} {}", l, max_calls, work), kill) {
                Reply::Ok(s) => Ok(s),
                Reply::Timeout => Err("killed".to_string()),
                Reply::Died(s) => Err(format!("died {}", s)),
            }
        });
        let mut reqs = vec![];
        let mut parsed = vec![];
        for ((l, work), r) in jobs.iter().zip(results.iter()) {
            let limit_ns = (*l as u128) * 1_000_000;
            match r.as_ref().ok().and_then(|s| parse_h4(s)) {
                Some(snaps) if !snaps.is_empty() => {
                    reqs.push(trace_request(rate.to_bits(), limit_ns, &snaps));
                    parsed.push(Some(snaps));
                }
                _ => {
                    cx.viol_k(
                        "K:C08:Model.Timeout.check",
                        json!({"what": "hook H4 did not return (poller never reported a timeout within the call budget, or the worker died)",
                               "limit_ms": l, "work_per_call": work, "result": format!("{:?}", r)}),
                    );
                    reqs.push("new 0000000000000000 0000000000000000 0 0 0".into());
                    parsed.push(None);
                }
            }
        }
        let resps = cx.drv.batch(&reqs);
        for (((l, work), snaps), (req, resp)) in jobs.iter().zip(parsed.iter()).zip(reqs.iter().zip(resps.iter())) {
            let Some(snaps) = snaps else { continue };
            let limit_ns = (*l as u128) * 1_000_000;
            let reads = snaps.len() - 1;
            cx.rep.case(req, reads >= 2);
            cx.rep.bump("family=h4-trace");
            cx.rep.bump(&format!("h4_limit_ms={}", l));
            cx.rep.bump(&format!("h4_clock_reads={}", if reads < 2 { "1" } else if reads < 8 { "2-7" } else if reads < 16 { "8-15" } else { ">=16" }));
            cx.rep.bump_by("h4_clock_reads_total", reads as u64);
            let impl_canon = impl_trace_canon(snaps);
            if cx.rep.samples.len() < 2 {
                cx.rep.sample(json!({"limit_ms": l, "work_per_call": work, "request": req, "impl": impl_canon, "model": resp}));
            }
            let last = snaps.last().unwrap();
            // hypothesis `hfirst` and the cap of bounded_slack_capped, directly: no interval above the cap
            if snaps.iter().any(|sn| sn.interval > MAX_INTERVAL) {
                cx.viol_d("C08:interval-above-cap", json!({"what": "ExecutionTimeout used an interval_instructions above MAX_INTERVAL_INSTRUCTIONS (bounded_slack_capped no longer applies)", "limit_ms": l, "work_per_call": work, "impl_trace": impl_canon, "trace_request": req}));
            }
            // (D1) never early, directly
            if last.timed_out && last.probe < limit_ns {
                cx.viol_d("C08:never_early", json!({"what": "ExecutionTimeout reported a timeout while the clock read after the call is still below the limit", "limit_ms": l, "work_per_call": work, "impl_trace": impl_canon, "trace_request": req}));
            }
            if !last.timed_out {
                cx.viol_d("C08:no-timeout", json!({"what": "the poller did not report a timeout within the call budget although the clock passed the limit", "limit_ms": l, "work_per_call": work, "impl_trace": impl_canon, "trace_request": req}));
                continue;
            }
            // (K1) exact agreement: I0, and per snapshot call number, last_check, interval, decision
            if &impl_canon != resp {
                let model_sound_only = resp.replace(" 0)", " 1)") == impl_canon;
                if model_sound_only {
                    cx.viol_k("K:C08:UpdateSound", json!({"what": "the float hypothesis of bounded_slack (UpdateSound: new interval ≤ exact quotient + 1) failed on an observed clock read", "limit_ms": l, "work_per_call": work, "impl_trace": impl_canon, "model_trace": resp, "trace_request": req}));
                } else {
                    cx.viol_k("K:C08:Model.Timeout.check", json!({"what": "model and ExecutionTimeout disagree on an observed trace (call number of a clock read = poll_gap, interval_instructions = interval_update, or the timeout decision = never_early)", "limit_ms": l, "work_per_call": work, "impl_trace": impl_canon, "model_trace": resp, "trace_request": req}));
                }
            }
            // distribution: detection overshoot of the bare poller
            let over = last.probe.saturating_sub(limit_ns);
            cx.rep.bump(&format!("h4_overshoot{}", if over < 100_000 { "<0.1ms" } else if over < 1_000_000 { "<1ms" } else if over < (limit_ns / 10) { "<limit/10" } else { ">=limit/10(first interval longer than the limit: expensive calls)" }));
        }
    }

    // ---- corpus + witnesses of listed findings ---------------------------------------------------
    let mut fixed_witnesses: Vec<(String, String, u64, String)> = vec![]; // id, script, limit, kind
    for e in cx.rep.known_entries() {
        let id = e.get("id").and_then(|x| x.as_str()).unwrap_or("").to_string();
        let script = e.get("witness").and_then(|x| x.as_str()).unwrap_or("").to_string();
        let limit = e.get("witness_limit_ms").and_then(|x| x.as_u64()).unwrap_or(50);
        let kind = e.get("witness_kind").and_then(|x| x.as_str()).unwrap_or("swallowed").to_string();
        if !script.is_empty() {
            fixed_witnesses.push((id.clone(), script, limit, kind.clone()));
        }
        // further witnesses of the same finding: [{"script": …, "limit_ms": …, "kind": …}]
        for (n, w) in e.get("witnesses").and_then(|x| x.as_array()).cloned().unwrap_or_default().iter().enumerate() {
            if let Some(sc) = w.get("script").and_then(|x| x.as_str()) {
                fixed_witnesses.push((
                    format!("{}#w{}", id, n + 2),
                    sc.to_string(),
                    w.get("limit_ms").and_then(|x| x.as_u64()).unwrap_or(limit),
                    w.get("kind").and_then(|x| x.as_str()).unwrap_or(&kind).to_string(),
                ));
            }
        }
    }
    if let Some(dir) = &args.corpus {
        for (name, script, limit, expect) in file_cases(dir) {
            let id = match expect.as_str() {
                "late" => "F-C08-2",
                "late-slow-instruction" => "F-C08-6",
                "abort" => "F-C08-7",
                "late-recursion" => "F-C08-5",
                _ => "",
            };
            fixed_witnesses.push((format!("{}#corpus:{}", id, name), script, limit, expect));
        }
    }
    {
        let results = pool_run(n_workers, &fixed_witnesses, |w, (_, script, limit, kind)| {
            // kind `hang`: the listed signature is "never returns" (killed after 100 × limit + 1 s)
            let kill = if kind == "hang" { 100 * limit + 1000 } else if kind.starts_with("late") || kind == "within-10x" { 30_000 } else { 8 * limit + 10_000 };
            let r = run_in(w, *limit, script, kill);
            // a too-slow run is repeated once (after a pause: load bursts of concurrent builds)
            match &r {
                RunRes::Done(o) if !kind.starts_with("late") && kind != "within-10x" && o.outcome == "timeout" && too_slow(o, *limit, 1) => {
                    std::thread::sleep(Duration::from_millis(500));
                    run_in(w, *limit, script, kill)
                }
                _ => r,
            }
        });
        for ((idfull, script, limit, kind), r) in fixed_witnesses.iter().zip(results.iter()) {
            let id = idfull.split('#').next().unwrap_or("").to_string();
            cx.rep.case(&format!("witness {} {} {}", idfull, limit, script), true);
            cx.rep.bump("family=witness");
            let fails = match r {
                RunRes::Done(o) => match kind.as_str() {
                    k if k.starts_with("late") => o.outcome != "timeout" || too_slow(o, *limit, 1),
                    // regression check of a repaired lateness: the old behaviour was ≥ 10 × limit late;
                    // the bound is far from both, so machine load cannot flip it
                    "within-10x" => o.outcome != "timeout" || too_slow(o, *limit, 10),
                    _ => o.outcome != "timeout" || !o.trace.is_empty() || too_slow(o, *limit, 1) || o.probe != PROBE_EXPECT,
                },
                _ => true,
            };
            let what = match r {
                RunRes::Done(o) => format!("{}: outcome={} after {} ms (limit {} ms, slack {} ms), handler trace {:?}", idfull, o.outcome.split(':').next().unwrap_or(""), o.elapsed_us / 1000, limit, slack_ms(*limit), o.trace),
                RunRes::Killed(ms) => format!("{}: still running after {} ms (limit {} ms): killed", idfull, ms, limit),
                RunRes::Died(s) => format!("{}: worker died: {}", idfull, s),
                RunRes::Skipped => format!("{}: skipped", idfull),
            };
            if id.is_empty() {
                // plain corpus case: must pass
                if fails {
                    cx.viol_d("C08:corpus", json!({"script": script, "script_hex": kvh::hex(script.as_bytes()), "limit_ms": limit, "result": res_json(r), "what": what}));
                }
            } else if cx.is_open(&id)
                && !matches!(r, RunRes::Done(_))
                && !(kind == "hang" && matches!(r, RunRes::Killed(_)))
                && !(kind == "abort" && matches!(r, RunRes::Died(_)))
            {
                // a hang is not the signature of a listed finding (swallowed / late but delivered),
                // unless the entry's witness kind says so
                cx.viol_d("C08:no-timeout", json!({"script": script, "script_hex": kvh::hex(script.as_bytes()), "limit_ms": limit, "result": res_json(r), "what": what}));
            } else if cx.is_open(&id) {
                if fails {
                    if !idfull.contains('#') {
                        cx.rep.known(&id, &what);
                    } else {
                        *cx.known_counts.entry(id.clone()).or_insert(0) += 1;
                    }
                } else {
                    cx.rep.note(format!("witness of {} no longer fails: {}", id, what));
                }
            } else if fails {
                // fixed (or unlisted) finding fails again
                cx.viol_d(&format!("C08:regression:{}", id), json!({"script": script, "script_hex": kvh::hex(script.as_bytes()), "limit_ms": limit, "result": res_json(r), "what": what, "note": "a finding recorded as fixed (or not listed) fails"}));
            }
        }
    }

    // ---- (K2)/(D2) sweep of non-terminating shapes -----------------------------------------------
    let cases = gen_cases(&mut rng, thorough);
    let reqs: Vec<String> = cases.iter().map(|c| deliver_request(&c.shape)).collect();
    let preds = cx.drv.batch(&reqs);
    {
        let jobs: Vec<(Case, bool)> = cases.iter().cloned().zip(preds.iter().map(|p| p.starts_with("caught"))).collect();
        let results = pool_run(n_workers, &jobs, |w, (c, pc)| run_case(w, c, *pc));
        for ((c, pred), res) in cases.iter().zip(preds.iter()).zip(results.iter()) {
            if !(pred == "escaped timeout" || pred == "escaped other" || pred.starts_with("caught ")) {
                cx.viol_k("K:C08:driver", json!({"what": "model driver gave no prediction", "request": deliver_request(&c.shape), "response": pred}));
                continue;
            }
            // Props/C08 not_catchable_nested: the executable model says `escaped timeout` for every stack
            if pred != "escaped timeout" {
                cx.viol_k("K:C08:Model.Timeout.deliver", json!({"what": "the model driver's prediction contradicts Props/C08 not_catchable_nested (`escaped timeout` for every stack): driver and theorem file out of sync", "request": deliver_request(&c.shape), "response": pred}));
            }
            judge(&mut cx, c, pred, res);
        }
    }

    // ---- terminating scripts: a limit changes nothing ---------------------------------------------
    {
        let mut tcases: Vec<(Shape, u64)> = vec![];
        let wrappers: Vec<Layer> = SAME_ENTRY.iter().chain(NESTED_ENTRY.iter()).copied().collect();
        for &sp in SPINS {
            tcases.push((Shape { layers: vec![], spin: sp, bound: Some(300 + rng.below(300) as u32) }, 1000));
        }
        for &w in &wrappers {
            let sp = *rng.pick(SPINS);
            tcases.push((Shape { layers: vec![Layer::Try, w, Layer::Try], spin: sp, bound: Some(50 + rng.below(400) as u32) }, if rng.chance(1, 2) { 200 } else { 1000 }));
        }
        let n_random = if thorough { 800 } else { 25 };
        for _ in 0..n_random {
            let depth = 1 + rng.below(5);
            let mut layers = vec![];
            for _ in 0..depth {
                layers.push(match rng.weighted(&[3, 1, 4, 4]) {
                    0 => Layer::Try,
                    1 => Layer::TryRetry,
                    2 => *rng.pick(SAME_ENTRY),
                    _ => *rng.pick(NESTED_ENTRY),
                });
            }
            tcases.push((Shape { layers, spin: *rng.pick(SPINS), bound: Some(20 + rng.below(300) as u32) }, *rng.pick(&[200u64, 1000, 5000])));
        }
        let results = pool_run(n_workers, &tcases, |w, (shape, limit)| {
            let script = script_of(shape);
            let a = run_in(w, 0, &script, 60_000);
            let mut b = run_in(w, *limit, &script, 60_000);
            // these scripts run for well under a millisecond; a timeout here means the process was
            // stalled for longer than the limit (legitimate wall-clock behaviour): repeat once
            if let RunRes::Done(o) = &b {
                if o.outcome == "timeout" && o.elapsed_us >= limit * 1000 {
                    std::thread::sleep(Duration::from_millis(500));
                    b = run_in(w, *limit, &script, 60_000);
                }
            }
            (a, b)
        });
        for ((shape, limit), (a, b)) in tcases.iter().zip(results.iter()) {
            let script = script_of(shape);
            cx.rep.case(&format!("terminating limit={} {}", limit, script), !shape.layers.is_empty());
            cx.rep.bump("family=terminating");
            let detail = json!({"script": script, "script_hex": kvh::hex(script.as_bytes()), "limit_ms": limit,
                                "unlimited": res_json(a), "limited": res_json(b)});
            match (a, b) {
                (RunRes::Done(x), RunRes::Done(y)) => {
                    if !x.outcome.starts_with("ok:") {
                        // the generator's own scripts must run: a failure here is a harness bug or a
                        // runtime defect unrelated to the limit; it must at least be the same with a limit
                        cx.rep.bump("terminating_script_error_without_limit");
                        let msg = x.outcome.strip_prefix("err:").and_then(kvh::unhex).map(|b| String::from_utf8_lossy(&b).to_string()).unwrap_or(x.outcome.clone());
                        let layers: Vec<String> = shape.layers.iter().map(|l| l.name()).collect();
                        if std::env::var("C08_DEBUG").is_ok() {
                            eprintln!("--- failing terminating script:\n{}", script);
                        }
                        cx.rep.note(format!("terminating script fails without a limit (same with limit: {}): layers {:?} spin {:?}: {}", x.outcome == y.outcome, layers, shape.spin, msg));
                    }
                    if x.trace.is_empty() {
                        cx.rep.bump("terminating_script_without_trace");
                    }
                    if x.outcome != y.outcome || x.trace != y.trace || x.probe != y.probe || x.exports != y.exports || (x.outcome.starts_with("ok:") && y.exports != "i41;none") {
                        cx.viol_d("C08:terminating-differs", json!({"what": "a terminating script gives a different result/trace under an execution limit", "detail": detail}));
                    }
                    if cx.rep.samples.len() < 8 && !shape.layers.is_empty() {
                        cx.rep.sample(json!({"terminating_script": script, "limit_ms": limit, "unlimited": {"outcome": x.outcome, "trace": x.trace}, "limited": {"outcome": y.outcome, "trace": y.trace}}));
                    }
                }
                _ => cx.viol_d("C08:terminating-differs", json!({"what": "a terminating script hung or killed the worker", "detail": detail})),
            }
        }
    }

    // ---- native re-entry matrix: every native that calls back into bytecode × what it reaches --------
    {
        let matrix = native_matrix();
        let mlimit: u64 = 20;
        let mut jobs: Vec<(String, String, &str)> = vec![];
        for (name, setup, usage) in &matrix {
            let (bare, tried) = matrix_scripts(setup, usage);
            jobs.push((name.clone(), bare, "bare"));
            jobs.push((name.clone(), tried, "try"));
        }
        let results = pool_run(n_workers, &jobs, |w, (_, script, _)| {
            let kill = mlimit + slack_ms(mlimit) * 3 + 4000;
            let r = run_in(w, mlimit, script, kill);
            match &r {
                RunRes::Done(o) if o.outcome == "timeout" && too_slow(o, mlimit, 1) => {
                    std::thread::sleep(Duration::from_millis(500));
                    run_in(w, mlimit, script, kill)
                }
                _ => r,
            }
        });
        for ((name, script, variant), r) in jobs.iter().zip(results.iter()) {
            cx.rep.case(&format!("matrix {} {} {}", name, variant, script), true);
            cx.rep.bump("family=native-matrix");
            cx.rep.bump(&format!("matrix={}", name.split('/').next().unwrap_or("")));
            let detail = |what: String| json!({"matrix_case": name, "variant": variant, "script": script, "script_hex": kvh::hex(script.as_bytes()), "limit_ms": mlimit, "result": res_json(r), "what": what});
            match r {
                RunRes::Done(o) => {
                    let host_err = o.outcome.strip_prefix("err:").and_then(kvh::unhex).map(|b| String::from_utf8_lossy(&b).to_string());
                    if o.outcome != "timeout" || !o.trace.is_empty() {
                        if o.elapsed_us < mlimit * 1000 {
                            // ended before the limit: the case did not reach its non-terminating callee
                            // (the table is wrong for this tree, or the native's signature changed)
                            cx.viol_k("K:C08:native-matrix", detail(format!("the case ended before the limit without reaching its non-terminating callee ({}): the matrix entry no longer fits the core library", host_err.unwrap_or(o.outcome.clone()))));
                        } else {
                            cx.viol_d("C08:timeout-swallowed", detail(format!("a native function that calls back into bytecode turned the timeout of the nested execution into something else: outcome {}, handler trace {:?}", host_err.unwrap_or(o.outcome.clone()), o.trace)));
                        }
                    } else if too_slow(o, mlimit, 1) {
                        cx.viol_d("C08:late-timeout", detail("timeout later than limit + slack (twice)".into()));
                    } else if o.probe != PROBE_EXPECT || o.exports != "i41;none" {
                        cx.viol_d("C08:runtime-unusable", detail("probe script / exports wrong after the run".into()));
                    }
                }
                RunRes::Killed(ms) => cx.viol_d("C08:no-timeout", detail(format!("still running after {} ms: killed", ms))),
                RunRes::Died(st) => cx.viol_d("C08:worker-died", detail(format!("worker died: {}", st))),
                RunRes::Skipped => {}
            }
        }
    }

    // ---- the limit is in force through every public configuration route ------------------------------
    {
        match settings_helpers_in_source() {
            Some(found) => {
                let mut a: Vec<String> = found.clone();
                a.sort();
                let mut b: Vec<String> = SETTINGS_HELPERS.iter().map(|x| x.to_string()).collect();
                b.sort();
                if a != b {
                    cx.viol_k("K:C08:settings-helper-table", json!({"what": "the helpers of `impl KotoSettings` in crates/koto/src/koto.rs differ from the table the route check enumerates (SETTINGS_HELPERS in c08.rs): extend the table and apply_helper", "in_source": a, "in_table": b}));
                }
                cx.rep.extra.insert("settings_helpers_checked".into(), json!(found));
            }
            None => cx.viol_k("K:C08:settings-helper-table", json!({"what": "cannot read `impl KotoSettings` from crates/koto/src/koto.rs (set KOTO_REPO if the sources are not in /repo)"})),
        }
        let routes = route_names(thorough);
        let route_limit: u64 = 30;
        let results = pool_run(n_workers, &routes, |w, name| {
            let ask = |w: &mut Worker| w.request(&format!("route {} {}", name, route_limit), Duration::from_millis(route_limit + slack_ms(route_limit) * 3 + 4000));
            let mut r = ask(w);
            if let Reply::Ok(s) = &r {
                let f: Vec<&str> = s.split('|').collect();
                let slow = f.len() == 3 && f[1].parse::<u64>().unwrap_or(0).saturating_sub(f[2].parse::<u64>().unwrap_or(0)) > (route_limit + slack_ms(route_limit)) * 1000;
                if slow {
                    std::thread::sleep(Duration::from_millis(500));
                    r = ask(w);
                }
            }
            r
        });
        for (name, r) in routes.iter().zip(results.iter()) {
            cx.rep.case(&format!("route {} {}", name, route_limit), name.contains(','));
            cx.rep.bump("family=config-route");
            let detail = |what: String, raw: String| json!({"route": name, "limit_ms": route_limit, "what": what, "worker_reply": raw, "script": ROUTE_SPIN});
            match r {
                Reply::Ok(s) => {
                    let f: Vec<&str> = s.split('|').collect();
                    let (el, wait) = (f.get(1).and_then(|x| x.parse::<u64>().ok()).unwrap_or(0), f.get(2).and_then(|x| x.parse::<u64>().ok()).unwrap_or(0));
                    if f.len() != 3 || f[0] != "timeout" {
                        let txt = f[0].split_once(':').and_then(|(_, h)| kvh::unhex(h)).map(|b| String::from_utf8_lossy(&b).to_string()).unwrap_or(f[0].to_string());
                        if txt.contains("unknown-route") || txt.contains("unknown-helper") {
                            cx.viol_k("K:C08:settings-helper-table", detail("the worker does not know this route/helper".into(), s.clone()));
                        } else {
                            cx.viol_d("C08:limit-not-in-force", detail(format!("a spinning script did not end with the timeout error although the limit was configured through this route: {}", txt), s.clone()));
                        }
                    } else if el < route_limit * 1000 {
                        cx.viol_d("C08:early-timeout", detail("timeout before the limit had elapsed".into(), s.clone()));
                    } else if el.saturating_sub(wait) > (route_limit + slack_ms(route_limit)) * 1000 {
                        cx.viol_d("C08:late-timeout", detail("timeout later than limit + slack (twice)".into(), s.clone()));
                    }
                }
                Reply::Timeout => cx.viol_d("C08:limit-not-in-force", detail("the spinning script was still running seconds after the limit: the execution limit configured through this route is not in force (killed)".into(), "killed".into())),
                Reply::Died(st) => cx.viol_d("C08:worker-died", detail("worker died".into(), st.clone())),
            }
        }
    }

    // ---- extreme limits: a terminating script is unaffected by the limit, whatever its size -----
    {
        // (limit spec, representable: `Instant::now() + limit` exists)
        let specs: &[(&str, bool)] = &[
            ("3600s", true),
            ("1000000000s", true),          // ≈ 31 years
            ("9000000000000000000s", true), // just below i64::MAX seconds
            ("9223372036854775807s", false), // now + limit overflows the clock's range
            ("max", false),                 // Duration::MAX
        ];
        let shapes = [
            Shape { layers: vec![], spin: Spin::WhileTrue, bound: Some(200) },
            Shape { layers: vec![Layer::Try, Layer::Each, Layer::Fn], spin: Spin::LoopHelper, bound: Some(100) },
            Shape { layers: vec![Layer::OpAdd, Layer::GenFor], spin: Spin::ForEndlessGen, bound: Some(50) },
        ];
        let mut jobs: Vec<(String, &str, bool)> = vec![];
        for sh in &shapes {
            for (spec, ok) in specs {
                jobs.push((script_of(sh), *spec, *ok));
            }
        }
        let results = pool_run(n_workers, &jobs, |w, (script, spec, _)| {
            let a = run_program(w, "0", script, 60_000);
            let b = run_program(w, spec, script, 60_000);
            (a, b)
        });
        let mut f3 = 0u64;
        for ((script, spec, representable), (a, b)) in jobs.iter().zip(results.iter()) {
            cx.rep.case(&format!("extreme-limit {} {}", spec, script), true);
            cx.rep.bump("family=extreme-limit");
            let same = match (a, b) {
                (RunRes::Done(x), RunRes::Done(y)) => x.outcome == y.outcome && x.trace == y.trace && y.probe == PROBE_EXPECT && x.outcome.starts_with("ok:"),
                _ => false,
            };
            if same {
                continue;
            }
            let panic_msg = match b {
                RunRes::Done(y) => y.outcome.strip_prefix("panic:").and_then(kvh::unhex).map(|m| String::from_utf8_lossy(&m).to_string()),
                _ => None,
            };
            let is_f3 = !*representable && panic_msg.as_deref().is_some_and(|m| m.contains("overflow when adding duration to instant"));
            let detail = json!({"script": script, "script_hex": kvh::hex(script.as_bytes()), "limit": spec, "unlimited": res_json(a), "limited": res_json(b), "panic": panic_msg});
            if is_f3 && cx.is_open("F-C08-3") {
                f3 += 1;
            } else {
                cx.viol_d("C08:terminating-differs", json!({"what": "a terminating script behaves differently (or the host panics) under a very large execution limit", "detail": detail}));
            }
        }
        if f3 > 0 {
            cx.rep.known("F-C08-3", &format!("{} terminating runs with an execution limit that `Instant::now() + limit` cannot represent (Duration::MAX, i64::MAX seconds) panic 'overflow when adding duration to instant' in ExecutionTimeout::new; the instance panics on every later run too", f3));
            cx.rep.bump_by("attributed_to_F-C08-3", f3);
        }
    }

    let kc = cx.known_counts.clone();
    for (id, n) in kc {
        cx.rep.bump_by(&format!("attributed_to_{}", id), n);
        if n > 0 && id == "F-C08-1" {
            cx.rep.note(format!("{} generated witness-family cases were swallowed exactly as the model predicts (catchable_nested) and are attributed to F-C08-1", n));
        }
    }
    let (k, d) = (cx.k_fail, cx.d_fail);
    cx.rep.extra.insert("k_disagreements".into(), json!(k));
    cx.rep.extra.insert("d_failures".into(), json!(d));
    cx.rep.extra.insert("driver_requests".into(), json!(cx.drv.requests));
    cx.rep.extra.insert("slack_rule".into(), json!("allowed = limit + max(150 ms, 1.0 × limit), measured as wall-clock duration of compile_and_run minus the run-queue wait of the worker thread reported by /proc/thread-self/schedstat (time runnable without a CPU: machine overload); never-early is judged on the raw wall clock; a slower run is repeated once (after a 500 ms pause) before it counts"));
    cx.rep.extra.insert("wall_clock".into(), json!("measured, not proved"));
    std::process::exit(cx.rep.finish());
}
