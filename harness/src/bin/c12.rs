//! C12 — diagnostics identify the right source location.
//!
//! (K1) `Model/SrcMap.lean` push/lookup  vs  `koto_bytecode::DebugInfo::{push, get_source_span}`
//! (K2) `Model/Excerpt.lean` excerpt/render  vs  `koto_parser::format_source_excerpt` (direct calls,
//!      arbitrary spans, panics included) and vs every excerpt of every rendered error below
//! (K3) `Model/Trace.lean` predict  vs  `koto_runtime::Error.trace` of programs with a fault planted at
//!      a known line inside 0–4 nested calls with known call-site lines
//! (D)  the property's clauses evaluated on the implementation's output:
//!      trace lines = fault line, then call-site lines innermost first; the rendered message quotes
//!      exactly those lines; parser error spans lie inside the text on the line of the first bad
//!      token; rendering never panics; `debug` prefix = line where the debug expression starts;
//!      every instruction of every compiled program has a span inside the text.
//!
//! c12_parts/chains.rs   multi-line chains: generator, (K1) instruction spans of real chunks vs
//!                       `SrcMap.compile` on the chain's node nesting, planted faults at every node
//! c12_parts/resume.rs   faults that are the first instruction after a (re-)entry: register-only
//!                       operations, generator consumers, callback / parameter faults
//! c12_parts/brackets.rs breaks inside multi-line bracketed constructs (bad token on its own line)
use koto_bytecode::{Chunk, CompilerSettings, DebugInfo, InstructionReader, ModuleLoader};
use koto_parser::{format_source_excerpt, Position, Span};
use koto_runtime::{prelude::*, InstructionFrame, KotoVmSettings, Ptr, PtrMut, Result as RtResult};
use kvh::{Args, Driver, Report, Rng};
use serde_json::{json, Value};
use unicode_width::UnicodeWidthStr;

include!("c12_parts/brackets.rs");
include!("c12_parts/chains.rs");
include!("c12_parts/resume.rs");
include!("c12_parts/stage.rs");

// ------------------------------------------------------------------------------------------------
// markers used while generating program text (stripped by `flatten`)
const M_STMT: char = '\u{1}'; // a statement starts on this line
const M_FAULT: char = '\u{2}'; // the planted fault is on this line
const M_CALL: char = '\u{3}'; // + digit k: the call site of level k is on this line
const M_CEND: char = '\u{4}'; // + digit k: the call expression of level k ends on this line
const M_SIMPLE: char = '\u{5}'; // a complete single-line statement `v = a + b`
const M_HEADER: char = '\u{6}'; // a block header line (a body must follow)
const M_DEBUG: char = '\u{7}'; // + 2 digits: debug expression number nn starts on this line
const M_NAT: char = '\u{e}'; // + digit k: the core-library call that runs the callback holding call site k
const M_ADP: char = '\u{f}'; // + digit k: the lazy adaptor holding call site k is created on this line

#[derive(Clone, Debug, Default)]
struct Capture {
    out: PtrMut<String>,
}
impl Capture {
    fn new() -> Self {
        Capture { out: koto_runtime::make_ptr_mut!(String::new()) }
    }
    fn text(&self) -> String {
        self.out.borrow().clone()
    }
}
impl KotoFile for Capture {
    fn id(&self) -> KString {
        "_capture_".into()
    }
}
impl KotoRead for Capture {}
impl KotoWrite for Capture {
    fn write(&self, bytes: &[u8]) -> RtResult<()> {
        self.out.borrow_mut().push_str(&String::from_utf8_lossy(bytes));
        Ok(())
    }
    fn write_line(&self, s: &str) -> RtResult<()> {
        let mut o = self.out.borrow_mut();
        o.push_str(s);
        o.push('\n');
        Ok(())
    }
    fn flush(&self) -> RtResult<()> {
        Ok(())
    }
}

// ------------------------------------------------------------------------------------------------
// running the real implementation

#[derive(Debug, Clone)]
enum Real {
    /// script ran to completion
    Ok { stdout: String },
    /// compile (parser or compiler) error
    Compile { span: Option<Span>, rendered: Result<String, String> },
    /// uncaught runtime error
    Runtime { message: String, frames: Vec<Option<Span>>, rendered: Result<String, String>, stdout: String },
    Panic(String),
}

fn span_s(s: &Span) -> String {
    format!("{}:{}:{}:{}", s.start.line, s.start.column, s.end.line, s.end.column)
}
fn ospan_s(s: &Option<Span>) -> String {
    s.as_ref().map(span_s).unwrap_or_else(|| "none".into())
}
fn mkspan(a: u32, b: u32, c: u32, d: u32) -> Span {
    Span { start: Position { line: a, column: b }, end: Position { line: c, column: d } }
}

thread_local! {
    /// (export_top_level_ids, enable_type_checks) used by every compilation of the harness: the
    /// flags of CompilerSettings that change code generation; families run under the default and
    /// under the other combinations
    static SETTINGS: std::cell::Cell<(bool, bool)> = const { std::cell::Cell::new((false, true)) };
}
const DEFAULT_SETTINGS: (bool, bool) = (false, true);
fn settings() -> (bool, bool) {
    SETTINGS.with(|s| s.get())
}
fn set_settings(v: (bool, bool)) {
    SETTINGS.with(|s| s.set(v));
}
fn compiler_settings() -> CompilerSettings {
    let (export_top_level_ids, enable_type_checks) = settings();
    CompilerSettings { export_top_level_ids, enable_type_checks }
}
fn settings_label() -> String {
    let (e, t) = settings();
    format!("export_top_level_ids={e},enable_type_checks={t}")
}

fn compile(src: &str) -> Result<Ptr<Chunk>, koto_bytecode::ModuleLoaderError> {
    let mut loader = ModuleLoader::default();
    loader.compile_script(src, None, compiler_settings())
}

fn run_real(src: &str) -> Real {
    let r = kvh::catch(|| {
        let so = Capture::new();
        let se = Capture::new();
        let mut vm = KotoVm::with_settings(KotoVmSettings {
            stdout: koto_runtime::make_ptr!(so.clone()),
            stderr: koto_runtime::make_ptr!(se.clone()),
            ..Default::default()
        });
        match compile(src) {
            Err(e) => {
                let span = e.source.as_ref().map(|s| s.span);
                let rendered = kvh::catch(|| e.to_string());
                Real::Compile { span, rendered }
            }
            Ok(chunk) => match vm.run(chunk) {
                Ok(_) => Real::Ok { stdout: so.text() },
                Err(e) => {
                    let frames = e
                        .trace
                        .iter()
                        .map(|InstructionFrame { chunk, instruction }| chunk.debug_info.get_source_span(*instruction))
                        .collect();
                    let message = kvh::catch(|| e.error.to_string()).unwrap_or_else(|p| format!("<panic {p}>"));
                    let rendered = kvh::catch(|| e.to_string());
                    Real::Runtime { message, frames, rendered, stdout: so.text() }
                }
            },
        }
    });
    match r {
        Ok(x) => x,
        Err(p) => Real::Panic(p),
    }
}

// ------------------------------------------------------------------------------------------------
// source text helpers

/// the lines as `str::lines()` yields them
fn lines_of(src: &str) -> Vec<&str> {
    src.lines().collect()
}

/// `Guard` of Model/Excerpt.lean plus "inside the text": start on an existing line, ordered,
/// columns (display widths) not past the end of their line (+1 for the position after the last
/// character; an end position at column 0 of the line after the last line break is the end of a
/// NewLine token and is accepted).
fn span_inside(src: &str, sp: &Span) -> Result<(), String> {
    let ls = lines_of(src);
    let n = ls.len() as u32;
    if sp.start.line >= n {
        return Err(format!("start line {} but the text has {} lines", sp.start.line, n));
    }
    if (sp.end.line, sp.end.column) < (sp.start.line, sp.start.column) {
        return Err("end before start".into());
    }
    let w = |l: u32| UnicodeWidthStr::width(ls[l as usize]) as u32;
    if sp.start.column > w(sp.start.line) {
        return Err(format!("start column {} past the end of line {} (width {})", sp.start.column, sp.start.line, w(sp.start.line)));
    }
    if sp.end.line < n {
        if sp.end.column > w(sp.end.line) + 1 {
            return Err(format!("end column {} past the end of line {} (width {})", sp.end.column, sp.end.line, w(sp.end.line)));
        }
    } else if !(sp.end.line == n && sp.end.column == 0) {
        return Err(format!("end {}:{} past the end of the text ({} lines)", sp.end.line, sp.end.column, n));
    }
    Ok(())
}

fn excerpt_request(src: &str, sp: &Span) -> String {
    let mut s = format!("excerpt {} {} {} {}", sp.start.line, sp.start.column, sp.end.line, sp.end.column);
    for l in src.lines() {
        s.push(' ');
        s.push_str(&kvh::hex(l.as_bytes()));
    }
    s
}

/// parse the model's answer to an `excerpt` request: Err(panic kind) or Ok(rendered text)
fn model_excerpt(resp: &str) -> Result<String, String> {
    if let Some(k) = resp.strip_prefix("panic:") {
        return Err(k.to_string());
    }
    let last = resp.rsplit(' ').next().unwrap_or("");
    match kvh::unhex(last) {
        Some(b) if resp.starts_with("ok ") => Ok(String::from_utf8_lossy(&b).to_string()),
        _ => Err(format!("bad-model-response:{resp}")),
    }
}

/// quoted rows of a rendered excerpt: (printed line number, text)
fn quoted_rows(excerpt: &str) -> Vec<(usize, String)> {
    let mut rows = vec![];
    for l in excerpt.split('\n').skip(2) {
        // " {n:>w} | text"
        if let Some((a, b)) = l.split_once(" | ") {
            if let Ok(n) = a.trim().parse::<usize>() {
                rows.push((n, b.to_string()));
            }
        }
    }
    rows
}

// ------------------------------------------------------------------------------------------------
// generator

struct Flat {
    src: String,
    lines: Vec<String>,
    stmt_starts: Vec<(usize, usize)>, // (line index, indent)
    fault: Option<usize>,
    calls: Vec<Option<usize>>, // per level
    cends: Vec<Option<usize>>,
    nats: Vec<Option<usize>>,
    adps: Vec<Option<usize>>,
    simple: Vec<usize>,
    headers: Vec<usize>,
    debugs: Vec<(usize, usize)>, // (id, line)
}

fn flatten(raw: &[String], eol: &str, trailing: bool) -> Flat {
    let mut f = Flat {
        src: String::new(),
        lines: vec![],
        stmt_starts: vec![],
        fault: None,
        calls: vec![None; 10],
        cends: vec![None; 10],
        nats: vec![None; 10],
        adps: vec![None; 10],
        simple: vec![],
        headers: vec![],
        debugs: vec![],
    };
    for (i, l) in raw.iter().enumerate() {
        let mut out = String::new();
        let mut cs = l.chars();
        let mut is_stmt = false;
        while let Some(c) = cs.next() {
            match c {
                M_STMT => is_stmt = true,
                M_FAULT => f.fault = Some(i),
                M_CALL => {
                    let k = cs.next().unwrap().to_digit(10).unwrap() as usize;
                    f.calls[k] = Some(i);
                }
                M_CEND => {
                    let k = cs.next().unwrap().to_digit(10).unwrap() as usize;
                    f.cends[k] = Some(i);
                }
                M_NAT => {
                    let k = cs.next().unwrap().to_digit(10).unwrap() as usize;
                    f.nats[k] = Some(i);
                }
                M_ADP => {
                    let k = cs.next().unwrap().to_digit(10).unwrap() as usize;
                    f.adps[k] = Some(i);
                }
                M_SIMPLE => f.simple.push(i),
                M_HEADER => f.headers.push(i),
                M_DEBUG => {
                    let a = cs.next().unwrap().to_digit(10).unwrap() as usize;
                    let b = cs.next().unwrap().to_digit(10).unwrap() as usize;
                    f.debugs.push((a * 10 + b, i));
                }
                _ => out.push(c),
            }
        }
        if is_stmt {
            let ind = out.chars().take_while(|c| *c == ' ').count();
            f.stmt_starts.push((i, ind));
        }
        f.lines.push(out);
    }
    f.src = f.lines.join(eol);
    if trailing {
        f.src.push_str(eol);
    }
    f
}

fn indent(lines: Vec<String>, n: usize) -> Vec<String> {
    let p = " ".repeat(n);
    lines.into_iter().map(|l| format!("{p}{l}")).collect()
}

#[derive(Clone, Debug)]
struct Expr {
    lines: Vec<String>,
    /// may be used as an operand / element without parentheses
    atomic: bool,
    /// only as a statement of its own
    stmt_only: bool,
    /// a call (always executed, even when its value is unused)
    is_call: bool,
    kind: String,
}

struct G {
    rng: Rng,
    n: usize,
    in_fn: bool,
    /// a call of the chain may return (the error is caught inside): nothing that would fail on the
    /// returned value may follow the call
    calls_return: bool,
    stats: Vec<String>,
}

impl G {
    fn new(rng: Rng) -> G {
        G { rng, n: 0, in_fn: false, calls_return: false, stats: vec![] }
    }
    fn uid(&mut self) -> usize {
        self.n += 1;
        self.n
    }
    fn v(&mut self) -> String {
        format!("v{}", self.uid())
    }
    fn int(&mut self) -> i64 {
        self.rng.range(0, 99)
    }
    fn stat(&mut self, s: impl Into<String>) {
        self.stats.push(s.into());
    }

    fn simple(&mut self) -> Vec<String> {
        let (v, a, b) = (self.v(), self.int(), self.int());
        let op = *self.rng.pick(&["+", "-", "*"]);
        vec![format!("{M_STMT}{M_SIMPLE}{v} = {a} {op} {b}")]
    }

    /// one non-failing, output-free statement (possibly several lines)
    fn filler(&mut self, depth: usize) -> Vec<String> {
        if self.rng.chance(1, 6) {
            return self.token_filler(depth);
        }
        let k = self.rng.below(if depth >= 2 { 22 } else { 30 });
        let v = self.v();
        let (a, b) = (self.int(), self.int());
        self.stat(format!("filler={k}"));
        let s = M_STMT;
        match k {
            0 => self.simple(),
            1 => {
                // further constructs with span handling of their own in the compiler
                let j = self.rng.below(16);
                self.stat(format!("filler=1.{j}"));
                let h = format!("h{}", self.uid());
                match j {
                    // type hints in every position (their spans must be popped again whether or not
                    // type checks are compiled in)
                    10 => vec![
                        format!("{s}{M_HEADER}{h} = |a: Number, b: String| -> Number"),
                        "  a".into(),
                        format!("{s}{v} = {h}("),
                        format!("  {a},"),
                        "  'x'".into(),
                        ")".into(),
                    ],
                    11 => vec![format!("{s}{M_HEADER}for {h}a: Number, {h}b: Number in [({a}, {b})]"), format!("  {v} = {h}a + {h}b")],
                    12 => vec![format!("{s}let {v}: Number, {h}: String = {a}, 'x'")],
                    13 => vec![format!("{s}{v} = id2("), "  |p: Number| -> Number p,".into(), format!("  {b}"), ")".into()],
                    14 => vec![
                        format!("{s}{M_HEADER}try"),
                        format!("  throw 'inner {a}'"),
                        format!("{M_HEADER}catch e: Number"),
                        format!("  {v} = 1"),
                        format!("{M_HEADER}catch e: String"),
                        format!("  {v} = 2"),
                        format!("{M_HEADER}catch other"),
                        format!("  {v} = 3"),
                    ],
                    15 => vec![
                        format!("{s}{v} = match {a}"),
                        format!("  n: Number if n > {b} then 1"),
                        "  t: String then 2".into(),
                        "  else 3".into(),
                    ],
                    0 => vec![
                        format!("{s}{M_HEADER}{h} = |(a, c), {{d}}|"),
                        "  b = a + c + d".into(),
                        "  b".into(),
                        format!("{s}{v} = {h}(({a}, {b}), {{d: 3}})"),
                    ],
                    1 => vec![format!("{s}{v} = match {a}"), "  s: String then 1".into(), "  n: Number then 2".into(), "  else 3".into()],
                    2 => vec![
                        format!("{s}{M_HEADER}try"),
                        format!("  throw 'inner {a}'"),
                        format!("{M_HEADER}catch e: Number"),
                        format!("  {v} = 1"),
                        format!("{M_HEADER}catch other"),
                        format!("  {v} = 2"),
                    ],
                    3 => vec![
                        format!("{s}{v} = match ({a}, ({b}, 3))"),
                        "  (x, (y, z)) then x + y + z".into(),
                        "  (x, ...) then x".into(),
                        "  else 0".into(),
                    ],
                    4 => vec![format!("{s}{h} = null"), format!("{s}{v} = {h}?.foo")],
                    5 => vec![format!("{s}{h} = {{k: {a}}}"), format!("{s}{{k}} = {h}")],
                    6 => vec![format!("{s}{h} = |a, rest...| a"), format!("{s}{v} = {h} {a}, {b}, 3")],
                    7 => vec![format!("{s}{M_HEADER}for {h}a, {h}b in [{a}, {b}].enumerate()"), format!("  {v} = {h}a + {h}b")],
                    8 => vec![format!("{s}from string import to_number, from_bytes")],
                    _ => vec![format!("{s}{v} = {a}"), format!("{s}{v} += {b}"), format!("{s}{v} *= 2")],
                }
            }
            2 => vec![format!("{s}# comment {a} 'quoted' (x")],
            3 => vec![String::new()],
            4 => vec![format!("{s}#- multi"), format!("  line {a} ["), "-#".into()],
            5 => vec![format!("{s}{v} = ["), format!("  {a},"), format!("  {b},"), "]".into()],
            6 => vec![format!("{s}{v} ="), format!("  a: {a}"), "  b: 'x'".into(), format!("  c: [{b}, 2]")],
            7 => vec![format!("{s}{v} = {{"), format!("  a: {a},"), format!("  b: {b},"), "}".into()],
            8 => vec![format!("{s}{v} = 'abc {a}"), format!("    def {{{b} + 1}}"), "  ghi'".into()],
            9 => vec![format!("{s}{v} = r'raw {a}"), "  {not} \\n interpolated".into(), "'".into()],
            10 => vec![format!("{s}{v} = id2("), format!("  {a},"), format!("  {b}"), ")".into()],
            11 => vec![format!("{s}{v} = ({a}, {b}, 3)"), "  .each |x| x + 1".into(), "  .to_tuple()".into()],
            12 => {
                let h = format!("h{}", self.uid());
                vec![
                    format!("{s}{M_HEADER}{h} = |a|"),
                    format!("  b = a + {a}"),
                    "  b".into(),
                    format!("{s}{v} = {h} {b}"),
                ]
            }
            13 => vec![format!("{s}{v} = {a} +"), format!("  {b} +"), "  3".into()],
            14 => {
                let w = self.v();
                vec![format!("{s}{v} = {a}; {w} = {b}")]
            }
            15 => vec![format!("{s}{v} = '日本語 {{{a}}} ü'  # wide ｗ")],
            16 => vec![format!("{s}let {v}: Number = {a}")],
            17 => {
                let g = format!("g{}", self.uid());
                vec![
                    format!("{s}{M_HEADER}{g} = ||"),
                    format!("  yield {a}"),
                    format!("  yield {b}"),
                    format!("{s}{v} = {g}().to_tuple()"),
                ]
            }
            18 => vec![format!("{s}{v} = match {a}"), format!("  {a} then 'a'"), format!("  {} then 'b'", a + 1), "  else 'c'".into()],
            19 => vec![format!("{s}{v} = switch"), format!("  {a} > {b} then 1"), "  else 2".into()],
            20 => {
                // an error raised and caught: its trace must not leak into a later error
                let h = format!("h{}", self.uid());
                vec![
                    format!("{s}{M_HEADER}{h} = ||"),
                    format!("  throw 'inner {a}'"),
                    format!("{s}{M_HEADER}try"),
                    format!("  {h}()"),
                    format!("{M_HEADER}catch e"),
                    format!("  {v} = {b}"),
                ]
            }
            21 => vec![format!("{s}{v} = if {a} > {b} then 1 else 2")],
            // nested blocks
            22 => {
                let body = self.body(0, 2, depth + 1);
                let mut r = vec![format!("{s}{M_HEADER}if {a} >= 0")];
                r.extend(indent(body, 2));
                r
            }
            23 => {
                let body = self.body(0, 1, depth + 1);
                let body2 = self.body(0, 1, depth + 1);
                let mut r = vec![format!("{s}{M_HEADER}if {a} < 0")];
                r.extend(indent(body, 2));
                r.push(format!("{M_HEADER}else"));
                r.extend(indent(body2, 2));
                r
            }
            24 => {
                let body = self.body(0, 1, depth + 1);
                let i = format!("i{}", self.uid());
                let mut r = vec![format!("{s}{M_HEADER}for {i} in 0..{}", 1 + a % 3)];
                r.extend(indent(body, 2));
                r
            }
            25 => {
                let body = self.body(0, 1, depth + 1);
                let i = format!("i{}", self.uid());
                let mut r = vec![format!("{s}{i} = 0"), format!("{s}{M_HEADER}while {i} < 2")];
                r.extend(indent(body, 2));
                r.push(format!("  {s}{i} += 1"));
                r
            }
            26 => {
                let body = self.body(0, 1, depth + 1);
                let mut r = vec![format!("{s}{M_HEADER}loop")];
                r.extend(indent(body, 2));
                r.push(format!("  {s}break"));
                r
            }
            27 => {
                let body = self.body(0, 1, depth + 1);
                let mut r = vec![format!("{s}match {a}"), format!("  {a} then")];
                r.extend(indent(body, 4));
                r.push("  else".into());
                r.push(format!("    {s}{v} = 0"));
                r
            }
            28 => {
                let body = self.body(0, 1, depth + 1);
                let body2 = self.body(0, 1, depth + 1);
                let mut r = vec![format!("{s}{M_HEADER}try")];
                r.extend(indent(body, 2));
                r.push(format!("{M_HEADER}catch e"));
                r.extend(indent(body2, 2));
                if self.rng.chance(1, 2) {
                    r.push(format!("{M_HEADER}finally"));
                    let w = self.v();
                    r.push(format!("  {s}{w} = 1"));
                }
                r
            }
            _ => {
                let h = format!("h{}", self.uid());
                let body = self.body(0, 2, depth + 1);
                let mut r = vec![format!("{s}{M_HEADER}{h} = |a = 0|")];
                r.extend(indent(body, 2));
                r.push(format!("  {s}a + 1"));
                r.push(format!("{s}{v} = {h}({a})"));
                r
            }
        }
    }

    /// a statement made of TOKENS that span lines (the lexer's line counter has to follow every kind
    /// of line break inside a token): strings with backslash line continuations (1-3, also followed
    /// by blank / whitespace-only lines), interpolations whose expression or format options contain
    /// line breaks, raw strings and comments spanning lines with a backslash before the line break.
    /// With CRLF files every line break below is a CR LF.
    fn token_filler(&mut self, depth: usize) -> Vec<String> {
        let v = self.v();
        let (a, b) = (self.int(), self.int());
        let s = M_STMT;
        let q = *self.rng.pick(&["'", "\""]);
        let k = self.rng.below(if depth == 0 { 12 } else { 11 });
        self.stat(format!("token_filler={k}"));
        match k {
            0 => {
                let n = 1 + self.rng.below(3);
                let mut r = vec![format!("{s}{v} = {q}abc {a} \\")];
                for i in 1..n {
                    r.push(format!("  part {i} \\"));
                }
                r.push(format!("  end{q}"));
                self.stat(format!("string_continuations={n}"));
                r
            }
            1 => vec![format!("{s}{v} = {q}x {a} \\"), String::new(), format!("  y{q}")],
            2 => vec![format!("{s}{v} = {q}x \\"), "   ".into(), "\t\\".into(), format!("  y {b}{q}")],
            3 => vec![format!("{s}{v} = {q}x {{{a}}} \\"), format!("  y {{{b} + 1}} \\"), format!("  z{q}")],
            4 => vec![format!("{s}{v} = {q}v {{({a} +"), format!("    {b})}} w{q}")],
            5 => vec![format!("{s}{v} = {q}v {{id2("), format!("  {a},"), format!("  {b}"), format!(")}} w \\"), format!("  end{q}")],
            6 => vec![format!("{s}{v} = r{q}raw {a} \\"), "  still {raw} \\".into(), format!("{q}")],
            7 => vec![format!("{s}{v} = r#{q}raw"), format!("  {q}quoted{q} \\"), format!("{q}#")],
            8 => vec![format!("{s}#- multi \\"), format!("  line {a} ' \\"), "-#".into()],
            9 => vec![format!("{s}# comment {a} \\"), format!("{s}{v} = {b}")],
            10 => vec![format!("{s}{v} = id2("), format!("  {q}a \\"), format!("  b{q},"), format!("  {a}"), ")".into()],
            // (format options may not start with the indentation of a nested line: top level only)
            _ => vec![format!("{s}{v} = {q}v {{{a}:"), format!(">6}} w{q}")],
        }
    }

    /// the body of a block: statements, at least one of which is not a comment / blank line
    fn body(&mut self, lo: usize, hi: usize, depth: usize) -> Vec<String> {
        let mut r = self.fillers(lo, hi, depth);
        let at_end = self.rng.chance(1, 2);
        let s = self.simple();
        if at_end {
            r.extend(s);
        } else {
            let mut t = s;
            t.extend(r);
            r = t;
        }
        r
    }

    fn fillers(&mut self, lo: usize, hi: usize, depth: usize) -> Vec<String> {
        let n = lo + self.rng.below(hi - lo + 1);
        let mut r = vec![];
        for _ in 0..n {
            r.extend(self.filler(depth));
        }
        r
    }

    /// wrap a key statement (which never completes) into a block
    fn wrap(&mut self, body: Vec<String>) -> Vec<String> {
        let k = self.rng.below(13);
        self.stat(format!("wrapper={k}"));
        let s = M_STMT;
        let h = M_HEADER;
        let i = format!("i{}", self.uid());
        let simple = self.simple();
        let mut r: Vec<String> = vec![];
        match k {
            0 => {
                let c = *self.rng.pick(&["true", "1 == 1", "not false"]);
                r.push(format!("{s}{h}if {c}"));
                r.extend(indent(body, 2));
            }
            1 => {
                r.push(format!("{s}{h}if false"));
                r.extend(indent(simple, 2));
                r.push(format!("{h}else"));
                r.extend(indent(body, 2));
            }
            2 => {
                r.push(format!("{s}{h}if false"));
                r.extend(indent(simple, 2));
                r.push(format!("{h}else if true"));
                r.extend(indent(body, 2));
            }
            3 => {
                r.push(format!("{s}{h}for {i} in 0..1"));
                r.extend(indent(body, 2));
            }
            4 => {
                r.push(format!("{s}{h}while true"));
                r.extend(indent(body, 2));
                r.push(format!("  {s}break"));
            }
            5 => {
                r.push(format!("{s}{h}until false"));
                r.extend(indent(body, 2));
                r.push(format!("  {s}break"));
            }
            6 => {
                r.push(format!("{s}{h}loop"));
                r.extend(indent(body, 2));
                r.push(format!("  {s}break"));
            }
            7 => {
                r.push(format!("{s}match 1"));
                r.push("  1 then".into());
                r.extend(indent(body, 4));
            }
            8 => {
                r.push(format!("{s}switch"));
                r.push("  true then".into());
                r.extend(indent(body, 4));
            }
            9 => {
                let n = self.uid();
                r.push(format!("{s}{h}try"));
                r.push(format!("  {s}throw 'inner {n}'"));
                r.push(format!("{h}catch e"));
                r.extend(indent(body, 2));
            }
            10 => {
                r.push(format!("{s}{h}try"));
                r.extend(indent(simple, 2));
                r.push(format!("{h}catch e"));
                r.extend(indent(self.simple(), 2));
                r.push(format!("{h}finally"));
                r.extend(indent(body, 2));
            }
            11 => {
                r.push(format!("{s}{h}for {i} in 0..3"));
                r.push(format!("  {s}{h}if {i} == 2"));
                r.extend(indent(body, 4));
            }
            _ => {
                r.push(format!("{s}match 2"));
                r.push("  1 then 0".into());
                r.push("  2 then".into());
                r.extend(indent(body, 4));
                r.push("  else 5".into());
            }
        }
        r
    }

    /// a single-line failing expression / statement, with lines that must precede it
    fn fault(&mut self) -> (Vec<String>, Expr) {
        match self.rng.below(100) {
            0..=17 => return self.chain_fault(),
            18..=31 => return self.register_fault(),
            _ => {}
        }
        let k = self.rng.below(21);
        let n = self.uid();
        let z = format!("z{n}");
        let m = M_FAULT;
        let s = M_STMT;
        let e = |txt: String, atomic: bool, stmt_only: bool| Expr { lines: vec![txt], atomic, stmt_only, is_call: false, kind: format!("fault={k}") };
        match k {
            0 => (vec![], e(format!("{m}throw 'boom {n}'"), false, true)),
            1 => (vec![], e(format!("{m}throw 'b{{{n} + 1}}'"), false, true)),
            2 => (vec![], e(format!("{m}assert false"), false, true)),
            3 => (vec![], e(format!("{m}assert_eq {n}, 0"), false, true)),
            4 => {
                let op = *self.rng.pick(&["+", "-", "*", "/", "%"]);
                let (l, r) = if self.rng.chance(1, 2) { (n.to_string(), "null".to_string()) } else { ("null".to_string(), n.to_string()) };
                (vec![], e(format!("{m}({l} {op} {r})"), true, false))
            }
            5 => (vec![], e(format!("{m}[1, 2][{}]", 5 + n), true, false)),
            6 => (vec![format!("{s}{z} = 5")], e(format!("{m}{z}()"), true, false)),
            7 => (vec![format!("{s}{z} = {{}}")], e(format!("{m}{z}.missing()"), true, false)),
            8 => (vec![], e(format!("{m}'abc'.nope()"), true, false)),
            9 => (vec![], e(format!("{m}(-'a')"), true, false)),
            10 => (vec![], e(format!("{m}(1..'a')"), true, false)),
            11 => (vec![], e(format!("{m}number.abs('x')"), true, false)),
            12 => (vec![], e(format!("{m}let {z}: String = {n}"), false, true)),
            13 => (vec![format!("{s}{z} = [1]")], e(format!("{m}{z}[5] = 0"), false, true)),
            14 => (vec![format!("{s}{z} = null")], e(format!("{m}{z}.y = 1"), false, true)),
            15 => (vec![], e(format!("{m}undefined_fn_{n}()"), true, false)),
            16 => (vec![], e(format!("{m}undefined_id_{n}"), true, false)),
            17 => (vec![format!("{s}{z} = 1")], e(format!("{m}{z} += null"), false, true)),
            18 => (vec![], e(format!("{m}('a' < {n})"), true, false)),
            19 => (vec![format!("{s}{z} = null")], e(format!("{m}{z}.foo"), true, false)),
            _ => (vec![], e(format!("{m}'s {{1 + null}} t'"), true, false)),
        }
    }

    /// a call of `callee` (level k): the marker M_CALL sits on the line of the callee token.
    /// `first_arg`: the call must pass this text as its first argument.
    fn call_expr(&mut self, k: usize, callee: &str, map_form: bool, first_arg: Option<&str>) -> Expr {
        let mut f = self.rng.below(if map_form { 13 } else { 12 });
        if first_arg.is_some() {
            f = *self.rng.pick(&[1usize, 2, 3, 4, 5, 6, 7, 8, 10, 11]);
        }
        let c = format!("{M_CALL}{k}");
        let e = format!("{M_CEND}{k}");
        let a = first_arg.map(|x| x.to_string()).unwrap_or_else(|| self.int().to_string());
        let b = self.int();
        if self.rng.chance(1, 6) {
            // the call is a node of a multi-line chain, on the line of the access it is attached to,
            // with and without `?` checks around it and further (never evaluated) nodes after it
            let cf = self.rng.below(5);
            let chk = if self.rng.chance(1, 2) { "?" } else { "" };
            let mut lines = match cf {
                0 => vec![format!("id1({{go: {callee}}})"), format!("{c}{e}  .go({a}){chk}")],
                1 => vec![format!("id1({{p: {{go: {callee}}}}})"), "  .p".to_string(), format!("{c}{e}  .go({a}, {b}){chk}")],
                2 => vec![format!("id1({{p: [0, {callee}]}})"), format!("{c}{e}  .p[1]({a}){chk}")],
                3 => vec![format!("id1({{go: {callee}}})"), format!("{c}{e}  .go?({a}){chk}")],
                _ => vec![format!("id1({{p: {{'go': {callee}}}}}).p?"), format!("{c}{e}  .'go'({a}){chk}")],
            };
            let more = if self.calls_return { 0 } else { self.rng.below(3) };
            for i in 0..more {
                lines.push(format!("  .zz{i}{}", if self.rng.chance(1, 2) { "?" } else { "" }));
            }
            let kind = format!("callform=chain{cf}{}", if more == 0 { chk } else { "" });
            return Expr { lines, atomic: false, stmt_only: false, is_call: true, kind };
        }
        if first_arg.is_none() && self.rng.chance(1, 8) {
            // piped calls, one `->` per line; the call site is the line of the callee token
            let mut pf = self.rng.below(8);
            if callee.contains('.') {
                // `x -> f -> m.g` (a pipe whose left side is itself a piped call, into a chain) passes
                // the wrong argument on the unchanged tree (a Function instead of the value), a
                // code-generation defect outside this property, reported to the integrator: pipes
                // into a chain are generated with a plain left side only
                pf = *self.rng.pick(&[0usize, 3, 5, 6]);
            }
            if pf == 3 && self.calls_return {
                // `x -> f(b)` pipes into the RESULT of f(b): only usable when f(b) never returns
                pf = 0;
            }
            let lines = match pf {
                0 => vec![a.clone(), format!("{c}{e}  -> {callee}")],
                1 => vec![a.clone(), "  -> id1".to_string(), format!("{c}{e}  -> {callee}")],
                2 => vec![a.clone(), "  -> id1".to_string(), format!("{c}{e}  -> {callee} {b}")],
                3 => vec![a.clone(), format!("{c}{e}  -> {callee}({b})")],
                // (a pipe into a chain that contains a call before its last access, `x -> g(m).f`, passes
                // the wrong argument on the unchanged tree — a code-generation defect outside this
                // property, reported to the integrator; not generated)
                4 => vec![a.clone(), "  -> id1".to_string(), "  -> id1".to_string(), format!("{c}{e}  -> {callee}")],
                5 => vec![format!("id1({a})"), format!("{c}{e}  -> ({callee})")],
                6 => vec![format!("{a} ->"), format!("{c}{e}  {callee}")],
                _ => vec![format!("[{a}, {b}]"), "  -> id1".to_string(), format!("{c}{e}  -> {callee}")],
            };
            let mut lines = lines;
            if !self.calls_return && pf != 6 && !callee.contains('.') && self.rng.chance(1, 3) {
                lines.push("  -> id1".to_string());
            }
            let kind = format!("callform=pipe{pf}");
            return Expr { lines, atomic: false, stmt_only: false, is_call: true, kind };
        }
        let kind = format!("callform={f}");
        let mk = |lines: Vec<String>, atomic: bool| Expr { lines, atomic, stmt_only: false, is_call: true, kind: kind.clone() };
        match f {
            0 => mk(vec![format!("{c}{e}{callee}()")], true),
            1 => mk(vec![format!("{c}{e}{callee}({a})")], true),
            2 => mk(vec![format!("{c}{e}{callee}({a}, {b})")], true),
            3 => mk(vec![format!("{c}{e}{callee} {a}")], false),
            4 => mk(vec![format!("{c}{e}{callee} {a}, {b}")], false),
            5 => mk(vec![format!("{c}{callee}("), format!("  {a},"), format!("  {b}"), format!("{e})")], false),
            6 => mk(vec![format!("{c}{callee} {a},"), format!("{e}  {b}")], false),
            7 => mk(vec![format!("{c}{e}{a} -> {callee}")], false),
            8 => mk(vec![format!("{c}{callee}("), format!("{e}    {a}, {b})")], false),
            9 => mk(vec![format!("{c}{e}{callee}(id1({a}), id2({b}, 1))")], true),
            10 | 11 => {
                // the second argument is a function literal (never called) whose body holds a
                // sample of constructs on the lines after the call line: every span pushed while
                // compiling them must be popped again before the call instruction is emitted
                let was_in_fn = self.in_fn;
                self.in_fn = true;
                let mut body = self.body(1, 3, 1);
                self.in_fn = was_in_fn;
                body.push(format!("{M_STMT}p + q"));
                let body: Vec<String> = body.into_iter().map(|l| l.replace(M_STMT, "").replace(M_SIMPLE, "").replace(M_HEADER, "")).collect();
                let params = *self.rng.pick(&["|p, q|", "|p, q|", "|(p, q), {r}|", "|p: Number, q: Number|"]);
                if f == 10 {
                    let mut lines = vec![format!("{c}{callee}("), format!("  {a},"), format!("  {params}")];
                    lines.extend(indent(body, 4));
                    lines.push(format!("{e})"));
                    mk(lines, false)
                } else {
                    let mut lines = vec![format!("{c}{callee} {a}, {params}")];
                    lines.extend(indent(body, 4));
                    let last = lines.pop().unwrap();
                    lines.push(format!("{e}{last}"));
                    mk(lines, false)
                }
            }
            _ => {
                // m.go() with the call on a continuation line
                let (obj, meth) = callee.split_once('.').unwrap();
                mk(vec![obj.to_string(), format!("{c}{e}  .{meth}({a})")], false)
            }
        }
    }

    /// a statement that evaluates `e` (nothing before it in the statement can fail)
    fn embed(&mut self, e: &Expr, plain_only: bool) -> Vec<String> {
        let v = self.v();
        let s = M_STMT;
        let (a, b) = (self.int(), self.int());
        let multi = e.lines.len() > 1;
        let first = e.lines[0].clone();
        let rest: Vec<String> = e.lines[1..].to_vec();
        if e.stmt_only {
            self.stat("ctx=stmt");
            let mut r = vec![format!("{s}{first}")];
            r.extend(rest);
            return r;
        }
        if multi || !e.atomic || plain_only {
            // an expression whose value is unused may not be compiled at all: a bare expression
            // statement is only used for calls
            let lo = if e.is_call { 0 } else { 1 };
            let k = lo + self.rng.below(if self.in_fn { 3 - lo } else { 2 - lo });
            self.stat(format!("ctx=plain{k}"));
            let head = match k {
                0 => format!("{s}{first}"),
                1 => format!("{s}{v} = {first}"),
                _ => format!("{s}return {first}"),
            };
            let mut r = vec![head];
            r.extend(rest);
            return r;
        }
        let x = first;
        let mut k = self.rng.below(if self.in_fn { 36 } else { 35 });
        while !e.is_call && (k == 0 || k == 17) {
            k = self.rng.below(35);
        }
        self.stat(format!("ctx={k}"));
        match k {
            0 => vec![format!("{s}{x}")],
            1 => vec![format!("{s}{v} = {x}")],
            2 => vec![format!("{s}{v} = {a} + {x}")],
            3 => vec![format!("{s}{v} = [{a}, {x}, {b}]")],
            4 => vec![format!("{s}{v} = ({a}, {x})")],
            5 => vec![format!("{s}{v} = {{a: {x}}}")],
            6 => vec![format!("{s}{v} = 'pre {{{x}}} post'")],
            7 => vec![format!("{s}{v} = id1({x})")],
            8 => vec![format!("{s}{v} = id2({a}, {x})")],
            9 => vec![format!("{s}{v} = not {x}")],
            10 => vec![format!("{s}if {x} then 1 else 2")],
            11 => vec![format!("{s}{v} = if true then {x} else 0")],
            12 => vec![format!("{s}{v} = -{x}")],
            13 => vec![format!("{s}{v} = {x}.foo")],
            14 => vec![format!("{s}{v} = true and {x}")],
            15 => vec![format!("{s}{v} = {a} < {x}")],
            16 => vec![format!("{s}{v} = {x} -> id1")],
            17 => vec![format!("{s}{v} = {a}; {x}")],
            // the hole on a line of its own inside a multi-line construct
            18 => vec![format!("{s}{v} = ["), format!("  {a},"), format!("  {x},"), format!("  {b}"), "]".into()],
            19 => vec![format!("{s}{v} = id2("), format!("  {a},"), format!("  {x}"), ")".into()],
            20 => vec![format!("{s}{v} ="), format!("  a: {a}"), format!("  b: {x}"), format!("  c: {b}")],
            21 => vec![format!("{s}{v} = {{"), format!("  a: {a},"), format!("  b: {x},"), "}".into()],
            22 => vec![format!("{s}{v} = ({a} +"), format!("  {x})")],
            23 => vec![format!("{s}{v} = {a} +"), format!("  {x}")],
            24 => vec![format!("{s}{v} = 'abc"), format!("  {{{x}}} x'")],
            25 => vec![format!("{s}if {x}"), format!("  {s}{v} = 1")],
            26 => vec![format!("{s}while {x}"), format!("  {s}break")],
            27 => vec![format!("{s}for q{a} in {x}"), format!("  {s}{v} = 1")],
            28 => vec![format!("{s}match {x}"), "  1 then 2".into(), "  else 3".into()],
            29 => vec![format!("{s}switch"), format!("  {x} then 1"), "  else 2".into()],
            30 => vec![format!("{s}{v} = match 1"), "  0 then 5".into(), format!("  1 then {x}"), "  else 3".into()],
            31 => vec![format!("{s}{v} = {x}"), "  .foo()".into()],
            32 => vec![format!("{s}{v} = id2 {a},"), format!("  {x}")],
            33 => vec![format!("{s}{v} = switch"), "  false then 1".into(), format!("  else {x}")],
            34 => vec![format!("{s}{v} = ({a}, {b})"), format!("  .fold {x}, |p, q| p + q")],
            _ => vec![format!("{s}return {x}")],
        }
    }
}

/// one level of the call chain: the script call at `line` (call expression ends on `end`);
/// `nat`: that call sits in a callback run by a core-library call on line `nat`; `adp`: the callback
/// belongs to a lazy iterator adaptor created on line `adp` (and `nat` is the consumer's line)
#[derive(Clone, Debug, PartialEq)]
struct CallSite {
    line: usize,
    end: usize,
    in_try: bool,
    nat: Option<usize>,
    adp: Option<usize>,
    /// `line` is not a call instruction on the stack but the instruction through which the
    /// interpreter was entered again: the for loop / core-library consumer that resumes the callee
    /// (a generator), or the core-library call that runs the callback holding the fault itself
    /// (`adp`: through a lazy adaptor created there). An interpreter entry of its own sits between
    /// the frames inside and this line
    generator: bool,
}

#[derive(Clone, Debug)]
struct Planted {
    src: String,
    fault_line: usize,
    /// call sites, outermost first: (line, end line, in_try)
    calls: Vec<CallSite>,
    fault_in_try: bool,
    stats: Vec<String>,
    flat_simple: Vec<usize>,
    flat_headers: Vec<usize>,
    flat_stmts: Vec<(usize, usize)>,
    lines: Vec<String>,
    eol: String,
    trailing: bool,
}

/// a program with a fault planted at a known line inside `depth` nested calls
fn gen_planted(rng: &mut Rng, allow_try: bool) -> Planted {
    let mut g = G::new(rng.fork());
    let depth = g.rng.weighted(&[3, 4, 4, 3, 2]);
    g.stat(format!("depth={depth}"));
    // level that gets wrapped into try/catch: depth+1 = none; 0 = the fault itself; k>=1 = the call
    // site in function k (k == depth: the top-level call)
    let try_level: Option<usize> = if allow_try && g.rng.chance(1, 10) { Some(g.rng.below(depth + 1)) } else { None };
    g.stat(format!("try={}", try_level.is_some()));
    g.calls_return = try_level.is_some();
    let s = M_STMT;
    let mut raw: Vec<String> = vec![format!("{s}id1 = |a| a"), format!("{s}id2 = |a, b| a")];
    raw.extend(g.fillers(0, 3, 0));
    let typed_arg = depth >= 1 && try_level.is_none() && g.rng.chance(1, 12);

    // key statement builder shared by the fault (level 0) and call sites (levels 1..=depth)
    let mut callee = String::new();
    let mut callee_is_map = false;
    // the function of the previous level is a generator that produces this many values before its
    // key statement runs
    let mut callee_gen: Option<usize> = None;
    let mut gen_consumer_at = vec![false; depth + 2];
    for level in 0..=depth {
        let top = level == depth;
        g.in_fn = !top;
        // the key statement of this level
        let in_try_here = try_level == Some(level);
        let mut plain_only = try_level.is_some_and(|t| level > t);
        // is the function of this level a generator? (its key statement then follows `yield`s)
        let mut is_gen = !top && !typed_arg && g.rng.chance(1, 5);
        // the key statement sits in a callback run by a core-library function
        let native = try_level.is_none() && !(level == 0 && typed_arg) && g.rng.chance(1, 6);
        if native {
            is_gen = false;
        }
        let (pre, expr) = if level == 0 {
            if typed_arg {
                // the fault is the type check of f0's first parameter (reported in f0's header);
                // the body of f0 is ordinary code
                (vec![], Expr { lines: vec![format!("{s}{} = a", g.v())], atomic: false, stmt_only: true, is_call: false, kind: "fault=typed-arg".into() })
            } else if native && g.rng.chance(1, 2) {
                // the first instruction of the callback fails (its parameter `p` is a Number)
                plain_only = plain_only || g.rng.chance(2, 3);
                g.param_fault("p")
            } else if is_gen && g.rng.chance(1, 2) {
                // the first instruction after the resumption fails
                plain_only = plain_only || g.rng.chance(2, 3);
                g.register_fault()
            } else if !top && !native && g.rng.chance(1, 8) {
                // a failing operation on the function's parameter (a Number)
                plain_only = plain_only || g.rng.chance(2, 3);
                g.param_fault("a")
            } else {
                g.fault()
            }
        } else if let Some(yields) = callee_gen {
            gen_consumer_at[level] = true;
            (vec![], g.consumer(level, &callee, yields))
        } else {
            let first = if typed_arg && level == 1 { Some("'not a number'") } else { None };
            (vec![], g.call_expr(level, &callee, callee_is_map, first))
        };
        g.stat(expr.kind.clone());
        let mut key = pre;
        g.stat(format!("generator_level={is_gen}"));
        let mut direct_after_yield = false;
        let mut yields = 0;
        if is_gen {
            // `yield`s between the locals of the key statement and the key statement itself
            yields = g.rng.weighted(&[1, 4, 3, 2]);
            for i in 0..yields {
                key.push(format!("{s}yield {}", g.int()));
                direct_after_yield = true;
                if i + 1 < yields || g.rng.chance(1, 4) {
                    let fl = g.fillers(0, 1, 1);
                    direct_after_yield = fl.is_empty();
                    key.extend(fl);
                }
            }
            g.stat(format!("generator_yields_before_key={yields}"));
            let reg = expr.kind.starts_with("fault=reg") || matches!(expr.kind.as_str(), "fault=6" | "fault=14" | "fault=19");
            g.stat(format!("generator_key={}", if level > 0 { "call" } else if reg { "register-fault" } else { "other-fault" }));
        }
        if native {
            // the call is made from a callback run by a core-library function
            let was = g.in_fn;
            g.in_fn = true;
            let mut body = g.embed(&expr, false);
            g.in_fn = was;
            if g.rng.chance(1, 4) {
                body = g.wrap(body);
            }
            let body: Vec<String> = body.into_iter().map(|l| l.replace(M_STMT, "").replace(M_SIMPLE, "").replace(M_HEADER, "")).collect();
            let v = g.v();
            let nat = format!("{M_NAT}{level}");
            let adp = format!("{M_ADP}{level}");
            let form = g.rng.below(6);
            g.stat(format!("native={form}"));
            let eager = *g.rng.pick(&[".fold 0, |p, q|", ".any |p|", ".all |p|", ".find |p|", ".position |p|"]);
            // every lazy adaptor that runs a callback (LAZY_ADAPTORS, checked against adaptors.rs)
            let uses_p = expr.kind.starts_with("fault=param");
            let lazy = loop {
                let l = *g.rng.pick(&[".each |p|", ".keep |p|", ".take |p|", ".intersperse ||", ".each |p|"]);
                if !(uses_p && l.ends_with("||")) {
                    break l;
                }
            };
            g.stat(format!("lazy_adaptor={}", lazy.split(' ').next().unwrap()));
            // (intersperse runs its callback between the first and the second value)
            let consumer = loop {
                let c = *g.rng.pick(&[".to_list()", ".to_tuple()", ".count()", ".last()", ".consume()", ".next()"]);
                if !(lazy.starts_with(".intersperse") && c == ".next()") {
                    break c;
                }
            };
            // the adaptor is consumed directly or through a copy (koto.copy / deep_copy / cycle):
            // the copy reports the same frames
            let copy = if form >= 3 { g.rng.weighted(&[3, 2, 2, 2]) } else { 0 };
            if form >= 3 {
                g.stat(format!("lazy_adaptor_copy={}", ["none", "koto.copy", "koto.deep_copy", "cycle"][copy]));
            }
            let copied = |it: &str| match copy {
                1 => format!("koto.copy({it})"),
                2 => format!("koto.deep_copy({it})"),
                // (bounded: `cycle().to_tuple()` / `.to_list()` panic with `capacity overflow` on the size
                // hint of the endless iterator before the first value is pulled — outside this property,
                // reported to the integrator)
                3 => format!("{it}.cycle().take(50)"),
                _ => it.to_string(),
            };
            match form {
                0 => {
                    key.push(format!("{s}{v} = (1, 2)"));
                    key.push(format!("  {nat}{eager}"));
                    key.extend(indent(body, 4));
                }
                1 => {
                    key.push(format!("{s}{v} = {nat}(1, 2){eager}"));
                    key.extend(indent(body, 2));
                }
                2 => {
                    key.push(format!("{s}{v} = {nat}iterator.fold (1, 2), 0, |p, q|"));
                    key.extend(indent(body, 2));
                }
                3 => {
                    key.push(format!("{s}{v} = [1, 2]"));
                    key.push(format!("  {adp}{lazy}"));
                    key.extend(indent(body, 4));
                    if copy == 3 {
                        key.push("  .cycle()".to_string());
                        key.push("  .take(50)".to_string());
                    }
                    key.push(format!("  {nat}{consumer}"));
                }
                _ => {
                    let it = format!("it{}", g.uid());
                    key.push(format!("{s}{it} = (1, 2)"));
                    key.push(format!("  {adp}{lazy}"));
                    key.extend(indent(body, 4));
                    key.extend(g.fillers(0, 2, 1));
                    if form == 4 {
                        key.push(format!("{s}{v} = {nat}{}{consumer}", copied(&it)));
                    } else {
                        key.push(format!("{s}{v} = {}", copied(&it)));
                        key.push(format!("  {nat}{consumer}"));
                    }
                }
            }
        } else {
            key.extend(g.embed(&expr, plain_only));
        }
        let single_stmt_key = key.len() == 1;
        let nwrap = g.rng.weighted(&[5, 3, 1]);
        g.stat(format!("nwrap={nwrap}"));
        if level == 0 {
            // is the failing operation the first instruction of its statement (operands in registers,
            // statement = the operation itself or a plain assignment of it)?
            let ctx_plain = g.stats.iter().rev().find(|x| x.starts_with("ctx=")).is_some_and(|x| x == "ctx=stmt" || x.starts_with("ctx=plain") || x == "ctx=1");
            let reg = expr.kind.starts_with("fault=reg") || expr.kind.starts_with("fault=param") || matches!(expr.kind.as_str(), "fault=6" | "fault=14" | "fault=19");
            if reg && ctx_plain && nwrap == 0 {
                if is_gen && direct_after_yield {
                    g.stat("first_instruction=after-generator-resume");
                } else if native && expr.kind.starts_with("fault=param") {
                    g.stat("first_instruction=of-callback");
                } else if !native && expr.kind.starts_with("fault=param") {
                    g.stat("first_instruction=param-fault-in-function");
                } else {
                    g.stat("first_instruction=of-statement");
                }
            }
        }
        for _ in 0..nwrap {
            key = g.wrap(key);
        }
        if in_try_here {
            let mut r = vec![format!("{s}{M_HEADER}try")];
            r.extend(indent(key, 2));
            r.push(format!("{M_HEADER}catch e"));
            r.push(format!("  {s}print 'caught'"));
            key = r;
        }
        if top {
            raw.extend(g.fillers(0, 3, 0));
            raw.extend(key);
            raw.extend(g.fillers(0, 2, 0));
        } else {
            // function `level`
            let mut body = g.fillers(0, 3, 1);
            let typed_here = typed_arg && level == 0;
            let one_liner = !is_gen && !typed_here && single_stmt_key && nwrap == 0 && !in_try_here && !key[0].contains(';') && g.rng.chance(1, 5);
            let params = if typed_here {
                let t = *g.rng.pick(&["Number", "Number?", "List", "Bool"]);
                format!("{M_FAULT}a: {t}, b = 0")
            } else {
                "a = 0, b = 0".to_string()
            };
            body.extend(key.clone());
            body.extend(g.fillers(0, 2, 1));
            if is_gen {
                if yields == 0 || g.rng.chance(1, 2) {
                    body.push(format!("{s}yield {}", g.int()));
                }
            } else if try_level.is_some() || g.rng.chance(1, 2) {
                body.push(format!("{s}{}", g.int()));
            }
            callee_gen = if is_gen { Some(yields) } else { None };
            let map_form = g.rng.chance(1, 4);
            let name = format!("f{level}");
            if one_liner {
                g.stat("def=oneliner");
                let k0 = key[0].replace(M_STMT, "");
                raw.push(format!("{s}{name} = |{params}| {k0}"));
                callee = name;
                callee_is_map = false;
            } else if map_form {
                g.stat("def=map");
                raw.push(format!("{s}m{level} ="));
                if g.rng.chance(1, 2) {
                    raw.push(format!("  other: {}", g.int()));
                }
                raw.push(format!("  {M_HEADER}go: |{params}|"));
                raw.extend(indent(body, 4));
                callee = format!("m{level}.go");
                callee_is_map = true;
            } else {
                g.stat("def=plain");
                raw.push(format!("{s}{M_HEADER}{name} = |{params}|"));
                raw.extend(indent(body, 2));
                callee = name;
                callee_is_map = false;
            }
            raw.extend(g.fillers(0, 2, 0));
        }
    }
    let eol = if g.rng.chance(1, 5) { "\r\n" } else { "\n" };
    let trailing = g.rng.chance(3, 4);
    let mut blank_tail = 0;
    if trailing && g.rng.chance(1, 4) {
        blank_tail = 1 + g.rng.below(2);
    }
    for _ in 0..blank_tail {
        raw.push(String::new());
    }
    let f = flatten(&raw, eol, trailing);
    let mut calls = vec![];
    for level in (1..=depth).rev() {
        calls.push(CallSite {
            line: f.calls[level].expect("call marker"),
            end: f.cends[level].expect("cend marker"),
            in_try: try_level == Some(level),
            nat: f.nats[level],
            adp: f.adps[level],
            generator: gen_consumer_at[level],
        });
    }
    if let Some(n) = f.nats[0] {
        // the fault itself sits in a callback: an entry boundary without a call instruction
        let fl = f.fault.expect("fault marker");
        calls.push(CallSite { line: n, end: n.max(fl), in_try: false, nat: None, adp: f.adps[0], generator: true });
    }
    Planted {
        src: f.src.clone(),
        fault_line: f.fault.expect("fault marker"),
        calls,
        fault_in_try: try_level == Some(0),
        stats: g.stats,
        flat_simple: f.simple,
        flat_headers: f.headers,
        flat_stmts: f.stmt_starts,
        lines: f.lines,
        eol: eol.to_string(),
        trailing,
    }
}

// ------------------------------------------------------------------------------------------------

struct Ctx {
    rep: Report,
    drv: Driver,
    k_fail: u64,
    d_fail: u64,
    known_hits: std::collections::BTreeMap<String, u64>,
    open: Vec<String>,
    verbose: bool,
    mod_counter: u64,
    /// cause rules of open findings are applied (off while the listed witnesses are replayed)
    attribute: bool,
}

impl Ctx {
    fn d(&mut self, name: &str, detail: Value) {
        self.d_fail += 1;
        if self.d_fail <= 8 {
            self.rep.violation("D", name, detail);
        }
    }
    fn k(&mut self, name: &str, detail: Value) {
        self.k_fail += 1;
        if self.k_fail <= 5 {
            self.rep.violation("K", name, detail);
        }
    }

    /// (K2) one excerpt of a rendered message against the model's rendering for the same span
    fn check_excerpt_text(&mut self, what: &str, src: &str, sp: &Span, real: &str) -> bool {
        let resp = self.drv.ask(&excerpt_request(src, sp));
        match model_excerpt(&resp) {
            Ok(m) if m == real => true,
            other => {
                self.k(
                    "K:C12:Excerpt.render",
                    json!({"replay_kind": "excerpt", "context": what, "program": src, "span": span_s(sp),
                           "impl": real, "model": format!("{:?}", other),
                           "note": "excerpt text rendered by the implementation differs from Model/Excerpt.lean render; theorems excerpt_exact/excerpt_total no longer speak about this code"}),
                );
                false
            }
        }
    }

    // ---- (K1) source map ----
    fn srcmap(&mut self, rng: &mut Rng, n: usize) {
        // spans that differ in one component only are in the pool (equal start / equal end / equal lines)
        let mut pool: Vec<Span> = (0..6u32).map(|i| mkspan(i / 2, i % 3, i / 2 + (i % 2), 4 + i)).collect();
        pool.extend([mkspan(0, 0, 0, 9), mkspan(0, 0, 1, 4), mkspan(0, 3, 0, 4), mkspan(1, 0, 0, 4), mkspan(0, 0, 0, 4)]);
        let mut reqs = vec![];
        let mut reals = vec![];
        for _ in 0..n {
            let len = rng.below(14);
            let ordered = !rng.chance(1, 8);
            let mut ip = rng.below(3) as u32;
            let mut di = DebugInfo::default();
            let mut req = String::from("srcmap");
            let mut maxip = 0;
            for _ in 0..len {
                if ordered {
                    ip += *rng.pick(&[0u32, 0, 1, 1, 2, 3, 7]);
                } else {
                    ip = rng.below(20) as u32;
                }
                maxip = maxip.max(ip);
                let sp = if rng.chance(1, 2) { pool[rng.below(2)] } else { *rng.pick(&pool) };
                di.push(ip, sp);
                req.push_str(&format!(" {}:{}", ip, span_s(&sp)));
            }
            req.push_str(" |");
            let mut real = vec![];
            for q in 0..=(maxip + 2) {
                req.push_str(&format!(" {q}"));
                real.push(ospan_s(&di.get_source_span(q)));
            }
            self.rep.bump(if ordered { "srcmap=ordered" } else { "srcmap=unordered" });
            reqs.push(req);
            reals.push(real.join(" "));
        }
        let resps = self.drv.batch(&reqs);
        for ((req, real), model) in reqs.iter().zip(reals.iter()).zip(resps.iter()) {
            self.rep.case(req, req.split(' ').count() > 4);
            if self.rep.evaluations % 997 == 3 {
                self.rep.sample(json!({"request": req, "impl": real, "model": model}));
            }
            if real != model {
                self.k(
                    "K:C12:SrcMap.lookup",
                    json!({"replay_kind": "srcmap", "request": req, "impl": real, "model": model,
                           "note": "DebugInfo::push/get_source_span disagree with Model/SrcMap.lean; srcmap_lossless/lookup_spec no longer speak about this code"}),
                );
            }
        }
    }

    // ---- (K2) excerpt, direct calls ----
    fn excerpt_direct(&mut self, rng: &mut Rng, n: usize) {
        let mut cases: Vec<(String, Span)> = vec![];
        // hand-written boundary cases
        for (src, sp) in [
            ("", mkspan(0, 0, 0, 0)),
            ("a\n", mkspan(1, 0, 1, 0)),
            ("a\n", mkspan(0, 1, 1, 0)),
            ("a", mkspan(0, 0, 0, 1)),
            ("a", mkspan(0, 1, 0, 0)),
            ("a\nb", mkspan(1, 0, 0, 0)),
            ("a\nb\n", mkspan(0, 0, 5, 0)),
            ("a\r\nb\r\n", mkspan(0, 0, 1, 1)),
            ("\n\n\n", mkspan(2, 0, 3, 0)),
            ("\n\n\n", mkspan(3, 0, 4, 0)),
        ] {
            cases.push((src.to_string(), sp));
        }
        let alphabet = ["a", "b", " ", "  ", "x = 1", "'", "|", "^", "é", "日本", "\t", "#", "(", "long line of text "];
        for _ in 0..n {
            let nl = match rng.below(20) {
                0 => 0,
                1 => 95 + rng.below(12),
                2 => 995 + rng.below(10),
                3 => 8 + rng.below(4),
                _ => 1 + rng.below(6),
            };
            let eol = if rng.chance(1, 5) { "\r\n" } else { "\n" };
            let mut src = String::new();
            for i in 0..nl {
                let k = if nl > 50 { rng.below(2) } else { rng.below(5) };
                for _ in 0..k {
                    src.push_str(*rng.pick(&alphabet));
                }
                if i + 1 < nl || rng.chance(1, 2) {
                    src.push_str(eol);
                }
            }
            let nlines = src.lines().count() as i64;
            let pos = |rng: &mut Rng| -> (u32, u32) {
                let l = if rng.chance(1, 6) { nlines + rng.range(-1, 1) } else { rng.range(0, (nlines - 1).max(0)) };
                (l.max(0) as u32, rng.below(9) as u32)
            };
            let (sl, sc) = pos(rng);
            let (el, ec) = match rng.below(6) {
                0 => pos(rng),
                1 => (sl + 1 + rng.below(3) as u32, rng.below(9) as u32),
                2 => (sl, sc),
                _ => (sl, sc + rng.below(6) as u32),
            };
            cases.push((src, mkspan(sl, sc, el, ec)));
        }
        let reqs: Vec<String> = cases.iter().map(|(s, sp)| excerpt_request(s, sp)).collect();
        let resps = self.drv.batch(&reqs);
        for (((src, sp), req), resp) in cases.iter().zip(reqs.iter()).zip(resps.iter()) {
            let real = kvh::catch(|| format_source_excerpt(src, sp, None));
            let model = model_excerpt(resp);
            let nlines = src.lines().count() as u32;
            let guard = sp.start.line < nlines && (sp.start.line, sp.start.column) <= (sp.end.line, sp.end.column);
            self.rep.case(req, nlines >= 2 || !guard);
            self.rep.bump(match &real {
                Ok(_) if sp.start.line == sp.end.line => "excerpt=single-line",
                Ok(_) if sp.end.line >= nlines => "excerpt=multi-line-past-end",
                Ok(_) => "excerpt=multi-line",
                Err(_) => "excerpt=panic",
            });
            if self.rep.evaluations % 499 == 5 {
                self.rep.sample(json!({"request_head": req.chars().take(80).collect::<String>(), "source": src.chars().take(200).collect::<String>(),
                                      "span": span_s(sp), "impl": real, "model": resp.chars().take(200).collect::<String>()}));
            }
            let agree = match (&real, &model) {
                (Ok(a), Ok(b)) => a == b,
                (Err(_), Err(k)) => !k.starts_with("bad-model-response"),
                _ => false,
            };
            if !agree {
                self.k(
                    "K:C12:Excerpt.excerpt",
                    json!({"replay_kind": "excerpt", "program": src, "span": span_s(sp), "impl": real, "model": format!("{:?}", model),
                           "note": "format_source_excerpt disagrees with Model/Excerpt.lean (text or panic behaviour); excerpt_exact/excerpt_total/excerpt_panic_iff no longer speak about this code"}),
                );
            }
            // (D) under the guard the implementation must not panic
            if guard && real.is_err() {
                self.d("C12:render-panic", json!({"replay_kind": "excerpt", "program": src, "span": span_s(sp), "panic": real}));
            }
        }
    }

    /// (D) structure of the real source map, the observable consequences of `instr_span` /
    /// `span_stack_balanced`: every instruction of a compiled chunk has a span, inside the text, that
    /// is the span of an AST node; an instruction inside the bytecode of a function literal has a span
    /// inside that function's span, and an instruction outside of it never has a span inside
    /// the function's body (a span left on the stack by the function's body would show there)
    fn check_chunk_spans(&mut self, src: &str, chunk: &Ptr<Chunk>) {
        let Ok(ast) = koto_parser::Parser::parse(src) else { return };
        let node_spans: std::collections::BTreeSet<Span> = ast.nodes().iter().map(|n| *ast.span(n.span)).collect();
        // function literal span -> span of its body (default values of parameters are evaluated by
        // the enclosing code after the function's own code, so only the body is exclusive)
        let bodies: std::collections::BTreeMap<Span, Span> = ast
            .nodes()
            .iter()
            .filter_map(|n| match &n.node {
                koto_parser::Node::Function(f) => Some((*ast.span(n.span), *ast.span(ast.node(f.body).span))),
                _ => None,
            })
            .collect();
        let mut reader = InstructionReader::new(chunk.clone());
        let mut instrs: Vec<(u32, Span)> = vec![];
        let mut funcs: Vec<(Span, usize, usize)> = vec![];
        loop {
            let ip = reader.ip as u32;
            let Some(instr) = reader.next() else { break };
            match chunk.debug_info.get_source_span(ip) {
                None => {
                    self.d("C12:instruction-without-span", json!({"replay_kind": "chunk", "settings": [settings().0, settings().1], "program": src, "ip": ip}));
                    return;
                }
                Some(sp) => {
                    if let Err(why) = span_inside(src, &sp) {
                        self.d("C12:instruction-span-outside-text", json!({"replay_kind": "chunk", "settings": [settings().0, settings().1], "program": src, "ip": ip, "span": span_s(&sp), "why": why}));
                        return;
                    }
                    if !node_spans.contains(&sp) {
                        self.d("C12:instruction-span-not-a-node", json!({"replay_kind": "chunk", "settings": [settings().0, settings().1], "program": src, "ip": ip, "span": span_s(&sp), "instruction": format!("{:?}", instr)}));
                        return;
                    }
                    if let koto_bytecode::Instruction::Function { size, .. } = instr {
                        funcs.push((sp, reader.ip, reader.ip + size as usize));
                    }
                    instrs.push((ip, sp));
                }
            }
        }
        let within = |a: &Span, b: &Span| (b.start.line, b.start.column) <= (a.start.line, a.start.column) && (a.end.line, a.end.column) <= (b.end.line, b.end.column);
        for (fsp, lo, hi) in &funcs {
            for (ip, sp) in &instrs {
                let inside_code = (*ip as usize) >= *lo && (*ip as usize) < *hi;
                let bad = if inside_code { !within(sp, fsp) } else { bodies.get(fsp).is_some_and(|b| within(sp, b)) };
                if bad {
                    self.d(
                        "C12:function-range-span",
                        json!({"replay_kind": "chunk", "settings": [settings().0, settings().1], "program": src, "ip": ip, "span": span_s(sp), "function_span": span_s(fsp), "function_code": [lo, hi],
                               "what": if inside_code { "an instruction of the function's code has a span outside the function literal" } else { "an instruction outside the function's code has a span inside the function's body" }}),
                    );
                    return;
                }
            }
        }
        self.rep.bump_by("instructions_checked", instrs.len() as u64);
        self.rep.bump_by("function_literals_checked", funcs.len() as u64);
    }

    // ---- (K3 + D) planted faults ----
    /// returns None if fine, Some(description) if a (D) clause failed (already reported unless `quiet`)
    fn planted_case(&mut self, p: &Planted, quiet: bool) -> Option<String> {
        let src = &p.src;
        // model prediction from the abstract description
        let req = planted_request(p);
        let model = self.drv.ask(&req);
        let real = run_real(src);
        let nontrivial = !p.calls.is_empty() || src.lines().count() >= 8;
        self.rep.case(&format!("{req} {} {}", kvh::fnv1a(src.as_bytes()), settings_label()), nontrivial);
        let mut fail: Option<(String, Value)> = None;
        let detail = |what: &str, extra: Value| -> Value {
            json!({"replay_kind": "planted", "settings": [settings().0, settings().1], "program": src, "fault_line": p.fault_line,
                   "calls": p.calls.iter().map(|c| json!([c.line, c.end, c.in_try, c.nat, c.adp, c.generator])).collect::<Vec<_>>(),
                   "fault_in_try": p.fault_in_try, "model": model, "what": what, "observed": extra})
        };
        let real_canon: String;
        match &real {
            Real::Panic(m) => {
                real_canon = format!("panic {m}");
                fail = Some(("C12:panic".into(), detail("the implementation panicked", json!(m))));
            }
            Real::Compile { span, rendered } => {
                real_canon = "compile-error".into();
                // generator bug or genuine: a generated program must compile
                fail = Some(("C12:generated-program-rejected".into(), detail("generated program does not compile", json!({"span": ospan_s(span), "rendered": rendered}))));
            }
            Real::Ok { stdout } => {
                real_canon = "caught".into();
                if model != "caught" {
                    fail = Some(("C12:no-error".into(), detail("the planted fault did not surface", json!({"stdout": stdout}))));
                } else if stdout.matches("caught").count() != 1 {
                    fail = Some(("C12:catch".into(), detail("the catch block did not run exactly once", json!({"stdout": stdout}))));
                }
            }
            Real::Runtime { message, frames, rendered, .. } => {
                let mut lines: Vec<String> = frames.iter().map(|f| f.map(|s| format!("0:{}", s.start.line)).unwrap_or("0:none".into())).collect();
                // open finding F-C12-4 (cause rule on the frame's span, see attribute_pipe_frame)
                let want: Vec<&str> = model.split(' ').skip(1).collect();
                if model.starts_with("uncaught ") && want.len() == lines.len() {
                    for i in 0..lines.len() {
                        if lines[i] != want[i] {
                            if let (Some(sp), Some(l)) = (frames[i], want[i].strip_prefix("0:").and_then(|x| x.parse::<usize>().ok())) {
                                if self.attribute_pipe_frame(src, &sp, l) {
                                    lines[i] = want[i].to_string();
                                }
                            }
                        }
                    }
                }
                real_canon = format!("uncaught {}", lines.join(" "));
                if real_canon != model {
                    fail = Some((
                        "C12:trace-lines".into(),
                        detail(
                            "reported lines (failing expression first, then call sites innermost first) differ from the planted ones",
                            json!({"impl_trace": real_canon, "message": message, "frames": frames.iter().map(ospan_s).collect::<Vec<_>>()}),
                        ),
                    ));
                } else {
                    // span extents
                    let mut expect: Vec<(usize, usize)> = vec![(p.fault_line, p.fault_line)];
                    for c in p.calls.iter().rev() {
                        if c.generator && c.nat.is_none() {
                            // no call instruction: (the adaptor's line, then) the resuming instruction
                            if let Some(a) = c.adp {
                                expect.push((a, c.end.max(a)));
                            }
                            expect.push((c.line, c.end));
                            continue;
                        }
                        expect.push((c.line, c.end));
                        if let Some(a) = c.adp {
                            expect.push((a, c.end.max(a)));
                        }
                        if let Some(n) = c.nat {
                            expect.push((n, c.end.max(n)));
                        }
                    }
                    for (i, (f, (lo, hi))) in frames.iter().zip(expect.iter()).enumerate() {
                        let sp = f.unwrap();
                        if let Err(why) = span_inside(src, &sp) {
                            fail = Some(("C12:span-outside-text".into(), detail(&why, json!({"frame": i, "span": span_s(&sp)}))));
                            break;
                        }
                        if (sp.end.line as usize) < *lo || (sp.end.line as usize) > *hi {
                            fail = Some((
                                "C12:span-extent".into(),
                                detail("the reported span leaves the line range of the failing expression / call expression", json!({"frame": i, "span": span_s(&sp), "expected_lines": [lo, hi]})),
                            ));
                            break;
                        }
                    }
                    // rendered message
                    if fail.is_none() {
                        match rendered {
                            Err(pm) => fail = Some(("C12:render-panic".into(), detail("rendering the error panicked", json!(pm)))),
                            Ok(text) => {
                                let parts: Vec<&str> = text.split("\n--- ").collect();
                                if parts.len() != frames.len() + 1 || parts[0] != message {
                                    fail = Some(("C12:render-shape".into(), detail("rendered message does not have one excerpt per frame", json!(text))));
                                } else {
                                    let ls = lines_of(src);
                                    for (i, part) in parts[1..].iter().enumerate() {
                                        let sp = frames[i].unwrap();
                                        // (D) quotes exactly the lines of the span, with their text
                                        let rows = quoted_rows(part);
                                        let want: Vec<(usize, String)> =
                                            (sp.start.line..=sp.end.line).map(|l| (l as usize + 1, ls[l as usize].to_string())).collect();
                                        if rows != want {
                                            fail = Some((
                                                "C12:excerpt-quote".into(),
                                                detail("the excerpt does not quote exactly the reported lines", json!({"frame": i, "excerpt": part, "expected_rows": want})),
                                            ));
                                            break;
                                        }
                                        // (K2)
                                        if !self.check_excerpt_text("runtime error frame", src, &sp, part) {
                                            break;
                                        }
                                    }
                                }
                            }
                        }
                    }
                }
            }
        }
        if self.rep.samples.len() < 8 && self.rep.evaluations % 331 == 7 {
            self.rep.sample(json!({"request": req, "program": src, "impl": real_canon, "model": model}));
        }
        match fail {
            None => None,
            Some((name, det)) => {
                if !quiet {
                    self.d(&name, det);
                }
                Some(name)
            }
        }
    }

    fn planted(&mut self, rng: &mut Rng, n: usize) {
        for i in 0..n {
            let p = gen_planted(rng, true);
            for s in &p.stats {
                self.rep.bump(s);
            }
            self.rep.bump(if p.eol == "\r\n" { "eol=crlf" } else { "eol=lf" });
            self.planted_case(&p, false);
            // structural check of the whole chunk, and the public Koto API path, on a subset
            if i % 4 == 0 {
                if let Ok(chunk) = compile(&p.src) {
                    self.check_chunk_spans(&p.src, &chunk);
                }
            }
            // the same program under another combination of the compiler's code generation flags
            // (positions must not depend on them); a fault that IS a type check needs them enabled
            let type_fault = p.stats.iter().any(|x| x == "fault=12" || x == "fault=typed-arg");
            let alt = if type_fault { (true, true) } else { *rng.pick(&[(false, false), (false, false), (true, true), (true, false)]) };
            set_settings(alt);
            self.rep.bump(&format!("settings={}", settings_label()));
            self.planted_case(&p, false);
            if i % 4 == 1 {
                if let Ok(chunk) = compile(&p.src) {
                    self.check_chunk_spans(&p.src, &chunk);
                }
            }
            set_settings(DEFAULT_SETTINGS);
            if i % 16 == 0 {
                self.koto_api_agrees(&p.src);
            }
            if i % 8 == 3 {
                self.no_source_case(&p.src, false);
            }
        }
    }

    /// (D) a chunk compiled from an AST (`Compiler::compile_ast`, public) has a source map but no
    /// source text: rendering an error of such a chunk must not panic and must still give the
    /// positions of its frames (`line:column` headers, nothing to quote)
    fn no_source_case(&mut self, src: &str, quiet: bool) -> Option<String> {
        let out = kvh::catch(|| {
            let ast = koto_parser::Parser::parse(src).ok()?;
            let chunk = koto_bytecode::Compiler::compile_ast(ast, None, compiler_settings()).ok()?;
            let mut vm = KotoVm::with_settings(KotoVmSettings { stdout: koto_runtime::make_ptr!(Capture::new()), stderr: koto_runtime::make_ptr!(Capture::new()), ..Default::default() });
            let e = vm.run(Ptr::from(chunk)).err()?;
            let heads: Vec<String> = e
                .trace
                .iter()
                .map(|InstructionFrame { chunk, instruction }| chunk.debug_info.get_source_span(*instruction).map(|s| format!("{}:{}", s.start.line + 1, s.start.column + 1)).unwrap_or("none".into()))
                .collect();
            let no_text = e.trace.iter().all(|f| f.chunk.debug_info.source.is_empty());
            Some((heads, no_text, kvh::catch(|| e.to_string())))
        });
        self.rep.case(&format!("nosource {} {}", kvh::fnv1a(src.as_bytes()), settings_label()), true);
        self.rep.bump("no_source_text_renderings");
        let det = |what: &str, extra: Value| json!({"replay_kind": "nosource", "settings": [settings().0, settings().1], "program": src, "what": what, "observed": extra});
        let fail: Option<(String, Value)> = match out {
            Err(p) => Some(("C12:panic".into(), det("compiling / running the AST-compiled chunk panicked", json!(p)))),
            Ok(None) => None,
            Ok(Some((heads, no_text, rendered))) => match rendered {
                Err(pm) => {
                    // open finding F-C12-6: cause = the chunk has no source text at all
                    if self.attribute && no_text && self.open.iter().any(|x| x == "F-C12-6") {
                        *self.known_hits.entry("F-C12-6".to_string()).or_default() += 1;
                        None
                    } else {
                        Some(("C12:render-panic".into(), det("rendering the error of a chunk without source text panicked", json!(pm))))
                    }
                }
                Ok(text) => {
                    let got: Vec<String> = text.split("\n--- ").skip(1).map(|p| p.split('\n').next().unwrap_or("").to_string()).collect();
                    if got != heads {
                        Some(("C12:no-source-positions".into(), det("the rendered message of a chunk without source text does not list the positions of its frames", json!({"rendered": text, "expected_positions": heads}))))
                    } else {
                        None
                    }
                }
            },
        };
        match fail {
            None => None,
            Some((n, d)) => {
                if !quiet {
                    self.d(&n, d);
                }
                Some(n)
            }
        }
    }

    /// the message a host sees through `koto::Koto::compile_and_run` is the same text
    fn koto_api_agrees(&mut self, src: &str) {
        let via_vm = match run_real(src) {
            Real::Runtime { rendered: Ok(t), .. } => t,
            Real::Compile { rendered: Ok(t), .. } => t,
            _ => return,
        };
        let via_koto = kvh::catch(|| {
            let mut k = koto::Koto::default();
            match k.compile_and_run(src) {
                Ok(_) => "ok".to_string(),
                Err(e) => e.to_string(),
            }
        });
        self.rep.bump("koto_api_path_checked");
        if via_koto.as_deref() != Ok(via_vm.as_str()) {
            self.d("C12:koto-api-message", json!({"replay_kind": "planted", "program": src, "via_vm": via_vm, "via_koto": via_koto}));
        }
    }

    /// cause rules of open findings about compile error positions (active only while the finding is
    /// listed as `known`; once it is `fixed` the same observation is a VIOLATION)
    fn attribute_compile_error(&mut self, src: &str, sp: &Span, msg: &str, expect_line: usize) -> bool {
        if !self.attribute {
            return false;
        }
        let ls = lines_of(src);
        let at_span: String = ls.get(sp.start.line as usize).map(|l| l.chars().skip(sp.start.column as usize).collect()).unwrap_or_default();
        let earlier = (sp.start.line as usize) < expect_line;
        // F-C12-3: message identity + the reported token is the `switch` / `match` keyword itself
        let id = if earlier && msg.starts_with("'else' can only be used in the last arm in a ") && (at_span.starts_with("switch") || at_span.starts_with("match")) {
            "F-C12-3"
        // F-C12-5: message identity + the reported span is the nested parameter tuple that contains
        // the offending entry (starts with `(`, ends after the expected line)
        } else if earlier && msg == "args with ellipses are only allowed in first or last position" && at_span.starts_with('(') && (sp.end.line as usize) >= expect_line {
            "F-C12-5"
        } else {
            return false;
        };
        if !self.open.iter().any(|x| x == id) {
            return false;
        }
        *self.known_hits.entry(id.to_string()).or_default() += 1;
        true
    }

    /// F-C12-4: a call site that is a pipe into a plain identifier (`-> f`, `-> (f)`, or `f` on the
    /// line after a trailing `->`) is reported with the span of the whole pipe expression: the span
    /// ends at the callee on the expected line and starts on an earlier line
    fn attribute_pipe_frame(&mut self, src: &str, sp: &Span, expect_line: usize) -> bool {
        if !self.attribute || !self.open.iter().any(|x| x == "F-C12-4") {
            return false;
        }
        let ls = lines_of(src);
        if sp.end.line as usize != expect_line || sp.start.line as usize >= expect_line {
            return false;
        }
        let Some(l) = ls.get(expect_line) else { return false };
        let upto: String = l.chars().take(sp.end.column as usize).collect();
        let t = upto.trim_start();
        let t = t.strip_prefix("->").unwrap_or(t).trim_start();
        // (in parentheses also a dotted path: `-> (m.f)` takes the same fallback arm of the compiler)
        let (t, paren) = match t.strip_prefix('(').and_then(|x| x.strip_suffix(')')) {
            Some(x) => (x, true),
            None => (t, false),
        };
        let is_id = !t.is_empty() && t.chars().all(|c| c.is_ascii_alphanumeric() || c == '_' || (paren && c == '.')) && !t.starts_with(|c: char| c.is_ascii_digit());
        if is_id {
            *self.known_hits.entry("F-C12-4".to_string()).or_default() += 1;
        }
        is_id
    }

    // ---- (D) broken variants ----
    fn broken_case(&mut self, src: &str, expect_line: usize, kind: &str, quiet: bool) -> Option<String> {
        let perr = kvh::catch(|| koto_parser::Parser::parse(src).err().map(|e| (e.span, e.error.to_string())));
        self.rep.case(&format!("broken {kind} {expect_line} {}", kvh::fnv1a(src.as_bytes())), true);
        let det = |what: &str, extra: Value| json!({"replay_kind": "broken", "program": src, "mutation": kind, "expected_line": expect_line, "what": what, "observed": extra});
        let mut fail: Option<(String, Value)> = None;
        match perr {
            Err(p) => fail = Some(("C12:parser-panic".into(), det("the parser panicked", json!(p)))),
            Ok(None) if !kind.starts_with("compile-stage") => {
                self.rep.bump("broken_not_rejected");
                return None;
            }
            Ok(parsed) => {
                // parser error, or (for compile-stage breaks) the error of the bytecode compiler
                let (sp, msg) = match parsed {
                    Some(x) => x,
                    None => match run_real(src) {
                        Real::Compile { span: Some(sp), rendered: Ok(text) } => {
                            let msg = text.split(".\n").next().unwrap_or("").to_string();
                            (sp, msg)
                        }
                        other => {
                            let d = det("the bytecode compiler did not reject the text with a positioned error", json!(format!("{:?}", other)));
                            if !quiet {
                                self.d("C12:compile-stage-error-missing", d);
                            }
                            return Some("C12:compile-stage-error-missing".into());
                        }
                    },
                };
                self.rep.bump(&format!("parse_error={}", msg.chars().take(40).collect::<String>()));
                if let Err(why) = span_inside(src, &sp) {
                    fail = Some(("C12:compile-error-outside-text".into(), det(&why, json!({"span": span_s(&sp), "error": msg}))));
                } else if let Some(upto) = kind.rsplit_once("@upto").and_then(|x| x.1.parse::<usize>().ok()) {
                    // an error about a character inside a token that spans lines (a bad escape in a
                    // multi-line string literal): the offending token starts on `expect_line`, the
                    // offending character is on line `upto`; the reported span has to start on one of
                    // the token's lines up to the character's and has to reach the character's line
                    let (a, b) = (sp.start.line as usize, sp.end.line as usize);
                    if a < expect_line || a > upto || b < upto {
                        fail = Some((
                            "C12:compile-error-line".into(),
                            det("the reported span does not start inside the offending token at or before the bad character's line, or does not reach that line", json!({"span": span_s(&sp), "error": msg, "token_starts_on_line": expect_line, "bad_character_on_line": upto})),
                        ));
                    }
                } else if sp.start.line as usize != expect_line && self.attribute_compile_error(src, &sp, &msg, expect_line) {
                    return None;
                } else if sp.start.line as usize != expect_line {
                    fail = Some((
                        "C12:compile-error-line".into(),
                        det("the error is not reported on the line of the first bad token", json!({"span": span_s(&sp), "error": msg})),
                    ));
                } else {
                    // rendering through the loader (what Koto::compile shows)
                    match run_real(src) {
                        Real::Compile { span, rendered } => match rendered {
                            Err(pm) => fail = Some(("C12:render-panic".into(), det("rendering the compile error panicked", json!(pm)))),
                            Ok(text) => {
                                if span != Some(sp) {
                                    fail = Some(("C12:compile-error-span-changed".into(), det("the loader reports a different span than the parser", json!({"parser": span_s(&sp), "loader": ospan_s(&span)}))));
                                } else {
                                    let head = format!("{msg}.\n");
                                    match text.strip_prefix(&head) {
                                        None => fail = Some(("C12:render-shape".into(), det("unexpected shape of the rendered compile error", json!(text)))),
                                        Some(ex) => {
                                            let ls = lines_of(src);
                                            let rows = quoted_rows(ex);
                                            let last = (sp.end.line as usize).min(ls.len() - 1);
                                            let want: Vec<(usize, String)> = (sp.start.line as usize..=last).map(|l| (l + 1, ls[l].to_string())).collect();
                                            if rows != want {
                                                fail = Some(("C12:excerpt-quote".into(), det("the excerpt does not quote exactly the reported lines", json!({"excerpt": ex, "expected_rows": want}))));
                                            } else {
                                                self.check_excerpt_text("compile error", src, &sp, ex);
                                            }
                                        }
                                    }
                                }
                            }
                        },
                        other => fail = Some(("C12:compile-error-lost".into(), det("the parser rejects the text but the loader does not report a compile error", json!(format!("{:?}", other))))),
                    }
                }
            }
        }
        match fail {
            None => None,
            Some((name, d)) => {
                if !quiet {
                    self.d(&name, d);
                }
                Some(name)
            }
        }
    }

    fn broken(&mut self, rng: &mut Rng, n: usize) {
        for _ in 0..n {
            let p = gen_planted(rng, false);
            let Some((src, line, kind)) = mutate(rng, &p) else {
                self.rep.bump("mutation=none-applicable");
                continue;
            };
            let (kind, stats) = match kind.split_once('\t') {
                Some((k, st)) => (k.to_string(), st.to_string()),
                None => (kind, String::new()),
            };
            if kind.starts_with("bracket:") {
                // the kinds of this family are counted by their parts (construct x bad token x place)
                self.rep.bump("mutation=bracket");
                for st in stats.split(' ').filter(|x| !x.is_empty()) {
                    self.rep.bump(st);
                }
            } else {
                self.rep.bump(&format!("mutation={}", kind.split("@upto").next().unwrap()));
            }
            self.broken_case(&src, line, &kind, false);
        }
    }

    // ---- (D) debug prefix ----
    fn debug_case(&mut self, src: &str, expect: &[usize], quiet: bool) -> Option<String> {
        let real = run_real(src);
        self.rep.case(&format!("debug {:?} {} {}", expect, kvh::fnv1a(src.as_bytes()), settings_label()), expect.len() >= 1);
        let want: Vec<usize> = expect.iter().map(|l| l + 1).collect();
        let fail = match &real {
            Real::Ok { stdout } => {
                let got: Vec<usize> = stdout
                    .split('\n')
                    .filter_map(|l| {
                        let r = l.strip_prefix('[')?;
                        let (n, rest) = r.split_once(']')?;
                        if !rest.starts_with(' ') {
                            return None;
                        }
                        n.parse::<usize>().ok()
                    })
                    .collect();
                if got != want {
                    Some(("C12:debug-prefix".to_string(), json!({"replay_kind": "debug", "settings": [settings().0, settings().1], "program": src, "expected_prefix_lines": want, "observed_prefix_lines": got, "stdout": stdout})))
                } else {
                    None
                }
            }
            other => Some(("C12:debug-program-failed".to_string(), json!({"replay_kind": "debug", "settings": [settings().0, settings().1], "program": src, "expected_prefix_lines": want, "observed": format!("{:?}", other)}))),
        };
        // (K) Model/SrcMap.debugPrefixLine on the real chunk's source map (rebuilt from the lookups of
        // all instruction ips) at every Debug instruction = the set of prefixes actually printed
        if let (None, Ok(chunk)) = (&fail, compile(src)) {
            let mut reader = InstructionReader::new(chunk.clone());
            let mut entries = String::new();
            let mut last: Option<Span> = None;
            let mut dbg_ips = vec![];
            loop {
                let ip = reader.ip as u32;
                let Some(instr) = reader.next() else { break };
                let sp = chunk.debug_info.get_source_span(ip);
                if sp != last {
                    if let Some(sp) = sp {
                        entries.push_str(&format!(" {}:{}", ip, span_s(&sp)));
                    }
                    last = sp;
                }
                if matches!(instr, koto_bytecode::Instruction::Debug { .. }) {
                    dbg_ips.push(ip);
                }
            }
            let reqs: Vec<String> = dbg_ips.iter().map(|ip| format!("dbg{entries} | {ip}")).collect();
            let resps = self.drv.batch(&reqs);
            let mut model_set: Vec<String> = resps.clone();
            model_set.sort();
            model_set.dedup();
            let mut real_set: Vec<String> = want.iter().map(|n| format!("[{n}]")).collect();
            real_set.sort();
            real_set.dedup();
            self.rep.bump_by("debug_instructions_modelled", dbg_ips.len() as u64);
            if model_set != real_set {
                self.k(
                    "K:C12:SrcMap.debugPrefixLine",
                    json!({"replay_kind": "debug", "program": src, "expected_prefix_lines": want, "model_prefixes": model_set, "impl_prefixes": real_set,
                           "note": "debug prefixes predicted by Model/SrcMap.lean from the chunk's source map differ from the printed ones"}),
                );
            }
        }
        if self.rep.samples.len() < 10 && self.rep.evaluations % 97 == 1 {
            if let Real::Ok { stdout } = &real {
                self.rep.sample(json!({"kind": "debug", "program": src, "expected_prefix_lines": want, "impl_stdout": stdout}));
            }
        }
        match fail {
            None => None,
            Some((name, d)) => {
                if !quiet {
                    self.d(&name, d);
                }
                Some(name)
            }
        }
    }

    fn debug(&mut self, rng: &mut Rng, n: usize) {
        for _ in 0..n {
            let (src, expect, stats) = gen_debug(rng);
            for s in stats {
                self.rep.bump(&s);
            }
            self.debug_case(&src, &expect, false);
            set_settings(*rng.pick(&[(false, false), (true, true), (true, false)]));
            self.debug_case(&src, &expect, false);
            set_settings(DEFAULT_SETTINGS);
        }
    }
}

/// one syntactic break with an unambiguous first bad token; returns (text, expected line, kind)
fn mutate(rng: &mut Rng, p: &Planted) -> Option<(String, usize, String)> {
    let join = |lines: &[String], trailing: bool| {
        let mut s = lines.join(&p.eol);
        if trailing {
            s.push_str(&p.eol);
        }
        s
    };
    let closers = [")", "]", "}"];
    if rng.chance(3, 10) {
        // a break inside a multi-line bracketed construct inserted where a statement may start
        // (c12_parts/brackets.rs): the bad token on a line of its own or after the previous element
        let (at, ind) = *rng.pick(&p.flat_stmts);
        let b = gen_bracket_break(rng, at, 0);
        let mut lines = p.lines.clone();
        let pad = " ".repeat(ind);
        for (i, l) in b.lines.iter().enumerate() {
            lines.insert(at + i, format!("{pad}{l}"));
        }
        let mut kind = format!("bracket:{}", b.kind);
        // statistics travel in the kind string after a tab (not part of the replayed name)
        kind.push('\t');
        kind.push_str(&b.stats.join(" "));
        return Some((join(&lines, p.trailing), at + b.bad_rel, kind));
    }
    if rng.chance(1, 25) {
        // a bad escape inside a string literal that spans lines (after preceding lines, a
        // continuation or an interpolation segment)
        let (at, ind) = *rng.pick(&p.flat_stmts);
        let pad = " ".repeat(ind);
        let bad = *rng.pick(&["\\q", "\\xZZ", "\\u{zz}", "\\x9f"]);
        let before = rng.below(3);
        let form = rng.below(3);
        let mut lines = p.lines.clone();
        let mut sn: Vec<String> = vec![match form {
            0 => format!("{pad}q{at} = 'abc"),
            1 => format!("{pad}q{at} = 'abc \\"),
            _ => format!("{pad}q{at} = 'abc {{1 + 1}}"),
        }];
        for i in 0..before {
            sn.push(format!("{pad}  def {i}"));
        }
        sn.push(format!("{pad}  gh {bad} i'"));
        let n = sn.len();
        for (i, l) in sn.into_iter().enumerate() {
            lines.insert(at + i, l);
        }
        // (after an interpolation the literal continues as a token of its own that starts on the same line)
        return Some((join(&lines, p.trailing), at, format!("bad-escape-in-multi-line-string:{}@upto{}", ["plain", "continuation", "after-interpolation"][form], at + n - 1)));
    }
    if rng.chance(1, 6) {
        // an error of the bytecode compiler / of the parser's arm bookkeeping whose offending
        // construct sits on a later line than the start of its statement (c12_parts/stage.rs)
        let b = gen_stage_break(rng, p.lines.len());
        let tops: Vec<(usize, usize)> = p.flat_stmts.iter().copied().filter(|(_, ind)| *ind == 0).collect();
        let (at, ind) = if b.top_only { *rng.pick(&tops) } else { *rng.pick(&p.flat_stmts) };
        let mut lines = p.lines.clone();
        let pad = " ".repeat(ind);
        for (i, l) in b.lines.iter().enumerate() {
            lines.insert(at + i, format!("{pad}{l}"));
        }
        return Some((join(&lines, p.trailing), at + b.bad_rel, b.kind));
    }
    for _ in 0..6 {
        let k = rng.below(11);
        let mut lines = p.lines.clone();
        match k {
            0 => {
                // a stray closer on a line of its own where a statement may start
                let (at, ind) = *rng.pick(&p.flat_stmts);
                let c = *rng.pick(&closers);
                lines.insert(at, format!("{}{}", " ".repeat(ind), c));
                // several bad tokens on different lines: the first one is reported
                let more = rng.weighted(&[2, 1, 1]);
                for i in 0..more {
                    lines.insert(at + 1 + i, format!("{}{}", " ".repeat(ind), *rng.pick(&closers)));
                }
                return Some((join(&lines, p.trailing), at, format!("stray-closer-line{c}{}", if more > 0 { ":repeated" } else { "" })));
            }
            1 => {
                if p.flat_simple.is_empty() {
                    continue;
                }
                let at = *rng.pick(&p.flat_simple);
                let c = *rng.pick(&closers);
                lines[at].push_str(&format!(" {c}"));
                return Some((join(&lines, p.trailing), at, format!("stray-closer-appended{c}")));
            }
            2 => {
                // a keyword that needs an opener: `else` / `else if` / `catch` / `finally` / `then`
                let (at, ind) = *rng.pick(&p.flat_stmts);
                let kw = *rng.pick(&["else", "else if true", "catch e", "finally", "then 1"]);
                lines.insert(at, format!("{}q0 = 1", " ".repeat(ind)));
                lines.insert(at + 1, format!("{}{}", " ".repeat(ind), kw));
                let more = rng.weighted(&[2, 1, 1]);
                for i in 0..more {
                    lines.insert(at + 2 + i, format!("{}{}", " ".repeat(ind), *rng.pick(&["else", "catch e", "finally", "then 1"])));
                }
                return Some((join(&lines, p.trailing), at + 1, format!("orphan-{}{}", kw.split(' ').next().unwrap(), if more > 0 { ":repeated" } else { "" })));
            }
            3 => {
                if p.flat_simple.is_empty() {
                    continue;
                }
                // a deeper-indented line after a complete simple statement
                let at = *rng.pick(&p.flat_simple);
                let ind = lines[at].chars().take_while(|c| *c == ' ').count();
                lines.insert(at + 1, format!("{}q1 = 2", " ".repeat(ind + 2 + 2 * rng.below(2))));
                return Some((join(&lines, p.trailing), at + 1, "over-indented".into()));
            }
            4 => {
                // unterminated string at the very end of the text
                while lines.last().is_some_and(|l| l.trim().is_empty()) {
                    lines.pop();
                }
                lines.push("q2 = \"abc".to_string());
                let at = lines.len() - 1;
                let extra = rng.below(3);
                for i in 0..extra {
                    lines.push(format!("  def {i}"));
                }
                return Some((join(&lines, rng.chance(1, 2)), at, "unterminated-string".into()));
            }
            5 => {
                if p.flat_simple.is_empty() {
                    continue;
                }
                // a token that cannot continue the expression: `v = <tok> a + b` / `v = a + <tok> b`
                let at = *rng.pick(&p.flat_simple);
                let tok = *rng.pick(&[")", "]", "}", "=", ",", "then", "else"]);
                let l = lines[at].clone();
                let pos = if rng.chance(1, 2) { l.find("= ").map(|i| i + 2) } else { l.rfind(' ').map(|i| i + 1) };
                let Some(pos) = pos else { continue };
                lines[at] = format!("{}{} {}", &l[..pos], tok, &l[pos..]);
                return Some((join(&lines, p.trailing), at, format!("bad-token:{tok}")));
            }
            6 => {
                if p.flat_headers.is_empty() {
                    continue;
                }
                // end of input right after a block header
                let at = *rng.pick(&p.flat_headers);
                lines.truncate(at + 1);
                return Some((join(&lines, rng.chance(1, 2)), at, "eof-after-header".into()));
            }
            8 => {
                // rejected by the bytecode compiler, not the parser: loop control outside of a loop
                // (top level only: an indented statement may be inside a loop)
                let tops: Vec<(usize, usize)> = p.flat_stmts.iter().copied().filter(|(_, ind)| *ind == 0).collect();
                let (at, _) = *rng.pick(&tops);
                let l = *rng.pick(&["break", "continue", "q4 = break", "q4 = 1 + (break)"]);
                lines.insert(at, l.to_string());
                return Some((join(&lines, p.trailing), at, "compile-stage:loop-control".into()));
            }
            9 => {
                let (at, ind) = *rng.pick(&p.flat_stmts);
                let pad = " ".repeat(ind);
                match rng.below(3) {
                    0 => {
                        lines.insert(at, format!("{pad}q5 = _ignored"));
                        return Some((join(&lines, p.trailing), at, "compile-stage:ignored-id".into()));
                    }
                    1 => {
                        lines.insert(at, format!("{pad}match 1, 2"));
                        lines.insert(at + 1, format!("{pad}  a then 0"));
                        return Some((join(&lines, p.trailing), at + 1, "compile-stage:match-arity".into()));
                    }
                    _ => {
                        for (i, l) in ["try", "  q6 = 1", "catch e: String", "  q7 = 2"].iter().enumerate() {
                            lines.insert(at + i, format!("{pad}{l}"));
                        }
                        return Some((join(&lines, p.trailing), at + 2, "compile-stage:typed-last-catch".into()));
                    }
                }
            }
            _ => {
                if p.flat_simple.is_empty() {
                    continue;
                }
                // end of input right after a binary operator / an opening bracket
                let at = *rng.pick(&p.flat_simple);
                lines.truncate(at + 1);
                let l = lines[at].clone();
                let cut = l.rfind(' ').unwrap();
                let tail = *rng.pick(&["", " (", " [1,", " id2("]);
                lines[at] = format!("{}{}", &l[..cut], tail);
                return Some((join(&lines, rng.chance(1, 2)), at, format!("eof-after-operator{}", tail.trim())));
            }
        }
    }
    None
}

/// a program that prints through `debug`; returns (text, lines of the debug expressions in
/// execution order, stats)
fn gen_debug(rng: &mut Rng) -> (String, Vec<usize>, Vec<String>) {
    let mut g = G::new(rng.fork());
    let s = M_STMT;
    // `a`: a local (top level) / a parameter (functions) for debug expressions that need no
    // instruction of their own before the debug instruction
    let mut raw: Vec<String> = vec![format!("{s}id1 = |a| a"), format!("{s}id2 = |a, b| a"), format!("{s}a = 7")];
    let mut order: Vec<usize> = vec![]; // debug ids in execution order
    let mut next_id = 0usize;
    let items = 1 + g.rng.below(5);
    let mut dbg_stmt = |g: &mut G, next_id: &mut usize| -> (Vec<String>, usize) {
        let id = *next_id;
        *next_id += 1;
        let d = format!("{M_DEBUG}{}{}", id / 10, id % 10);
        let v = g.v();
        let (a, b) = (g.int(), g.int());
        let k = g.rng.below(16);
        g.stat(format!("debugform={k}"));
        let lines = match k {
            12 | 13 => vec![format!("{s}{d}debug a")],
            14 => vec![format!("{s}{d}{v} = debug a")],
            15 => vec![format!("{s}{d}debug ("), "  a".into(), ")".into()],
            0 => vec![format!("{s}{d}debug {a}")],
            1 => vec![format!("{s}{d}debug {a} + {b}")],
            2 => vec![format!("{s}{d}{v} = debug {a} + {b}")],
            3 => vec![format!("{s}{d}debug {a} +"), format!("  {b}")],
            4 => vec![format!("{s}{d}debug ("), format!("  {a} + {b}"), ")".into()],
            5 => vec![format!("{s}{d}debug ["), format!("  {a},"), format!("  {b}"), "]".into()],
            6 => vec![format!("{s}{d}debug id2("), format!("  {a},"), format!("  {b}"), ")".into()],
            7 => vec![format!("{s}{d}debug 'abc {a}"), "  def'".into()],
            8 => vec![format!("{s}{d}debug ({a}, {b})"), "  .first()".into()],
            9 => vec![format!("{s}{v} = {a} +"), format!("  {d}(debug {b})")],
            10 => vec![format!("{s}{v} = ["), format!("  {a},"), format!("  {d}(debug {b}),"), "]".into()],
            _ => vec![format!("{s}{d}{v} = debug {{"), format!("  a: {a},"), format!("  b: {b}"), "}".into()],
        };
        (lines, id)
    };
    for _ in 0..items {
        raw.extend(g.fillers(0, 3, 0));
        if g.rng.chance(2, 5) {
            // inside a function that is called later; the function may be a generator whose debug
            // statements run right after it is resumed (the statement after a `yield`)
            let h = format!("d{}", g.uid());
            let is_gen = g.rng.chance(1, 2);
            g.stat(format!("debug_in_generator={is_gen}"));
            let mut body = g.fillers(0, 2, 1);
            let mut ids = vec![];
            for _ in 0..1 + g.rng.below(2) {
                let (mut st, id) = dbg_stmt(&mut g, &mut next_id);
                if is_gen {
                    let mut y = vec![format!("{s}yield {}", g.int())];
                    let direct = !g.rng.chance(1, 4);
                    if !direct {
                        y.extend(g.fillers(1, 1, 1));
                    }
                    g.stat(format!("debug_directly_after_yield={direct}"));
                    y.extend(st);
                    st = y;
                }
                if g.rng.chance(1, 3) {
                    st = g.wrap(st);
                }
                body.extend(st);
                ids.push(id);
                body.extend(g.fillers(0, 1, 1));
            }
            body.push(if is_gen { format!("{s}yield 0") } else { format!("{s}0") });
            raw.push(format!("{s}{h} = |a = 0|"));
            raw.extend(indent(body, 2));
            raw.extend(g.fillers(0, 2, 0));
            let calls = 1 + g.rng.below(2);
            for _ in 0..calls {
                if is_gen {
                    // consumed completely: every debug statement runs once, in order
                    let (v, q) = (g.v(), format!("q{}", g.uid()));
                    let arg = if g.rng.chance(1, 2) { g.int().to_string() } else { String::new() };
                    let f = g.rng.below(5);
                    g.stat(format!("debug_generator_consumer={f}"));
                    match f {
                        0 => raw.push(format!("{s}{v} = {h}({arg}).to_tuple()")),
                        1 => raw.extend([format!("{s}for {q} in {h}({arg})"), format!("  {v} = {q}")]),
                        2 => raw.push(format!("{s}{v} = {h}({arg}).count()")),
                        3 => raw.extend([format!("{s}{v} = {h}({arg})"), "  .each |p| p".to_string(), "  .to_list()".to_string()]),
                        _ => {
                            raw.extend([format!("{s}{q} = {h}({arg})"), format!("{s}while {q}.next()"), format!("  {v} = 1")]);
                        }
                    }
                } else {
                    raw.push(format!("{s}{h}()"));
                }
                order.extend(ids.iter().copied());
            }
        } else {
            let (mut st, id) = dbg_stmt(&mut g, &mut next_id);
            let nwrap = g.rng.weighted(&[4, 2, 1]);
            for _ in 0..nwrap {
                st = g.wrap(st);
            }
            raw.extend(st);
            order.push(id);
        }
    }
    raw.extend(g.fillers(0, 2, 0));
    let eol = if g.rng.chance(1, 5) { "\r\n" } else { "\n" };
    let f = flatten(&raw, eol, g.rng.chance(3, 4));
    let line_of = |id: usize| f.debugs.iter().find(|(i, _)| *i == id).map(|(_, l)| *l).unwrap();
    let expect: Vec<usize> = order.iter().map(|id| line_of(*id)).collect();
    (f.src, expect, g.stats)
}

// ------------------------------------------------------------------------------------------------

/// A fault inside an imported module: two chunks with their own source texts. Returns
/// (module text, main text with `MODNAME` standing for the module's name, fault line in the module,
/// frames expected after the fault, innermost first: (chunk 0 = main / 1 = module, line)).
fn gen_module(rng: &mut Rng) -> (String, String, Vec<(usize, usize)>, Vec<String>) {
    let mut g = G::new(rng.fork());
    let s = M_STMT;
    // module: f0 (fault), optionally f1 calling f0; exported
    let in_module_calls = g.rng.below(2);
    let mut raw: Vec<String> = vec![format!("{s}id1 = |a| a"), format!("{s}id2 = |a, b| a")];
    raw.extend(g.fillers(0, 3, 0));
    g.in_fn = true;
    let (pre, expr) = g.fault();
    g.stat(expr.kind.clone());
    let mut key = pre;
    key.extend(g.embed(&expr, false));
    if g.rng.chance(1, 3) {
        key = g.wrap(key);
    }
    let mut body = g.fillers(0, 2, 1);
    body.extend(key);
    body.extend(g.fillers(0, 1, 1));
    raw.push(format!("{s}export f0 = |a = 0, b = 0|"));
    raw.extend(indent(body, 2));
    raw.extend(g.fillers(0, 2, 0));
    if in_module_calls == 1 {
        let call = g.call_expr(1, "f0", false, None);
        let mut key = g.embed(&call, false);
        if g.rng.chance(1, 3) {
            key = g.wrap(key);
        }
        let mut body = g.fillers(0, 2, 1);
        body.extend(key);
        body.push(format!("{s}0"));
        raw.push(format!("{s}export f1 = |a = 0, b = 0|"));
        raw.extend(indent(body, 2));
        raw.extend(g.fillers(0, 2, 0));
    }
    let fm = flatten(&raw, "\n", g.rng.chance(3, 4));
    let mut frames: Vec<(usize, usize)> = vec![(1, fm.fault.unwrap())];
    if in_module_calls == 1 {
        frames.push((1, fm.calls[1].unwrap()));
    }
    // main: import, optionally a function g2 calling into the module, top-level call
    let entry = format!("f{in_module_calls}");
    let mut raw: Vec<String> = vec![format!("{s}id1 = |a| a"), format!("{s}id2 = |a, b| a")];
    raw.extend(g.fillers(0, 2, 0));
    let callee = if g.rng.chance(1, 2) {
        raw.push(format!("{s}import MODNAME"));
        format!("MODNAME.{entry}")
    } else {
        raw.push(format!("{s}from MODNAME import {entry}"));
        entry.clone()
    };
    raw.extend(g.fillers(0, 2, 0));
    let via_fn = g.rng.chance(1, 2);
    g.in_fn = via_fn;
    let call = g.call_expr(2, &callee, false, None);
    let mut key = g.embed(&call, false);
    if g.rng.chance(1, 3) {
        key = g.wrap(key);
    }
    if via_fn {
        let mut body = g.fillers(0, 2, 1);
        body.extend(key);
        body.push(format!("{s}0"));
        raw.push(format!("{s}g2 = |a = 0, b = 0|"));
        raw.extend(indent(body, 2));
        raw.extend(g.fillers(0, 2, 0));
        g.in_fn = false;
        let call = g.call_expr(3, "g2", false, None);
        raw.extend(g.embed(&call, false));
    } else {
        raw.extend(key);
    }
    raw.extend(g.fillers(0, 2, 0));
    let fmain = flatten(&raw, "\n", g.rng.chance(3, 4));
    frames.push((0, fmain.calls[2].unwrap()));
    if via_fn {
        frames.push((0, fmain.calls[3].unwrap()));
    }
    g.stat(format!("module_frames={}", frames.len()));
    (fm.src, fmain.src, frames, g.stats)
}

impl Ctx {
    /// (K3 + D) fault inside an imported module: frames of two chunks
    fn module_case(&mut self, module_src: &str, main_tpl: &str, frames: &[(usize, usize)], quiet: bool) -> Option<String> {
        let dir = std::env::var("VERIF_SCRATCH").map(std::path::PathBuf::from).unwrap_or_else(|_| std::env::temp_dir().join(format!("c12-{}", std::process::id())));
        let _ = std::fs::create_dir_all(&dir);
        self.mod_counter += 1;
        let name = format!("c12mod{}", self.mod_counter);
        let main_src = main_tpl.replace("MODNAME", &name);
        let mod_path = dir.join(format!("{name}.koto"));
        let main_path = dir.join(format!("c12main{}.koto", self.mod_counter));
        std::fs::write(&mod_path, module_src).expect("write module");
        std::fs::write(&main_path, &main_src).expect("write main");
        // model: the call chain outermost first, (line, chunk of the callee); the fault is the
        // innermost frame
        let mut req = format!("trace {} 0", frames[0].1);
        for i in (1..frames.len()).rev() {
            // the call at frames[i] enters the function whose chunk is that of frames[i-1]
            req.push_str(&format!(" {}:{}:0", frames[i].1, frames[i - 1].0));
        }
        let model = self.drv.ask(&req);
        self.rep.case(&format!("module {req} {}", kvh::fnv1a(main_src.as_bytes()) ^ kvh::fnv1a(module_src.as_bytes())), true);
        let main_path_s = main_path.to_string_lossy().to_string();
        let outcome = kvh::catch(|| {
            let mut vm = KotoVm::default();
            let mut loader = ModuleLoader::default();
            let chunk = match loader.compile_script(&main_src, Some(main_path_s.as_str().into()), compiler_settings()) {
                Ok(c) => c,
                Err(e) => return Err(format!("main does not compile: {e}")),
            };
            match vm.run(chunk) {
                Ok(_) => Err("no error surfaced".to_string()),
                Err(e) => {
                    let fr: Vec<(usize, Option<Span>, String)> = e
                        .trace
                        .iter()
                        .map(|InstructionFrame { chunk, instruction }| {
                            let p = chunk.path.as_ref().map(|p| p.to_string()).unwrap_or_default();
                            let id = if p.ends_with(&format!("{name}.koto")) { 1 } else { 0 };
                            (id, chunk.debug_info.get_source_span(*instruction), chunk.debug_info.source.clone())
                        })
                        .collect();
                    Ok((fr, kvh::catch(|| e.to_string())))
                }
            }
        });
        let _ = std::fs::remove_file(&mod_path);
        let _ = std::fs::remove_file(&main_path);
        let det = |what: &str, extra: Value| json!({"replay_kind": "module", "settings": [settings().0, settings().1], "module": module_src, "program": main_tpl, "frames": frames.iter().map(|(c, l)| json!([c, l])).collect::<Vec<_>>(), "model": model, "what": what, "observed": extra});
        let mut fail: Option<(String, Value)> = None;
        if self.mod_counter == 7 || self.mod_counter == 157 {
            if let Ok(Ok((fr, _))) = &outcome {
                let real = fr.iter().map(|(c, sp, _)| format!("{c}:{}", sp.map(|s| s.start.line.to_string()).unwrap_or("none".into()))).collect::<Vec<_>>().join(" ");
                self.rep.max_samples += 1;
                self.rep.sample(json!({"kind": "module", "request": req, "module": module_src, "main": main_src, "impl": format!("uncaught {real}"), "model": model}));
            }
        }
        match outcome {
            Err(p) => fail = Some(("C12:panic".into(), det("the implementation panicked", json!(p)))),
            Ok(Err(why)) => fail = Some(("C12:module-program".into(), det(&why, json!(null)))),
            Ok(Ok((fr, rendered))) => {
                let mut parts: Vec<String> = fr.iter().map(|(c, sp, _)| format!("{c}:{}", sp.map(|s| s.start.line.to_string()).unwrap_or("none".into()))).collect();
                // open finding F-C12-4 (cause rule on the frame's span, see attribute_pipe_frame)
                let want: Vec<String> = model.split(' ').skip(1).map(String::from).collect();
                if model.starts_with("uncaught ") && want.len() == parts.len() {
                    for i in 0..parts.len() {
                        if parts[i] != want[i] && parts[i].split(':').next() == want[i].split(':').next() {
                            if let (Some(sp), Some(l)) = (fr[i].1, want[i].split(':').nth(1).and_then(|x| x.parse::<usize>().ok())) {
                                let text = fr[i].2.clone();
                                if self.attribute_pipe_frame(&text, &sp, l) {
                                    parts[i] = want[i].clone();
                                }
                            }
                        }
                    }
                }
                let real = format!("uncaught {}", parts.join(" "));
                if real != model {
                    fail = Some(("C12:trace-lines".into(), det("reported (chunk, line) frames differ from the planted ones", json!({"impl_trace": real, "frames": fr.iter().map(|(c, sp, _)| format!("{c}:{}", ospan_s(sp))).collect::<Vec<_>>()}))));
                } else {
                    match rendered {
                        Err(pm) => fail = Some(("C12:render-panic".into(), det("rendering the error panicked", json!(pm)))),
                        Ok(text) => {
                            let parts: Vec<&str> = text.split("\n--- ").collect();
                            if parts.len() != fr.len() + 1 {
                                fail = Some(("C12:render-shape".into(), det("rendered message does not have one excerpt per frame", json!(text))));
                            } else {
                                for (i, part) in parts[1..].iter().enumerate() {
                                    let (c, sp, source) = &fr[i];
                                    let sp = sp.unwrap();
                                    let want_src = if *c == 1 { module_src } else { main_src.as_str() };
                                    let ls = lines_of(want_src);
                                    let want: Vec<(usize, String)> = (sp.start.line..=sp.end.line).map(|l| (l as usize + 1, ls.get(l as usize).unwrap_or(&"<no such line>").to_string())).collect();
                                    let file = if *c == 1 { format!("{name}.koto") } else { format!("c12main{}.koto", self.mod_counter) };
                                    let head = part.split('\n').next().unwrap_or("");
                                    let head_ok = head.contains(&file) && head.ends_with(&format!(" - {}:{}", sp.start.line + 1, sp.start.column + 1));
                                    if source != want_src || quoted_rows(part) != want || !head_ok {
                                        fail = Some(("C12:excerpt-quote".into(), det("the excerpt does not name the right file / quote exactly the reported lines of that file", json!({"frame": i, "excerpt": part, "expected_rows": want, "expected_file": file}))));
                                        break;
                                    }
                                    // (K2) everything after the position line is the path-less rendering
                                    let model_txt = model_excerpt(&self.drv.ask(&excerpt_request(want_src, &sp)));
                                    let tail_real = part.split_once('\n').map(|x| x.1).unwrap_or("");
                                    let tail_model = model_txt.as_ref().ok().and_then(|t| t.split_once('\n').map(|x| x.1.to_string()));
                                    if tail_model.as_deref() != Some(tail_real) {
                                        self.k("K:C12:Excerpt.render", json!({"replay_kind": "excerpt", "program": want_src, "span": span_s(&sp), "impl": part, "model": format!("{:?}", model_txt)}));
                                        break;
                                    }
                                }
                            }
                        }
                    }
                }
            }
        }
        match fail {
            None => None,
            Some((n, d)) => {
                if !quiet {
                    self.d(&n, d);
                }
                Some(n)
            }
        }
    }

    /// (D) a module that fails to compile while it is imported at run time: the runtime error's
    /// trace is the import expression, then the enclosing call sites; the message a host gets
    /// through `koto::Koto::compile_and_run` is the same text (module position, then those frames)
    fn import_error_case(&mut self, module_src: &str, main_tpl: &str, frames: &[usize], quiet: bool) -> Option<String> {
        let dir = std::env::var("VERIF_SCRATCH").map(std::path::PathBuf::from).unwrap_or_else(|_| std::env::temp_dir().join(format!("c12-{}", std::process::id())));
        let _ = std::fs::create_dir_all(&dir);
        self.mod_counter += 1;
        let name = format!("c12bad{}", self.mod_counter);
        let main_src = main_tpl.replace("MODNAME", &name);
        let mod_path = dir.join(format!("{name}.koto"));
        let main_path = dir.join(format!("c12main{}.koto", self.mod_counter));
        std::fs::write(&mod_path, module_src).expect("write module");
        std::fs::write(&main_path, &main_src).expect("write main");
        let main_path_s = main_path.to_string_lossy().to_string();
        let mut req = format!("trace {} 0", frames[0]);
        for l in frames[1..].iter().rev() {
            req.push_str(&format!(" {l}:0:0"));
        }
        let model = self.drv.ask(&req);
        self.rep.case(&format!("import-error {req} {}", kvh::fnv1a(main_src.as_bytes()) ^ kvh::fnv1a(module_src.as_bytes())), true);
        let via_vm = kvh::catch(|| {
            let mut vm = KotoVm::default();
            let mut loader = ModuleLoader::default();
            let chunk = match loader.compile_script(&main_src, Some(main_path_s.as_str().into()), CompilerSettings::default()) {
                Ok(c) => c,
                Err(e) => return Err(format!("main does not compile: {e}")),
            };
            match vm.run(chunk) {
                Ok(_) => Err("no error surfaced".to_string()),
                Err(e) => {
                    let is_compile = matches!(e.error, koto_runtime::ErrorKind::CompileError(_));
                    let lines: Vec<String> = e
                        .trace
                        .iter()
                        .map(|InstructionFrame { chunk, instruction }| chunk.debug_info.get_source_span(*instruction).map(|s| format!("0:{}", s.start.line)).unwrap_or("0:none".into()))
                        .collect();
                    Ok((is_compile, format!("uncaught {}", lines.join(" ")), e.to_string()))
                }
            }
        });
        let via_koto = kvh::catch(|| {
            let mut k = koto::Koto::default();
            match k.compile_and_run(koto::CompileArgs::new(&main_src).script_path(main_path_s.as_str())) {
                Ok(_) => "ok".to_string(),
                Err(e) => e.to_string(),
            }
        });
        let _ = std::fs::remove_file(&mod_path);
        let _ = std::fs::remove_file(&main_path);
        let det = |what: &str, extra: Value| json!({"replay_kind": "import-error", "module": module_src, "program": main_tpl, "frames": frames, "model": model, "what": what, "observed": extra});
        let fail: Option<(String, Value)> = match (via_vm, via_koto) {
            (Err(p), _) | (_, Err(p)) => Some(("C12:panic".into(), det("the implementation panicked", json!(p)))),
            (Ok(Err(why)), _) => Some(("C12:module-program".into(), det(&why, json!(null)))),
            (Ok(Ok((is_compile, trace, text))), Ok(koto_text)) => {
                if !is_compile {
                    Some(("C12:module-program".into(), det("the import did not fail with a compile error", json!(text))))
                } else if trace != model {
                    Some(("C12:trace-lines".into(), det("frames of the failed import differ from the import line and its call sites", json!({"impl_trace": trace, "rendered": text}))))
                } else if koto_text != text {
                    Some(("C12:koto-api-message".into(), det("the message seen through koto::Koto differs from the runtime error's rendering", json!({"via_vm": text, "via_koto": koto_text}))))
                } else {
                    None
                }
            }
        };
        match fail {
            None => None,
            Some((n, d)) => {
                if !quiet {
                    self.d(&n, d);
                }
                Some(n)
            }
        }
    }

    fn import_errors(&mut self, rng: &mut Rng, n: usize) {
        let mut done = 0;
        let mut tries = 0;
        while done < n && tries < 4 * n {
            tries += 1;
            // module: a generated program with one syntactic break
            let p = gen_planted(rng, false);
            let Some((module_src, _, _kind)) = mutate(rng, &p) else { continue };
            if compile(&module_src).is_ok() {
                continue;
            }
            // main: the import inside 0-2 functions
            let mut g = G::new(rng.fork());
            let s = M_STMT;
            let depth = g.rng.below(3);
            let mut raw: Vec<String> = vec![format!("{s}id1 = |a| a"), format!("{s}id2 = |a, b| a")];
            raw.extend(g.fillers(0, 2, 0));
            let imp = if g.rng.chance(1, 2) { format!("{M_CALL}0import MODNAME") } else { format!("{M_CALL}0from MODNAME import foo") };
            let mut key = vec![format!("{s}{imp}")];
            let mut callee = String::new();
            for level in 0..=depth {
                if level > 0 {
                    g.in_fn = level != depth;
                    let call = g.call_expr(level, &callee, false, None);
                    key = g.embed(&call, false);
                } else {
                    g.in_fn = depth > 0;
                }
                if g.rng.chance(1, 3) {
                    key = g.wrap(key);
                }
                if level == depth {
                    raw.extend(key.clone());
                } else {
                    let mut body = g.fillers(0, 2, 1);
                    body.extend(key.clone());
                    body.push(format!("{s}0"));
                    callee = format!("f{level}");
                    raw.push(format!("{s}{callee} = |a = 0, b = 0|"));
                    raw.extend(indent(body, 2));
                    raw.extend(g.fillers(0, 2, 0));
                }
            }
            raw.extend(g.fillers(0, 1, 0));
            let f = flatten(&raw, "\n", true);
            let frames: Vec<usize> = (0..=depth).map(|l| f.calls[l].unwrap()).collect();
            self.rep.bump(&format!("import_error_depth={depth}"));
            self.import_error_case(&module_src, &f.src, &frames, false);
            done += 1;
        }
    }

    fn modules(&mut self, rng: &mut Rng, n: usize) {
        for _ in 0..n {
            let (m, main, frames, stats) = gen_module(rng);
            for st in stats {
                if st.starts_with("module_frames") {
                    self.rep.bump(&st);
                }
            }
            self.module_case(&m, &main, &frames, false);
        }
    }
}

fn parse_calls(v: &Value) -> Vec<CallSite> {
    v.as_array()
        .map(|a| {
            a.iter()
                .map(|c| CallSite {
                    line: c[0].as_u64().unwrap() as usize,
                    end: c[1].as_u64().unwrap() as usize,
                    in_try: c[2].as_bool().unwrap_or(false),
                    nat: c.get(3).and_then(|x| x.as_u64()).map(|x| x as usize),
                    adp: c.get(4).and_then(|x| x.as_u64()).map(|x| x as usize),
                    generator: c.get(5).and_then(|x| x.as_bool()).unwrap_or(false),
                })
                .collect()
        })
        .unwrap_or_default()
}

/// the model request for a planted-fault program: `trace …` (one interpreter entry, Trace.predict)
/// or, when callbacks run by core-library functions are involved, `segs …` (Trace.predictSegs)
fn planted_request(p: &Planted) -> String {
    if p.calls.iter().all(|c| c.nat.is_none() && !c.generator) {
        let mut req = format!("trace {} {}", p.fault_line, p.fault_in_try as u8);
        for c in &p.calls {
            req.push_str(&format!(" {}:0:{}", c.line, c.in_try as u8));
        }
        return req;
    }
    // entries innermost first; each: failIp failInTry adaptorIp|- calls (outermost first)
    let mut segs: Vec<String> = vec![];
    let mut fail = (p.fault_line, p.fault_in_try as u8, None::<usize>);
    let mut cur: Vec<String> = vec![]; // innermost first while collecting
    for c in p.calls.iter().rev() {
        if c.generator {
            // the frames collected inside the generator's own interpreter, then the instruction that
            // resumed it fails in the enclosing entry
            cur.reverse();
            segs.push(format!("{} {} {} {}", fail.0, fail.1, fail.2.map(|a| a.to_string()).unwrap_or("-".into()), cur.join(" ")));
            cur = vec![];
            // (`adp` without `nat`: the fault's own callback belongs to a lazy adaptor; with `nat` the
            // adaptor belongs to the callback that holds this consumer, handled below)
            fail = (c.line, c.in_try as u8, if c.nat.is_none() { c.adp } else { None });
        } else {
            cur.push(format!("{}:0:{}", c.line, c.in_try as u8));
        }
        if let Some(n) = c.nat {
            cur.reverse();
            segs.push(format!("{} {} {} {}", fail.0, fail.1, fail.2.map(|a| a.to_string()).unwrap_or("-".into()), cur.join(" ")));
            cur = vec![];
            fail = (n, 0, c.adp);
        }
    }
    cur.reverse();
    segs.push(format!("{} {} {} {}", fail.0, fail.1, fail.2.map(|a| a.to_string()).unwrap_or("-".into()), cur.join(" ")));
    format!("segs {}", segs.join(" / "))
}

fn planted_from(src: &str, fault_line: usize, calls: Vec<CallSite>, fault_in_try: bool) -> Planted {
    Planted {
        src: src.to_string(),
        fault_line,
        calls,
        fault_in_try,
        stats: vec![],
        flat_simple: vec![],
        flat_headers: vec![],
        flat_stmts: vec![],
        lines: vec![],
        eol: "\n".into(),
        trailing: false,
    }
}

/// run one recorded case (replay file detail, corpus file, known-finding witness); returns the name
/// of the failing clause, if any
fn run_recorded(cx: &mut Ctx, d: &Value, quiet: bool) -> Option<String> {
    let st = (d["settings"][0].as_bool().unwrap_or(DEFAULT_SETTINGS.0), d["settings"][1].as_bool().unwrap_or(DEFAULT_SETTINGS.1));
    set_settings(st);
    let r = run_recorded_inner(cx, d, quiet);
    set_settings(DEFAULT_SETTINGS);
    r
}

fn run_recorded_inner(cx: &mut Ctx, d: &Value, quiet: bool) -> Option<String> {
    let kind = d["replay_kind"].as_str().unwrap_or("planted");
    let src = d["program"].as_str().unwrap_or("");
    match kind {
        "planted" => {
            let p = planted_from(src, d["fault_line"].as_u64().unwrap_or(0) as usize, parse_calls(&d["calls"]), d["fault_in_try"].as_bool().unwrap_or(false));
            cx.planted_case(&p, quiet)
        }
        "chunk" => {
            let before = cx.d_fail;
            if let Ok(chunk) = compile(src) {
                cx.check_chunk_spans(src, &chunk);
            }
            if cx.d_fail > before { Some("C12:chunk-structure".into()) } else { None }
        }
        "import-error" => {
            let frames: Vec<usize> = d["frames"].as_array().map(|a| a.iter().map(|x| x.as_u64().unwrap() as usize).collect()).unwrap_or_default();
            cx.import_error_case(d["module"].as_str().unwrap_or(""), src, &frames, quiet)
        }
        "module" => {
            let frames: Vec<(usize, usize)> = d["frames"].as_array().map(|a| a.iter().map(|f| (f[0].as_u64().unwrap() as usize, f[1].as_u64().unwrap() as usize)).collect()).unwrap_or_default();
            cx.module_case(d["module"].as_str().unwrap_or(""), src, &frames, quiet)
        }
        "nosource" => cx.no_source_case(src, quiet),
        "chainmap" => {
            let nodes: Vec<(String, usize, usize, usize)> = d["nodes"]
                .as_array()
                .map(|a| a.iter().map(|n| (n[0].as_str().unwrap_or("").to_string(), n[1].as_u64().unwrap() as usize, n[2].as_u64().unwrap() as usize, n[3].as_u64().unwrap() as usize)).collect())
                .unwrap_or_default();
            let u = |k: &str| d[k].as_u64().unwrap_or(0) as usize;
            let root = (d["root"][0].as_u64().unwrap_or(0) as usize, d["root"][1].as_u64().unwrap_or(0) as usize);
            cx.chainmap_case(src, u("first_line"), u("indent"), u("c0"), root, &nodes, quiet)
        }
        "broken" => cx.broken_case(src, d["expected_line"].as_u64().unwrap_or(0) as usize, d["mutation"].as_str().unwrap_or("?"), quiet),
        "debug" => {
            let e: Vec<usize> = d["expected_prefix_lines"].as_array().map(|a| a.iter().map(|x| x.as_u64().unwrap() as usize - 1).collect()).unwrap_or_default();
            cx.debug_case(src, &e, quiet)
        }
        "excerpt" => {
            let sp: Vec<u32> = d["span"].as_str().unwrap_or("0:0:0:0").split(':').map(|x| x.parse().unwrap()).collect();
            let sp = mkspan(sp[0], sp[1], sp[2], sp[3]);
            let real = kvh::catch(|| format_source_excerpt(src, &sp, None));
            let model = model_excerpt(&cx.drv.ask(&excerpt_request(src, &sp)));
            if cx.verbose {
                println!("impl : {:?}\nmodel: {:?}", real, model);
            }
            let agree = match (&real, &model) {
                (Ok(a), Ok(b)) => a == b,
                (Err(_), Err(_)) => true,
                _ => false,
            };
            if agree {
                None
            } else {
                if !quiet {
                    cx.k("K:C12:Excerpt.excerpt", d.clone());
                }
                Some("K:C12:Excerpt.excerpt".into())
            }
        }
        "srcmap" => {
            let req = d["request"].as_str().unwrap_or("");
            let model = cx.drv.ask(req);
            let mut di = DebugInfo::default();
            let mut real = vec![];
            let mut after_bar = false;
            for t in req.split(' ').skip(1) {
                if t == "|" {
                    after_bar = true;
                } else if after_bar {
                    real.push(ospan_s(&di.get_source_span(t.parse().unwrap())));
                } else {
                    let n: Vec<u32> = t.split(':').map(|x| x.parse().unwrap()).collect();
                    di.push(n[0], mkspan(n[1], n[2], n[3], n[4]));
                }
            }
            let real = real.join(" ");
            if cx.verbose {
                println!("impl : {real}\nmodel: {model}");
            }
            if real == model {
                None
            } else {
                if !quiet {
                    cx.k("K:C12:SrcMap.lookup", d.clone());
                }
                Some("K:C12:SrcMap.lookup".into())
            }
        }
        _ => None,
    }
}

fn main() {
    let argv: Vec<String> = std::env::args().collect();
    if argv.len() >= 3 && argv[1] == "--probe" {
        // developer aid: run the scripts of a file (separated by "\n---\n") and print what is reported
        let src = std::fs::read_to_string(&argv[2]).unwrap();
        for part in src.split("\n---\n") {
            println!("=== script:\n{part}\n=== {:#?}", run_real(part));
            println!("parser: {:?}", koto_parser::Parser::parse(part).err().map(|e| (span_s(&e.span), e.error.to_string())));
        }
        return;
    }
    if argv.len() >= 4 && argv[1] == "--survey-brackets" {
        survey_brackets(argv[2].parse().unwrap(), argv[3].parse().unwrap());
        return;
    }
    if argv.len() >= 4 && argv[1] == "--survey-stage" {
        survey_stage(argv[2].parse().unwrap(), argv[3].parse().unwrap());
        return;
    }
    if argv.len() >= 3 && argv[1] == "--where" {
        // developer aid: one compact line per script (separated by "\n---\n"): where things are reported
        let src = std::fs::read_to_string(&argv[2]).unwrap();
        for (i, part) in src.split("\n---\n").enumerate() {
            let r = match run_real(part) {
                Real::Ok { stdout } => format!("ok stdout={stdout:?}"),
                Real::Compile { span, rendered } => format!("compile {} {:?}", ospan_s(&span), rendered.map(|t| t.lines().next().unwrap_or("").to_string())),
                Real::Runtime { message, frames, stdout, .. } => format!("runtime {:?} frames={} stdout={stdout:?}", message, frames.iter().map(ospan_s).collect::<Vec<_>>().join(" ")),
                Real::Panic(p) => format!("panic {p}"),
            };
            println!("#{i}: {r}");
        }
        return;
    }
    if argv.len() >= 3 && argv[1] == "--gen" {
        let mut rng = Rng::new(argv[2].parse().unwrap());
        let p = gen_planted(&mut rng, true);
        println!("{}\n=== fault {} calls {:?} try {}", p.src, p.fault_line, p.calls, p.fault_in_try);
        let (s, e, _) = gen_debug(&mut rng);
        println!("=== debug\n{s}\n=== expect {e:?}");
        return;
    }
    kvh::quiet_panics();
    let args = Args::parse();
    let mut rep = Report::new("C12", &args);
    rep.max_samples = 12;
    rep.rule = "cases: (a) random DebugInfo push sequences with all lookups 0..max+2 [non-trivial: >= 3 pushes]; (b) format_source_excerpt on random texts x random spans incl. out-of-guard ones [non-trivial: >= 2 lines or outside the guard]; (c) generated programs with a single-line fault planted at a known line inside 0-4 nested calls (call line = line of the callee token; call expressions may span lines) after random preceding constructs [non-trivial: >= 1 call level or >= 8 lines]; levels of the call chain may run inside callbacks of core-library functions (eager fold/any/all/find/position; lazy each/keep with their consumer), predicted by Trace.predictSegs; (d) one-token syntactic breaks of such programs with an unambiguous first bad token, and end-of-input cuts with at most one trailing line break (expected line = last line with text); (e) programs with single- and multi-line debug expressions; (f) a fault inside a function of an imported module (two chunks with their own texts and paths), called through 1-3 call sites in module and main script. The language guide does not say which line a failing multi-line expression reports, so planted faults are single-line expressions and for multi-line call expressions only the start line (callee token) is fixed, the reported span must stay inside the call expression. (g) planted-fault kinds added for seeded C12-mut1..3: a failing node at every position of a (mostly multi-line) chain `root` / `.id` / `.\"str\"` with `[i]`, `(call)` and `?` suffixes, with and without `?` after each node, also as assignment target (expected line = the line of the access the node is attached to), call sites that are nodes of multi-line chains, failing operations on registers only (locals / parameters) so that the fault is the first instruction of its statement, functions that are generators whose key statement follows 0-3 `yield`s and whose call site is a consumer (for loop, next(), to_tuple/to_list/count/consume/last, lazy adaptors, unpacking, iterator.next, match) predicted as one more interpreter entry by Trace.predictSegs, the fault itself inside a core-library callback (first instruction of the callback); (h) K1 on real chunks: for generated chains the spans of the Access/AccessString/Index/Call/JumpIfNull instructions in the compiled chunk's source map vs SrcMap.compile on the chain's nesting structure and vs the line of each node [non-trivial: >= 3 nodes]; (i) breaks inside multi-line bracketed constructs (call args, chained calls, list, tuple, map, parameter list, nested, index on one line): element after a missing comma, `then`/`else`, `=`, mismatched closer, on a line of their own or after the previous element, after 0-3 well-formed elements (expected line = the bad token's line; for `=` directly after a literal on the previous line the assignment's target is the offending token); (j) debug statements directly after a `yield` in generators consumed completely, debug of a local/parameter (no instruction before the debug instruction). (k) second wave (observations + seeded C12-mut4..6): every planted / debug / chain program is run under the default CompilerSettings and under one other combination of the flags that change code generation (export_top_level_ids, enable_type_checks; faults that are type checks keep them enabled) with type hints in every position (parameters, return type, let, for, match arm, catch) among the fillers and as function-literal arguments of chain calls; piped calls one per line as call sites; every ErrorKind of the bytecode compiler that source text can raise, with the offending construct on a later line than its statement's start (table checked against the enum in compiler.rs), and the parser's else-not-in-last-arm errors; several bad tokens on different lines (first one expected): repeated `key as name` rebinds in a map on the right-hand side, repeated stray closers / orphan keywords, a second bad token in a bracketed construct; callbacks of every lazy adaptor with an error frame (each, keep, take-while, intersperse-with; table checked against adaptors.rs) consumed directly and through koto.copy / koto.deep_copy / cycle, generators consumed through copies / cycle / flatten. (l) third wave (seeded C12-mut7): fillers made of tokens that span lines before every fault / break / debug statement — strings with 1-3 backslash line continuations (also followed by blank, whitespace-only and tab lines, with interpolations, inside call arguments), interpolations with line breaks in the expression and (top level) in the format options, raw strings and comments with a backslash before the line break — under LF and CRLF (1 file in 5); a bad escape inside a string literal that spans lines (the span has to start in the literal token at or before the escape's line and reach that line). (m) a main script that imports, inside 0-2 calls, a module with one syntactic / compile-stage break: the runtime trace is the import line then the call sites, and the message seen through koto::Koto::compile_and_run equals the runtime error's rendering. distinct = distinct request/program texts".into();
    let drv = Driver::spawn(&args.driver);
    let open: Vec<String> = rep.known_open().iter().filter_map(|e| e["id"].as_str().map(|s| s.to_string())).collect();
    let mut cx = Ctx { rep, drv, k_fail: 0, d_fail: 0, known_hits: Default::default(), open, verbose: args.replay.is_some(), mod_counter: 0, attribute: true };

    if let Some(p) = &args.replay {
        let v: Value = serde_json::from_str(&std::fs::read_to_string(p).expect("replay file")).unwrap();
        let d = &v["detail"];
        println!("program:\n{}", d["program"].as_str().unwrap_or(""));
        if d["replay_kind"] == "planted" || d["replay_kind"] == "broken" || d["replay_kind"] == "debug" {
            println!("impl: {:#?}", run_real(d["program"].as_str().unwrap_or("")));
        }
        let r = run_recorded(&mut cx, d, false);
        println!("result: {:?}", r);
        std::process::exit(cx.rep.finish());
    }

    // 0. listed findings and the regression corpus
    for e in cx.rep.known_entries() {
        let id = e["id"].as_str().unwrap_or("?").to_string();
        let open = e["status"] == "known";
        let Some(d) = e.get("replay") else { continue };
        cx.attribute = false;
        let r = run_recorded(&mut cx, d, true);
        cx.attribute = true;
        match (open, r) {
            (true, Some(clause)) => {
                let what = e["what"].as_str().unwrap_or("");
                cx.rep.known(&id, &format!("witness still fails clause {clause}: {what}"));
            }
            (true, None) => cx.rep.note(format!("{id}: witness no longer fails (finding can be closed)")),
            (false, Some(clause)) => {
                cx.d(&format!("C12:regression:{id}"), json!({"replay_kind": d["replay_kind"], "program": d["program"], "clause": clause, "detail": d, "note": "a finding recorded as fixed fails again"}));
            }
            (false, None) => {}
        }
    }
    if let Some(dir) = &args.corpus {
        if let Ok(rd) = std::fs::read_dir(dir) {
            let mut ps: Vec<_> = rd.filter_map(|e| e.ok()).map(|e| e.path()).filter(|p| p.extension().is_some_and(|x| x == "json")).collect();
            ps.sort();
            for p in ps {
                if let Ok(v) = serde_json::from_str::<Value>(&std::fs::read_to_string(&p).unwrap_or_default()) {
                    let list = if v.is_array() { v.as_array().unwrap().clone() } else { vec![v] };
                    for d in list {
                        cx.rep.bump("corpus_cases");
                        run_recorded(&mut cx, &d, false);
                    }
                }
            }
        }
    }

    cx.check_stage_table();
    cx.check_adaptor_table();
    let mut rng = Rng::new(args.seed);
    let t = args.thorough();
    let (n_map, n_exc, n_pl, n_br, n_dbg, n_mod) = if t { (40000, 40000, 60000, 40000, 12000, 6000) } else { (3000, 3000, 4000, 3000, 1000, 400) };
    let n_chain = if t { 20000 } else { 1500 };
    // developer aid: `--only=<family>` runs one family (same cases as in the full run)
    let only: Option<String> = args.extra.iter().find_map(|x| x.strip_prefix("--only=")).map(String::from);
    let on = |f: &str| only.as_deref().is_none_or(|o| o == f);
    let mut r1 = rng.fork();
    if on("srcmap") {
        cx.srcmap(&mut r1, n_map);
    }
    let mut r2 = rng.fork();
    if on("excerpt") {
        cx.excerpt_direct(&mut r2, n_exc);
    }
    let mut r3 = rng.fork();
    if on("planted") {
        cx.planted(&mut r3, n_pl);
    }
    let mut r4 = rng.fork();
    if on("broken") {
        cx.broken(&mut r4, n_br);
    }
    let mut r5 = rng.fork();
    if on("debug") {
        cx.debug(&mut r5, n_dbg);
    }
    let mut r6 = rng.fork();
    if on("modules") {
        cx.modules(&mut r6, n_mod);
    }
    let mut r7 = rng.fork();
    if on("chainmaps") {
        cx.chainmaps(&mut r7, n_chain);
    }
    let mut r8 = rng.fork();
    if on("importerrors") {
        cx.import_errors(&mut r8, n_mod / 2);
    }

    cx.rep.note("mutation pilot (2026-09-26, scratch copy of /repo outside /repo and /verif, quick tier, seed 1; see requests/C12.md): get_source_span `<` for `<=` -> K:C12:SrcMap.lookup + C12:trace-lines; trace pushed outermost first -> C12:trace-lines; pop_span dropped at each of 11 sites of compiler.rs (nested fn args, assign target, type hints, catch arg/block, map entry, match arm, for iterable) -> C12:trace-lines each; debug prefix from span.end -> C12:debug-prefix; excerpt underline off by one -> K:C12:Excerpt.render; DebugInfo::push merging on equal start only -> K:C12:SrcMap.lookup; unchanged copy -> exit 0");
    cx.rep.note("seeded changes (2026-09-26, tools/mutcheck.sh quick seed 1, and per family with --only=<family> against a scratch copy, corpus off): C12-mut1 (compile_chain span push skipped before a final `?`) -> C12:trace-lines on 38 planted chain programs, C12:chain-node-line on 283 + K:C12:SrcMap.compile on 36 of 1500 chains; C12-mut2 (instruction_ip set in push_frame only; patch rebased in requests/C12-mut2-rebased.diff) -> C12:trace-lines on 183 planted programs (fault directly after a yield), C12:debug-prefix on 105 of 1000 debug programs; C12-mut3 (parse_parenthesized_args peeks the closer) -> C12:compile-error-line on 132 of 3000 broken variants; unchanged tree -> exit 0 for seeds 1-8 quick and seed 1 thorough");
    cx.rep.note("seeded changes, second wave (2026-09-26, per family with --only=<family> against a scratch copy, corpus off, quick seed 1): C12-mut4 (compile_assert_type leaks a span when type checks are disabled) -> C12:trace-lines / C12:function-range-span on 203 of 8000 planted runs, K:C12:SrcMap.compile on 122 of 3000 chain runs; C12-mut5 (register_error_if_not_lhs keeps the last error) -> C12:compile-error-line on 67 of 3000 broken variants; C12-mut6 (Each::make_copy takes the error frame of the helper VM) -> C12:trace-lines on 174 planted runs");
    let kh = cx.known_hits.clone();
    for (id, n) in kh {
        cx.rep.bump_by(&format!("attributed_to_{id}"), n);
    }
    let (k, d) = (cx.k_fail, cx.d_fail);
    cx.rep.extra.insert("k_disagreements".into(), json!(k));
    cx.rep.extra.insert("d_failures".into(), json!(d));
    cx.rep.extra.insert("driver_requests".into(), json!(cx.drv.requests));
    std::process::exit(cx.rep.finish());
}
