//! C01, correspondence K2: the Lean model of the compiler's result-register protocol
//! (`Model/Compile.lean`) against the real `koto_bytecode::Compiler`, instruction for instruction.
//!
//! Programs of the scalar / conditional core are generated as ASTs, rendered to Koto source and
//! compiled by the real compiler; the decoded instruction stream (jump offsets converted to
//! instruction counts, constants resolved) must equal `flatten (compile e)` of the model, and the
//! NewFrame register count and the returned register must agree as well.
use koto_bytecode::{Compiler, CompilerSettings, Instruction, InstructionReader};
use koto_parser::{Node, Parser};
use kvh::{Args, Driver, Report, Rng};
use serde_json::json;

#[derive(Clone, Debug)]
enum E {
    Null,
    Bool(bool),
    Int(i64),
    Var(usize),
    Un(&'static str, Box<E>),
    Bin(&'static str, Box<E>, Box<E>),
    Cmp(&'static str, Box<E>, Box<E>),
    Chain3(&'static str, &'static str, Box<E>, Box<E>, Box<E>),
    And(Box<E>, Box<E>),
    Or(Box<E>, Box<E>),
    Assign(usize, Box<E>),
    Compound(&'static str, usize, Box<E>),
    Seq(Box<E>, Box<E>),
    Ite(Box<E>, Box<E>, Box<E>),
    IfThen(Box<E>, Box<E>),
}

const ARITH: &[(&str, &str)] = &[("add", "+"), ("sub", "-"), ("mul", "*"), ("div", "/"), ("rem", "%"), ("pow", "^")];
const CMP: &[(&str, &str)] = &[("lt", "<"), ("le", "<="), ("gt", ">"), ("ge", ">="), ("eq", "=="), ("ne", "!=")];

fn sym(table: &[(&'static str, &'static str)], name: &str) -> &'static str {
    table.iter().find(|(n, _)| *n == name).unwrap().1
}

fn sexp(e: &E) -> String {
    match e {
        E::Null => "(null)".into(),
        E::Bool(b) => format!("(bool {})", *b as u8),
        E::Int(n) => format!("(int {})", n),
        E::Var(x) => format!("(var {})", x),
        E::Un(op, a) => format!("(un {} {})", op, sexp(a)),
        E::Bin(op, a, b) => format!("(bin {} {} {})", op, sexp(a), sexp(b)),
        E::Cmp(op, a, b) => format!("(cmp {} {} {})", op, sexp(a), sexp(b)),
        E::Chain3(o1, o2, a, b, c) => format!("(chain3 {} {} {} {} {})", o1, o2, sexp(a), sexp(b), sexp(c)),
        E::And(a, b) => format!("(and {} {})", sexp(a), sexp(b)),
        E::Or(a, b) => format!("(or {} {})", sexp(a), sexp(b)),
        E::Assign(x, a) => format!("(assign {} {})", x, sexp(a)),
        E::Compound(op, x, a) => format!("(compound {} {} {})", op, x, sexp(a)),
        E::Seq(a, b) => format!("(seq {} {})", sexp(a), sexp(b)),
        E::Ite(c, t, f) => format!("(ite {} {} {})", sexp(c), sexp(t), sexp(f)),
        E::IfThen(c, t) => format!("(ifthen {} {})", sexp(c), sexp(t)),
    }
}

fn size(e: &E) -> usize {
    match e {
        E::Null | E::Bool(_) | E::Int(_) | E::Var(_) => 1,
        E::Un(_, a) | E::Assign(_, a) | E::Compound(_, _, a) => 1 + size(a),
        E::Bin(_, a, b) | E::Cmp(_, a, b) | E::And(a, b) | E::Or(a, b) | E::Seq(a, b) | E::IfThen(a, b) => {
            1 + size(a) + size(b)
        }
        E::Ite(a, b, c) | E::Chain3(_, _, a, b, c) => 1 + size(a) + size(b) + size(c),
    }
}

/// inline rendering (expression position)
fn inline(e: &E) -> String {
    match e {
        E::Null => "null".into(),
        E::Bool(b) => b.to_string(),
        E::Int(n) => n.to_string(),
        E::Var(x) => format!("v{}", x),
        E::Un("neg", a) => format!("-({})", inline(a)),
        E::Un(_, a) => format!("not ({})", inline(a)),
        E::Bin(op, a, b) => format!("({}) {} ({})", inline(a), sym(ARITH, op), inline(b)),
        E::Cmp(op, a, b) => format!("({}) {} ({})", inline(a), sym(CMP, op), inline(b)),
        E::Chain3(o1, o2, a, b, c) => {
            format!("({}) {} ({}) {} ({})", inline(a), sym(CMP, o1), inline(b), sym(CMP, o2), inline(c))
        }
        E::And(a, b) => format!("({}) and ({})", inline(a), inline(b)),
        E::Or(a, b) => format!("({}) or ({})", inline(a), inline(b)),
        E::Assign(x, a) => format!("v{} = {}", x, inline(a)),
        E::Compound(op, x, a) => format!("v{} {}= {}", x, sym(ARITH, op), inline(a)),
        E::Ite(c, t, f) => format!("if {} then {} else {}", inline(c), inline_paren(t), inline_paren(f)),
        E::IfThen(c, t) => format!("if {} then {}", inline(c), inline_paren(t)),
        E::Seq(..) => unreachable!("seq only at statement level"),
    }
}

fn inline_paren(e: &E) -> String {
    match e {
        E::Null | E::Bool(_) | E::Int(_) | E::Var(_) => inline(e),
        _ => format!("({})", inline(e)),
    }
}

fn has_seq(e: &E) -> bool {
    match e {
        E::Seq(..) => true,
        E::Null | E::Bool(_) | E::Int(_) | E::Var(_) => false,
        E::Un(_, a) | E::Assign(_, a) | E::Compound(_, _, a) => has_seq(a),
        E::Bin(_, a, b) | E::Cmp(_, a, b) | E::And(a, b) | E::Or(a, b) | E::IfThen(a, b) => has_seq(a) || has_seq(b),
        E::Ite(a, b, c) | E::Chain3(_, _, a, b, c) => has_seq(a) || has_seq(b) || has_seq(c),
    }
}

/// statement-level rendering (one or more lines at the given indent)
fn stmt(e: &E, indent: usize, out: &mut String) {
    let pad = " ".repeat(indent);
    match e {
        E::Seq(a, b) => {
            stmt(a, indent, out);
            stmt(b, indent, out);
        }
        E::Ite(c, t, f) if has_seq(t) || has_seq(f) => {
            out.push_str(&format!("{}if {}\n", pad, inline(c)));
            stmt(t, indent + 2, out);
            out.push_str(&format!("{}else\n", pad));
            stmt(f, indent + 2, out);
        }
        E::IfThen(c, t) if has_seq(t) => {
            out.push_str(&format!("{}if {}\n", pad, inline(c)));
            stmt(t, indent + 2, out);
        }
        _ => {
            out.push_str(&pad);
            let text = inline(e);
            // a line that starts with `-` would be parsed as the continuation of the previous
            // expression (binary minus), so a statement-initial unary minus is parenthesised
            if text.starts_with('-') {
                out.push_str(&format!("({})", text));
            } else {
                out.push_str(&text);
            }
            out.push('\n');
        }
    }
}

struct Gen<'a> {
    rng: &'a mut Rng,
    nvars: usize,
    assigned: Vec<bool>,
}

impl Gen<'_> {
    fn lit(&mut self) -> E {
        match self.rng.below(6) {
            0 => E::Null,
            1 => E::Bool(self.rng.chance(1, 2)),
            2 => E::Int(*self.rng.pick(&[0, 1, 2, 7, 255, 256, 1000, 70000])),
            _ => E::Int(self.rng.range(0, 9)),
        }
    }
    fn var_or_lit(&mut self) -> E {
        let av: Vec<usize> = (0..self.nvars).filter(|i| self.assigned[*i]).collect();
        if !av.is_empty() && self.rng.chance(2, 3) {
            E::Var(*self.rng.pick(&av))
        } else {
            self.lit()
        }
    }
    /// expression without `Seq`
    fn expr(&mut self, depth: usize) -> E {
        if depth == 0 {
            return self.var_or_lit();
        }
        match self.rng.weighted(&[3, 2, 5, 3, 3, 3, 4, 2, 3, 2, 2]) {
            0 => self.var_or_lit(),
            1 => {
                let op = *self.rng.pick(&["neg", "not"]);
                E::Un(op, Box::new(self.expr(depth - 1)))
            }
            2 => {
                let op = self.rng.pick(ARITH).0;
                let a = self.expr(depth - 1);
                let b = self.expr(depth - 1);
                E::Bin(op, Box::new(a), Box::new(b))
            }
            3 => {
                let op = self.rng.pick(CMP).0;
                let a = self.expr(depth - 1);
                let b = self.expr(depth - 1);
                E::Cmp(op, Box::new(a), Box::new(b))
            }
            4 => {
                let a = self.expr(depth - 1);
                let b = self.expr(depth - 1);
                E::And(Box::new(a), Box::new(b))
            }
            5 => {
                let a = self.expr(depth - 1);
                let b = self.expr(depth - 1);
                E::Or(Box::new(a), Box::new(b))
            }
            6 => {
                let x = self.rng.below(self.nvars);
                let a = self.expr(depth - 1);
                self.assigned[x] = true;
                E::Assign(x, Box::new(a))
            }
            7 => {
                let a = self.expr(depth - 1);
                let av: Vec<usize> = (0..self.nvars).filter(|i| self.assigned[*i]).collect();
                if av.is_empty() {
                    a
                } else {
                    let x = *self.rng.pick(&av);
                    E::Compound(self.rng.pick(ARITH).0, x, Box::new(a))
                }
            }
            8 => {
                let c = self.expr(depth - 1);
                let t = self.expr(depth - 1);
                let f = self.expr(depth - 1);
                E::Ite(Box::new(c), Box::new(t), Box::new(f))
            }
            9 => {
                let c = self.expr(depth - 1);
                let t = self.expr(depth - 1);
                E::IfThen(Box::new(c), Box::new(t))
            }
            _ => {
                // comparisons are right-associative on two levels (`== !=` below `< <= > >=`): the
                // right operand is itself a comparison — i.e. the compiler chains — unless the
                // first operator is relational and the second an equality (`(a < b) == c`)
                let o1 = self.rng.pick(CMP).0;
                let mut o2 = self.rng.pick(CMP).0;
                let is_eq = |o: &str| o == "eq" || o == "ne";
                if !is_eq(o1) && is_eq(o2) {
                    o2 = "le";
                }
                let a = self.expr(depth - 1);
                let b = self.expr(depth - 1);
                let c = self.expr(depth - 1);
                E::Chain3(o1, o2, Box::new(a), Box::new(b), Box::new(c))
            }
        }
    }
    fn block(&mut self, n: usize, depth: usize) -> E {
        let mut items = vec![];
        for _ in 0..n {
            items.push(self.stmt(depth));
        }
        let mut it = items.into_iter().rev();
        let mut acc = it.next().unwrap();
        for s in it {
            acc = E::Seq(Box::new(s), Box::new(acc));
        }
        acc
    }
    fn stmt(&mut self, depth: usize) -> E {
        if depth > 0 && self.rng.chance(1, 4) {
            let c = self.expr(depth.min(2));
            let nt = 1 + self.rng.below(3);
            let t = self.block(nt, depth - 1);
            if self.rng.chance(2, 3) {
                let nf = 1 + self.rng.below(3);
                let f = self.block(nf, depth - 1);
                // force block rendering by making sure at least one branch is a Seq
                E::Ite(Box::new(c), Box::new(t), Box::new(f))
            } else {
                E::IfThen(Box::new(c), Box::new(t))
            }
        } else {
            self.expr(depth)
        }
    }
}


/// statements of the loop layer (`Model/CompileLoop.lean`, `Stmt`)
#[derive(Clone, Debug)]
enum St {
    Expr(E),
    Seq(Box<St>, Box<St>),
    Ite(E, Box<St>, Box<St>),
    IfThen(E, Box<St>),
    While(E, Box<St>),
    Until(E, Box<St>),
    Loop(Box<St>),
    Break,
    Continue,
}

fn st_sexp(s: &St) -> String {
    match s {
        St::Expr(e) => format!("(expr {})", sexp(e)),
        St::Seq(a, b) => format!("(sseq {} {})", st_sexp(a), st_sexp(b)),
        St::Ite(c, t, f) => format!("(site {} {} {})", sexp(c), st_sexp(t), st_sexp(f)),
        St::IfThen(c, t) => format!("(sifthen {} {})", sexp(c), st_sexp(t)),
        St::While(c, b) => format!("(while {} {})", sexp(c), st_sexp(b)),
        St::Until(c, b) => format!("(until {} {})", sexp(c), st_sexp(b)),
        St::Loop(b) => format!("(loop {})", st_sexp(b)),
        St::Break => "(break)".into(),
        St::Continue => "(continue)".into(),
    }
}

fn st_size(s: &St) -> usize {
    match s {
        St::Expr(e) => size(e),
        St::Seq(a, b) => st_size(a) + st_size(b),
        St::Ite(c, t, f) => 1 + size(c) + st_size(t) + st_size(f),
        St::IfThen(c, t) | St::While(c, t) | St::Until(c, t) => 1 + size(c) + st_size(t),
        St::Loop(b) => 1 + st_size(b),
        St::Break | St::Continue => 1,
    }
}

/// a condition after `if` / `while` / `until`: an assignment or an inline `if` is parenthesised
fn cond_text(c: &E) -> String {
    match c {
        E::Assign(..) | E::Compound(..) | E::Ite(..) | E::IfThen(..) => format!("({})", inline(c)),
        _ => inline(c),
    }
}

/// `break` / `continue` / a Seq-free expression: can be written after an inline `then`
fn st_inline(s: &St) -> Option<String> {
    match s {
        St::Break => Some("break".into()),
        St::Continue => Some("continue".into()),
        St::Expr(e) if !has_seq(e) => Some(inline_paren(e)),
        _ => None,
    }
}

fn st_render(s: &St, indent: usize, inline_ifs: bool, out: &mut String) {
    let pad = " ".repeat(indent);
    match s {
        St::Expr(e) => stmt(e, indent, out),
        St::Seq(a, b) => {
            st_render(a, indent, inline_ifs, out);
            st_render(b, indent, inline_ifs, out);
        }
        St::Ite(c, t, f) => {
            if let (true, Some(ti), Some(fi)) = (inline_ifs, st_inline(t), st_inline(f)) {
                out.push_str(&format!("{}if {} then {} else {}\n", pad, cond_text(c), ti, fi));
            } else {
                out.push_str(&format!("{}if {}\n", pad, cond_text(c)));
                st_render(t, indent + 2, inline_ifs, out);
                out.push_str(&format!("{}else\n", pad));
                st_render(f, indent + 2, inline_ifs, out);
            }
        }
        St::IfThen(c, t) => {
            if let (true, Some(ti)) = (inline_ifs, st_inline(t)) {
                out.push_str(&format!("{}if {} then {}\n", pad, cond_text(c), ti));
            } else {
                out.push_str(&format!("{}if {}\n", pad, cond_text(c)));
                st_render(t, indent + 2, inline_ifs, out);
            }
        }
        St::While(c, b) => {
            out.push_str(&format!("{}while {}\n", pad, cond_text(c)));
            st_render(b, indent + 2, inline_ifs, out);
        }
        St::Until(c, b) => {
            out.push_str(&format!("{}until {}\n", pad, cond_text(c)));
            st_render(b, indent + 2, inline_ifs, out);
        }
        St::Loop(b) => {
            out.push_str(&format!("{}loop\n", pad));
            st_render(b, indent + 2, inline_ifs, out);
        }
        St::Break => out.push_str(&format!("{}break\n", pad)),
        St::Continue => out.push_str(&format!("{}continue\n", pad)),
    }
}

/// distribution of one statement program
#[derive(Default)]
struct StStats {
    whiles: usize,
    untils: usize,
    loops: usize,
    breaks: usize,
    continues: usize,
    max_loop_depth: usize,
    /// deepest `if` nesting (inside the innermost loop) at which a break / continue occurs
    max_ctl_if_depth: usize,
    /// a break / continue that is not the last statement of its block
    ctl_not_last: usize,
    ifs: usize,
}

fn st_stats(s: &St, loop_depth: usize, if_depth: usize, last: bool, st: &mut StStats) {
    match s {
        St::Expr(_) => {}
        St::Seq(a, b) => {
            st_stats(a, loop_depth, if_depth, false, st);
            st_stats(b, loop_depth, if_depth, last, st);
        }
        St::Ite(_, t, f) => {
            st.ifs += 1;
            st_stats(t, loop_depth, if_depth + 1, true, st);
            st_stats(f, loop_depth, if_depth + 1, true, st);
        }
        St::IfThen(_, t) => {
            st.ifs += 1;
            st_stats(t, loop_depth, if_depth + 1, true, st);
        }
        St::While(_, b) | St::Until(_, b) | St::Loop(b) => {
            match s {
                St::While(..) => st.whiles += 1,
                St::Until(..) => st.untils += 1,
                _ => st.loops += 1,
            }
            st.max_loop_depth = st.max_loop_depth.max(loop_depth + 1);
            st_stats(b, loop_depth + 1, 0, true, st);
        }
        St::Break | St::Continue => {
            if matches!(s, St::Break) {
                st.breaks += 1;
            } else {
                st.continues += 1;
            }
            st.max_ctl_if_depth = st.max_ctl_if_depth.max(if_depth);
            if !last {
                st.ctl_not_last += 1;
            }
        }
    }
}

impl Gen<'_> {
    fn sblock(&mut self, n: usize, depth: usize, loop_depth: usize) -> St {
        let mut items = vec![];
        for _ in 0..n {
            items.push(self.sstmt(depth, loop_depth));
        }
        let mut it = items.into_iter().rev();
        let mut acc = it.next().unwrap();
        for s in it {
            acc = St::Seq(Box::new(s), Box::new(acc));
        }
        acc
    }
    /// an expression statement that makes progress: assignment / compound assignment / any
    fn sexpr(&mut self, depth: usize) -> E {
        let av: Vec<usize> = (0..self.nvars).filter(|i| self.assigned[*i]).collect();
        match self.rng.below(4) {
            0 if !av.is_empty() => {
                let x = *self.rng.pick(&av);
                let op = *self.rng.pick(&["add", "sub", "mul"]);
                let a = self.expr(depth.min(1));
                E::Compound(op, x, Box::new(a))
            }
            1 => {
                let x = self.rng.below(self.nvars);
                let a = self.expr(depth.min(2));
                self.assigned[x] = true;
                E::Assign(x, Box::new(a))
            }
            _ => self.stmt(depth.min(2)),
        }
    }
    fn sstmt(&mut self, depth: usize, loop_depth: usize) -> St {
        let in_loop = loop_depth > 0;
        let can_nest = depth > 0;
        let w_loop = if can_nest && loop_depth < 3 { 5 } else { 0 };
        let w_if = if can_nest { 5 } else { 0 };
        let w_ctl = if in_loop { 4 } else { 0 };
        match self.rng.weighted(&[6, w_if, w_loop, w_ctl]) {
            0 => St::Expr(self.sexpr(depth)),
            1 => {
                let c = self.expr(depth.min(2));
                let nt = 1 + self.rng.below(3);
                let t = self.sblock(nt, depth - 1, loop_depth);
                if self.rng.chance(1, 2) {
                    let nf = 1 + self.rng.below(3);
                    let f = self.sblock(nf, depth - 1, loop_depth);
                    St::Ite(c, Box::new(t), Box::new(f))
                } else {
                    St::IfThen(c, Box::new(t))
                }
            }
            2 => {
                let kind = self.rng.below(3);
                let c = if kind < 2 { Some(self.expr(depth.min(2))) } else { None };
                let nb = 1 + self.rng.below(4);
                let b = self.sblock(nb, depth - 1, loop_depth + 1);
                match (kind, c) {
                    (0, Some(c)) => St::While(c, Box::new(b)),
                    (1, Some(c)) => St::Until(c, Box::new(b)),
                    _ => St::Loop(Box::new(b)),
                }
            }
            _ => {
                if self.rng.chance(1, 2) {
                    St::Break
                } else {
                    St::Continue
                }
            }
        }
    }
}

/// the programs of the `example`s / witnesses in `Props/C01Loop.lean`, run first on every run so
/// that the streams shown there are the real compiler's
fn fixed_stmt_programs() -> Vec<(&'static str, St, E)> {
    let b = |e: E| Box::new(e);
    let sb = |s: St| Box::new(s);
    let seq = |items: Vec<St>| -> St {
        let mut it = items.into_iter().rev();
        let mut acc = it.next().unwrap();
        for s in it {
            acc = St::Seq(Box::new(s), Box::new(acc));
        }
        acc
    };
    let asg = |x: usize, n: i64| St::Expr(E::Assign(x, Box::new(E::Int(n))));
    let inc = |x: usize, e: E| St::Expr(E::Compound("add", x, Box::new(e)));
    let eq = |a: E, c: E| E::Cmp("eq", Box::new(a), Box::new(c));
    // progCount
    let count = seq(vec![
        asg(0, 0),
        asg(1, 0),
        St::While(
            E::Cmp("lt", b(E::Var(0)), b(E::Int(10))),
            sb(seq(vec![
                inc(0, E::Int(1)),
                St::IfThen(eq(E::Var(0), E::Int(3)), sb(St::Continue)),
                St::IfThen(eq(E::Var(0), E::Int(6)), sb(St::Break)),
                inc(1, E::Var(0)),
            ])),
        ),
    ]);
    // progNested
    let nested = seq(vec![
        asg(0, 0),
        asg(1, 0),
        St::Until(
            eq(E::Var(0), E::Int(3)),
            sb(seq(vec![
                asg(2, 0),
                St::Loop(sb(seq(vec![
                    St::Ite(eq(E::Var(2), E::Var(0)), sb(St::Break), sb(inc(2, E::Int(1)))),
                    inc(1, E::Int(1)),
                ]))),
                inc(0, E::Int(1)),
            ])),
        ),
    ]);
    // progUnassignedRead: `if false then x = 1` ; `x`
    let unassigned = seq(vec![St::IfThen(E::Bool(false), sb(asg(0, 1))), St::Expr(E::Var(0))]);
    // progUnusedOperator: loop / 1 / 0 / break
    let unused = St::Loop(sb(seq(vec![St::Expr(E::Bin("div", b(E::Int(1)), b(E::Int(0)))), St::Break])));
    vec![
        ("progCount", count, E::Var(1)),
        ("progNested", nested, E::Var(1)),
        ("progUnassignedRead", unassigned, E::Var(0)),
        ("progUnusedOperator", unused, E::Null),
    ]
}

fn canon_real(src: &str) -> Result<(String, i64), String> {
    // local_count from the AST's MainBlock
    let ast = Parser::parse(src).map_err(|e| format!("parse: {}", e))?;
    let mut local_count = -1i64;
    if let Some(entry) = ast.entry_point() {
        if let Node::MainBlock { local_count: lc, .. } = &ast.node(entry).node {
            local_count = *lc as i64;
        }
    }
    let chunk = Compiler::compile(src, None, CompilerSettings::default()).map_err(|e| format!("compile: {}", e))?;
    let chunk: koto_memory::Ptr<koto_bytecode::Chunk> = koto_memory::Ptr::from(chunk);
    let mut reader = InstructionReader::new(chunk.clone());
    let mut items: Vec<(usize, usize, Instruction)> = vec![];
    loop {
        let before = reader.ip;
        match reader.next() {
            Some(i) => items.push((before, reader.ip, i)),
            None => break,
        }
    }
    if items.len() < 2 {
        return Err("too few instructions".into());
    }
    let regs = match &items[0].2 {
        Instruction::NewFrame { register_count } => *register_count,
        _ => return Err("no NewFrame".into()),
    };
    let last = items.len() - 1;
    let ret = match &items[last].2 {
        Instruction::Return { register } => *register,
        _ => return Err("no final Return".into()),
    };
    let index_of_ip = |ip: usize| items.iter().position(|(b, _, _)| *b == ip);
    let mut out = vec![];
    for (idx, (_, after, ins)) in items.iter().enumerate().skip(1).take(last - 1) {
        let skip = |offset: u16| -> Result<usize, String> {
            let target = after + offset as usize;
            let j = index_of_ip(target).ok_or_else(|| format!("jump target {} is not an instruction boundary", target))?;
            Ok(j - (idx + 1))
        };
        // JumpBack: the byte offset is subtracted from the ip after the instruction; counted in
        // instructions from the instruction after the JumpBack
        let back = |offset: u16| -> Result<usize, String> {
            let target = after
                .checked_sub(offset as usize)
                .ok_or_else(|| format!("jump-back target before the chunk start ({} - {})", after, offset))?;
            let j = index_of_ip(target).ok_or_else(|| format!("jump-back target {} is not an instruction boundary", target))?;
            if j > idx {
                return Err(format!("jump-back target {} is ahead", target));
            }
            Ok(idx + 1 - j)
        };
        use Instruction::*;
        let s = match ins {
            SetNull { register } => format!("SetNull {}", register),
            SetBool { register, value } => format!("SetBool {} {}", register, *value as u8),
            SetNumber { register, value } => format!("SetNumber {} {}", register, value),
            LoadInt { register, constant } => format!("SetNumber {} {}", register, chunk.constants.get_i64(*constant)),
            Copy { target, source } => format!("Copy {} {}", target, source),
            Negate { register, value } => format!("Negate {} {}", register, value),
            Not { register, value } => format!("Not {} {}", register, value),
            Add { register, lhs, rhs } => format!("Add {} {} {}", register, lhs, rhs),
            Subtract { register, lhs, rhs } => format!("Subtract {} {} {}", register, lhs, rhs),
            Multiply { register, lhs, rhs } => format!("Multiply {} {} {}", register, lhs, rhs),
            Divide { register, lhs, rhs } => format!("Divide {} {} {}", register, lhs, rhs),
            Remainder { register, lhs, rhs } => format!("Remainder {} {} {}", register, lhs, rhs),
            Power { register, lhs, rhs } => format!("Power {} {} {}", register, lhs, rhs),
            Less { register, lhs, rhs } => format!("Less {} {} {}", register, lhs, rhs),
            LessOrEqual { register, lhs, rhs } => format!("LessOrEqual {} {} {}", register, lhs, rhs),
            Greater { register, lhs, rhs } => format!("Greater {} {} {}", register, lhs, rhs),
            GreaterOrEqual { register, lhs, rhs } => format!("GreaterOrEqual {} {} {}", register, lhs, rhs),
            Equal { register, lhs, rhs } => format!("Equal {} {} {}", register, lhs, rhs),
            NotEqual { register, lhs, rhs } => format!("NotEqual {} {} {}", register, lhs, rhs),
            AddAssign { lhs, rhs } => format!("AddAssign {} {}", lhs, rhs),
            SubtractAssign { lhs, rhs } => format!("SubtractAssign {} {}", lhs, rhs),
            MultiplyAssign { lhs, rhs } => format!("MultiplyAssign {} {}", lhs, rhs),
            DivideAssign { lhs, rhs } => format!("DivideAssign {} {}", lhs, rhs),
            RemainderAssign { lhs, rhs } => format!("RemainderAssign {} {}", lhs, rhs),
            PowerAssign { lhs, rhs } => format!("PowerAssign {} {}", lhs, rhs),
            Jump { offset } => format!("Jump +{}", skip(*offset)?),
            JumpIfFalse { register, offset } => format!("JumpIfFalse {} +{}", register, skip(*offset)?),
            JumpIfTrue { register, offset } => format!("JumpIfTrue {} +{}", register, skip(*offset)?),
            JumpBack { offset } => format!("JumpBack -{}", back(*offset)?),
            other => return Err(format!("unmodelled instruction {:?}", other)),
        };
        out.push(s);
    }
    Ok((format!("regs={} ret={} | {}", regs, ret, out.join(" ; ")), local_count))
}

fn main() {
    kvh::quiet_panics();
    let args = Args::parse();
    let mut rep = Report::new("C01", &args);
    rep.rule = "K2: seeded programs of the scalar/conditional core (literals, locals, unary, arithmetic, single comparisons, and/or, assignment, compound assignment, blocks, if / if-else inline and block form); distinct = distinct AST; non-trivial = at least 4 AST nodes and at least one operator or assignment. Second half: seeded statement programs of the loop layer (while / until / loop nested up to 3 deep, break / continue at varied depths inside ifs and not only last in their block, if / if-else with statement branches in block and inline form, bodies with assignments and compound assignments; only compiled, never run), each followed by a final expression so that every statement is in statement position; non-trivial = at least one loop and at least 6 AST nodes".into();
    let mut drv = Driver::spawn(&args.driver);
    let mut rng = Rng::new(args.seed ^ 0xC01C2);
    let n = if args.thorough() { 60000 } else { 6000 };
    let mut reqs = vec![];
    let mut cases = vec![];
    let (mut unassigned, mut real_err) = (0u64, 0u64);
    for i in 0..n {
        let nvars = 1 + rng.below(5);
        let mut g = Gen { rng: &mut rng, nvars, assigned: vec![false; nvars] };
        // a few initial assignments so that most reads are of assigned locals
        let mut pre = vec![];
        let npre = g.rng.below(nvars + 1);
        for x in 0..npre {
            let l = g.lit();
            g.assigned[x] = true;
            pre.push(E::Assign(x, Box::new(l)));
        }
        let nst = 1 + g.rng.below(4);
        let depth = 1 + (i % 4);
        let body = g.block(nst, depth);
        let mut prog = body;
        for p in pre.into_iter().rev() {
            prog = E::Seq(Box::new(p), Box::new(prog));
        }
        let mut src = String::new();
        stmt(&prog, 0, &mut src);
        match kvh::catch(|| canon_real(&src)) {
            Ok(Ok((real, lc))) => {
                reqs.push(format!("compile {} {}", lc, sexp(&prog)));
                cases.push((prog, src, real));
            }
            Ok(Err(e)) => {
                real_err += 1;
                rep.bump(&format!("real_skip={}", e.split(':').next().unwrap_or("?")));
                if real_err <= 3 {
                    rep.note(format!("skipped: {} :: {:?}", e, src));
                }
            }
            Err(p) => {
                rep.violation("D", "C01:K2:compiler-panic", json!({"input": src, "panic": p}));
            }
        }
    }
    let resps = drv.batch(&reqs);
    let mut k_fail = 0;
    for (((prog, src, real), req), model) in cases.iter().zip(reqs.iter()).zip(resps.iter()) {
        if model == "none" {
            unassigned += 1;
            continue;
        }
        let sz = size(prog);
        rep.case(req, sz >= 4);
        rep.bump(&format!("size={}", (sz / 5) * 5));
        for kw in ["JumpIfFalse", "JumpIfTrue", "Jump +", "Copy", "Assign "] {
            if real.contains(kw) {
                rep.bump(&format!("has={}", kw.trim()));
            }
        }
        if rep.samples.len() < 5 && sz >= 8 && rep.evaluations % 97 == 3 {
            rep.sample(json!({"source": src, "request": req, "impl": real, "model": model}));
        }
        if real != model {
            k_fail += 1;
            if k_fail <= 5 {
                rep.violation(
                    "K",
                    "K2:C01:Model.Compile.compile+flatten",
                    json!({"input": src, "request": req, "impl": real, "model": model,
                           "note": "the compiler model and the real compiler emit different code; compile_correct no longer speaks about this compiler"}),
                );
            }
        }
    }
    rep.bump_by("model_outside_core(unassigned read)", unassigned);

    // ---- statement programs: loops and loop control (Model/CompileLoop.lean) ----
    let ns = if args.thorough() { 60000 } else { 6000 };
    let mut sreqs = vec![];
    let mut scases = vec![];
    for (name, prog, fin) in fixed_stmt_programs() {
        let mut src = String::new();
        st_render(&prog, 0, false, &mut src);
        stmt(&fin, 0, &mut src);
        match kvh::catch(|| canon_real(&src)) {
            Ok(Ok((real, lc))) => {
                rep.bump("stmt_fixed_witness_programs");
                sreqs.push(format!("compileS {} {} {}", lc, st_sexp(&prog), sexp(&fin)));
                scases.push((prog, src, real));
            }
            other => {
                rep.violation(
                    "K",
                    "K2:C01:Model.CompileLoop.compileS+flattenL",
                    json!({"input": src, "witness": name, "impl": format!("{:?}", other),
                           "note": "a program of the examples in Props/C01Loop.lean no longer compiles to the modelled instruction set"}),
                );
            }
        }
    }
    for i in 0..ns {
        let nvars = 1 + rng.below(5);
        let mut g = Gen { rng: &mut rng, nvars, assigned: vec![false; nvars] };
        let mut pre: Vec<St> = vec![];
        let npre = g.rng.below(nvars + 1);
        for x in 0..npre {
            let l = g.lit();
            g.assigned[x] = true;
            pre.push(St::Expr(E::Assign(x, Box::new(l))));
        }
        let nst = 1 + g.rng.below(4);
        let depth = 1 + (i % 4);
        let body = g.sblock(nst, depth, 0);
        let mut prog = body;
        for p in pre.into_iter().rev() {
            prog = St::Seq(Box::new(p), Box::new(prog));
        }
        // the final expression of the main block is compiled with `Any` and returned: it keeps
        // every statement before it in statement position (result register None)
        let fin = g.expr(1);
        let inline_ifs = g.rng.chance(1, 3);
        let mut src = String::new();
        st_render(&prog, 0, inline_ifs, &mut src);
        stmt(&fin, 0, &mut src);
        match kvh::catch(|| canon_real(&src)) {
            Ok(Ok((real, lc))) => {
                sreqs.push(format!("compileS {} {} {}", lc, st_sexp(&prog), sexp(&fin)));
                scases.push((prog, src, real));
            }
            Ok(Err(e)) => {
                real_err += 1;
                rep.bump(&format!("stmt_real_skip={}", e.split(':').next().unwrap_or("?")));
                if real_err <= 6 {
                    rep.note(format!("skipped: {} :: {:?}", e, src));
                }
            }
            Err(p) => {
                rep.violation("D", "C01:K2:compiler-panic", json!({"input": src, "panic": p}));
            }
        }
    }
    let sresps = drv.batch(&sreqs);
    let mut ks_fail = 0;
    let mut s_unassigned = 0u64;
    let mut s_samples = 0;
    for (((prog, src, real), req), model) in scases.iter().zip(sreqs.iter()).zip(sresps.iter()) {
        if model == "none" {
            s_unassigned += 1;
            continue;
        }
        let mut st = StStats::default();
        st_stats(prog, 0, 0, true, &mut st);
        let nloops = st.whiles + st.untils + st.loops;
        let sz = st_size(prog);
        rep.case(req, nloops >= 1 && sz >= 6);
        rep.bump(&format!("stmt_size={}", if sz >= 200 { 200 } else { (sz / 20) * 20 }));
        rep.bump(&format!("stmt_loops={}", nloops.min(6)));
        rep.bump(&format!("stmt_loop_depth={}", st.max_loop_depth));
        rep.bump_by("stmt_kind=while", st.whiles as u64);
        rep.bump_by("stmt_kind=until", st.untils as u64);
        rep.bump_by("stmt_kind=loop", st.loops as u64);
        rep.bump_by("stmt_kind=if", st.ifs as u64);
        rep.bump_by("stmt_ctl=break", st.breaks as u64);
        rep.bump_by("stmt_ctl=continue", st.continues as u64);
        rep.bump_by("stmt_ctl=not_last_in_block", st.ctl_not_last as u64);
        if st.breaks + st.continues > 0 {
            rep.bump(&format!("stmt_ctl_if_depth={}", st.max_ctl_if_depth));
            rep.bump(&format!("stmt_ctl_per_program={}", (st.breaks + st.continues).min(6)));
        }
        if real.contains("JumpBack") {
            rep.bump("stmt_has=JumpBack");
        }
        if s_samples < 4 && nloops >= 2 && st.breaks + st.continues >= 1 && rep.evaluations % 89 == 5 {
            s_samples += 1;
            rep.sample(json!({"source": src, "request": req, "impl": real, "model": model}));
        }
        if real != model {
            ks_fail += 1;
            if ks_fail <= 5 {
                rep.violation(
                    "K",
                    "K2:C01:Model.CompileLoop.compileS+flattenL",
                    json!({"input": src, "request": req, "impl": real, "model": model,
                           "note": "the loop-layer compiler model and the real compiler emit different code; compileS_correct / flattenL_correct no longer speak about this compiler"}),
                );
            }
        }
    }
    rep.bump_by("stmt_model_outside_core(unassigned read)", s_unassigned);
    rep.extra.insert("k2_stmt_programs".into(), json!(scases.len() as u64 - s_unassigned));
    rep.extra.insert("k2_stmt_disagreements".into(), json!(ks_fail));
    rep.extra.insert("k2_disagreements".into(), json!(k_fail));
    std::process::exit(rep.finish());
}
